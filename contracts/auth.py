"""C20 — authentication, session binding, gateway trust.

Functions under contract: web/tools.py check_auth, basic_auth, digest_auth; web/_httpauth.py _checkBasicResponse,
_checkDigestResponse, checkResponse; web/sessions.py who, create_session, verify_session, Sessions.request;
web/dispatchers/virtualhosts.py VirtualHosts.__init__, VirtualHosts._on_request.
Hash functions are uninterpreted (deterministic); collision freedom is only needed for the <= direction and is listed.
"""
import z3
from pyvc.core import *  # noqa
from pyvc import core, lib
from pyvc.contract import FucSpec, LoopSpec, sym, obj, cover, uf, noop

SPECS = []
S = z3.StringSort


def VERIFIES(scheme, ident, password, method, realm):
    """spec predicate: the credentials `ident` verify against the stored password (contract of _httpauth.checkResponse)"""
    return core.fn('VERIFIES', S(), z3.IntSort(), S(), S(), S(), z3.BoolSort())(scheme, ident, password, method, realm)


# ----------------------------------------------------------------------------- check_auth
def ca_setup(I):
    request = obj(I, 'request', 'Request')
    response = obj(I, 'response', 'Response')
    realm = sym(I, 'realm', Str)
    users = sym(I, 'users', Dict(Str, Str))
    hdrs = {}
    if I.st.choice(2, 'has_authorization') == 0:
        hdrs['Authorization'] = sym(I, 'Authorization', Str)
    I.st.ghost['HDRS'] = VCDict(hdrs)
    I.st.ghost['AH'] = None
    return {'request': request, 'response': response, 'realm': realm, 'users': users}


class UsersCallable(VModel):
    """the two documented callable forms of the `users` argument: a zero-argument callable returning the dict (calling it with a
    name raises nothing relevant), or a legacy callable taking the user name and returning that user's password or None (calling it
    without arguments raises TypeError).  `table` is the ghost user table both forms stand for."""
    py_types = ('Callable',)

    def __init__(self, mode, table):
        self.mode, self.table = mode, table

    def call(self, I, args, kw):
        if self.mode == 'returns_dict':
            if args:
                raise Unsupported('users(name) on the dict-returning form')
            return self.table
        if not args:
            lib.raise_(I, 'TypeError', VStr("missing 1 required positional argument: 'username'"))
        name = lib.unopt(I, args[0])
        cover(I, 'lookup_callable')
        return VOpt(z3.Not(z3.Select(self.table.dom, name.t)), VStr(z3.Select(self.table.vals[0], name.t)), Str)


def ca_setup_callable(mode):
    def setup(I):
        a = ca_setup(I)
        I.st.ghost['TABLE'] = a['users']
        a['users'] = UsersCallable(mode, a['users'])
        return a
    return setup


def s_parseAuthorization(I, recv, args, kw):
    """contract of _httpauth.parseAuthorization: None, an exception, or a map with 'username' and 'auth_scheme'"""
    c = I.st.choice(3, 'parse')
    if c == 1:
        cover(I, 'parse_none')
        return NONE
    if c == 2:
        lib.raise_(I, 'ValueError', VStr('malformed credentials'))
    ident = core.fresh('ah_id', z3.IntSort())
    scheme = core.fresh('ah_scheme', S())
    I.assume(z3.Or(scheme == z3.StringVal('basic'), scheme == z3.StringVal('digest')))
    ah = VCDict({'username': VStr(core.fn('AH_username', z3.IntSort(), S())(ident)), 'auth_scheme': VStr(scheme)})
    I.st.ghost['AH'] = (ident, scheme, ah)
    I.st.inputs['ah.username'] = ah.d['username'].t
    I.st.inputs['ah.scheme'] = scheme
    return ah


def s_checkResponse(I, recv, args, kw):
    """contract of _httpauth.checkResponse(auth_map, password, method=, encrypt=, realm=):
    requires password is a str; returns VERIFIES(...)"""
    ah, password = args
    ident, scheme, _ = I.st.ghost['AH']
    cover(I, 'checkResponse')
    isstr = z3.BoolVal(isinstance(password, VStr)) if not isinstance(password, VOpt) else z3.Not(password.isnone)
    I.oblige('checkResponse.requires.password_is_str', isstr,
             detail='a user absent from the table has no password: None must not reach the digest/basic computation')
    pw = password.t if isinstance(password, VStr) else (password.val.t if isinstance(password, VOpt) else z3.StringVal('None'))
    I.st.ghost['CHECKED'] = (pw, kw['method'].t, kw['realm'].t)
    return VBool(VERIFIES(scheme, ident, pw, kw['method'].t, kw['realm'].t))


def ca_post(I, outcome, ctx):
    kind, v = outcome
    a = ctx['args']
    if kind == 'raise':
        cover(I, 'raise')
        # an exception is a refusal: the protected handler does not proceed; nothing more to show
        return
    cover(I, 'return')
    isb = isinstance(v, VBool)
    I.oblige('ensures.result_is_bool', z3.BoolVal(isb), detail='check_auth must return True or False, got %r' % (v,))
    if not isb:
        return
    ah = I.st.ghost['AH']
    users = I.st.ghost.get('TABLE', a['users'])
    if ah is None or 'CHECKED' not in I.st.ghost:
        I.oblige('ensures.true_only_if_verified', z3.Not(v.t))
        return
    ident, scheme, ahd = ah
    uname = ahd.d['username'].t
    pw, method, realm = I.st.ghost['CHECKED']
    in_table = z3.Select(users.dom, uname)
    stored = z3.Select(users.vals[0], uname)
    verified = z3.And(in_table, VERIFIES(scheme, ident, stored, I.fz(a['request'], 'method'), a['realm'].t))
    I.oblige('ensures.true_iff_verified', v.t == verified)
    login = I.field(a['request'], 'login')
    I.st.uses_any = True
    I.oblige('ensures.login_set', z3.Implies(v.t, login.t == core.any_inject(VStr(uname))))


def ca_replay(model, ob):
    return '''
import sys
from circuits.web import tools
class H(dict): pass
class Req: pass
bad = []
users = {'alice': 'secret'}
cases = [('Digest username="bob"', 'malformed digest (missing fields)'),
         ('Digest username="mallory", realm="r", nonce="n", uri="/", response="%s"', 'unknown user, password None formatted as text')]
import hashlib
def md5(x): return hashlib.md5(x.encode()).hexdigest()
resp = md5(md5('mallory:r:None') + ':n:' + md5('GET:/'))
forms = [('dict', users), ('callable returning the dict', lambda: users), ('callable(username) -> password or None', lambda name: users.get(name))]
for (hdr, what), (form, table) in [(c, f) for c in cases for f in forms]:
    if '%s' in hdr: hdr = hdr % resp
    req = Req(); req.headers = H(Authorization=hdr); req.method = 'GET'; req.login = None
    res = Req(); res.headers = H()
    tools.httperror = lambda *a, **k: object()
    try:
        r = tools.check_auth(req, res, 'r', table)
    except Exception as e:
        continue
    if r is not True and r is not False:
        bad.append('[users as %s] %s: check_auth returned %r (truthy non-bool => basic_auth/digest_auth let the request through)' % (form, what, r))
    elif r is True:
        bad.append('[users as %s] %s: authenticated as %r' % (form, what, req.login))
for b in bad: print(b)
sys.exit(1 if bad else 0)
'''


TOOLS_ENV = {'_httpauth.MD5': VStr('MD5'), '_httpauth.DIGEST_AUTH_ENCODERS': VCDict({'MD5': VFunc('md5hex', impl=uf('md5hex'))})}

SPECS.append(FucSpec(
    'C20', 'circuits/web/tools.py', 'check_auth', ca_setup, ca_post,
    fields={'method': Str, 'login': Any},
    calls={'_httpauth.parseAuthorization': s_parseAuthorization, '_httpauth.checkResponse': s_checkResponse,
           'httperror': lambda I, r, a, k: VCons('httperror', a)},
    env=TOOLS_ENV, attr_hooks={'request.headers': lambda I: I.st.ghost['HDRS']},
    cover=['return', 'checkResponse', 'parse_none'], replay=ca_replay,
    clause='check_auth returns exactly True or False; True iff the Authorization header parses, its user is in the table and '
           'the credentials verify against that entry; login recorded',
))


for _mode, _nm in (('returns_dict', 'users = callable returning the dict'), ('lookup', 'users = callable(username) -> password or None')):
    SPECS.append(FucSpec(
        'C20', 'circuits/web/tools.py', 'check_auth', ca_setup_callable(_mode), ca_post, name='check_auth[%s]' % _nm,
        fields={'method': Str, 'login': Any},
        calls={'_httpauth.parseAuthorization': s_parseAuthorization, '_httpauth.checkResponse': s_checkResponse,
               'httperror': lambda I, r, a, k: VCons('httperror', a)},
        env=dict(TOOLS_ENV, Callable=VClass('Callable')), attr_hooks={'request.headers': lambda I: I.st.ghost['HDRS']},
        cover=['return', 'checkResponse'] + (['lookup_callable'] if _mode == 'lookup' else []), replay=ca_replay,
        clause='check_auth with the callable forms of the user table: same contract (True iff the user has an entry and the '
               'credentials verify against it; None never reaches the digest computation)'))


# ----------------------------------------------------------------------------- basic_auth / digest_auth
def ba_setup(I):
    request = obj(I, 'request', 'Request')
    response = obj(I, 'response', 'Response')
    I.st.ghost['RHDRS'] = VCDict({})
    a = {'request': request, 'response': response, 'realm': sym(I, 'realm', Str), 'users': sym(I, 'users', Dict(Str, Str))}
    return a


def s_check_auth(I, recv, args, kw):
    """contract of check_auth (verified above): True or False (a bool), or an exception"""
    c = I.st.choice(3, 'check_auth')
    if c == 2:
        lib.raise_(I, 'ValueError', VStr('malformed credentials'))
    I.st.ghost['AUTH'] = (c == 0)
    return VBool(c == 0)


def ba_post(I, outcome, ctx):
    kind, v = outcome
    if kind == 'raise':
        cover(I, 'raise')
        return
    cover(I, 'return')
    if 'AUTH' not in I.st.ghost:
        # from the property: the handler proceeds only for credentials that verify against THIS realm and THIS user table; no state
        # left on the request by an earlier check (another realm, another table) may stand in for that
        I.oblige('ensures.credentials_are_checked_against_this_realm_and_table_on_every_path', z3.BoolVal(False),
                 detail='returned %s without calling check_auth(request, response, realm, users)' % ('None (authenticated)' if isinstance(v, VNone) else 'a response'))
        return
    auth = I.st.ghost['AUTH']
    I.oblige('ensures.none_iff_authenticated', z3.BoolVal(isinstance(v, VNone) == auth))
    if not auth:
        I.oblige('ensures.challenge_set', z3.BoolVal('WWW-Authenticate' in I.st.ghost['RHDRS'].d))
        I.oblige('ensures.returns_unauthorized', z3.BoolVal(isinstance(v, VCons) and v.tag == 'unauthorized'))


BA_REPLAY = 'import base64, sys\nfrom circuits.web import tools, wrappers\nfrom circuits.web.headers import Headers\nclass S:\n    def getpeername(self): return (\'127.0.0.1\', 1)\n    def getsockname(self): return (\'127.0.0.1\', 2)\ndef mk():\n    cred = base64.b64encode(b\'alice:wonderland\').decode()\n    req = wrappers.Request(S(), \'GET\', \'http\', \'/\', (1, 1), \'\', headers=Headers([(\'Host\', \'localhost:80\'), (\'Authorization\', \'Basic \' + cred)]))\n    return req, wrappers.Response(req, \'utf-8\')\nbad = []\nsite = {\'alice\': \'wonderland\'}\nadmin = {\'root\': \'toor\', \'alice\': \'another-password\'}\nenc = lambda s: s\nfor fn in (tools.basic_auth, tools.digest_auth):\n    req, res = mk()\n    kw = {\'encrypt\': enc} if fn is tools.basic_auth else {}\n    first = tools.basic_auth(req, res, \'Site\', site, enc)          # valid for the first realm / table\n    if first is not None:\n        bad.append(\'control failed: valid credentials refused (%r)\' % (first,)); continue\n    try:\n        second = fn(req, res, \'Admin\', admin, **kw)                  # same request, other realm and table: must be refused\n    except Exception as e:\n        second = e\n    if second is None:\n        bad.append(\'%s(realm "Admin") let the request through on the strength of an earlier check for realm "Site" (login=%r)\' % (fn.__name__, req.login))\nfor b in bad: print(b)\nsys.exit(1 if bad else 0)\n'

for fn_ in ('basic_auth', 'digest_auth'):
    SPECS.append(FucSpec(
        'C20', 'circuits/web/tools.py', fn_, ba_setup, ba_post, replay=lambda model, ob: BA_REPLAY,
        calls={'check_auth': s_check_auth, '_httpauth.basicAuth': uf('basicAuth'), '_httpauth.digestAuth': uf('digestAuth'),
               'unauthorized': lambda I, r, a, k: VCons('unauthorized', a)},
        attr_hooks={'response.headers': lambda I: I.st.ghost['RHDRS']}, cover=['return'],
        clause='%s lets the handler proceed (returns None) iff check_auth returned True; otherwise a 401 challenge' % fn_,
    ))


# ----------------------------------------------------------------------------- _httpauth checkers
def H(t):
    return core.fn('md5hex_1', S(), S())(t)


def ENC(t):
    return core.fn('py_encode', S(), S())(t)


def cat(*ts):
    out = []
    for k, t in enumerate(ts):
        if k:
            out.append(z3.StringVal(':'))
        out.append(t)
    return z3.Concat(*out)


def dg_setup(I):
    keys = ['username', 'realm', 'nonce', 'uri', 'response']
    if I.st.choice(2, 'qop') == 0:
        keys += ['qop', 'cnonce', 'nc']
    d = {k: sym(I, 'auth.' + k, Str) for k in keys}
    I.st.ghost['AUTHMAP'] = d
    pw = sym(I, 'password', Str)
    method = sym(I, 'method', Str)
    realm = sym(I, 'realm_cfg', Str)
    return {'auth_map': VCDict(d), 'password': pw, 'method': method, 'A1': NONE,
            'kwargs': VCDict({'realm': realm, 'encrypt': NONE})}


def dg_post(I, outcome, ctx):
    kind, v = outcome
    d = I.st.ghost['AUTHMAP']
    a = ctx['args']
    if kind == 'raise':
        cover(I, 'raise')
        # NotImplementedError for an unknown qop is a refusal
        I.oblige('raises_only_NotImplementedError', z3.BoolVal(v.cls == 'NotImplementedError'), detail='escaping %s' % v.cls)
        return
    cover(I, 'return')
    I.oblige('ensures.result_is_bool', z3.BoolVal(isinstance(v, VBool)))
    realm_ok = d['realm'].t == a['kwargs'].d['realm'].t
    ha1 = H(ENC(cat(d['username'].t, d['realm'].t, a['password'].t)))
    if 'qop' in d:
        ha2 = H(ENC(z3.Concat(a['method'].t, z3.StringVal(':'), d['uri'].t)))
        req = cat(d['nonce'].t, d['nc'].t, d['cnonce'].t, d['qop'].t, ha2)
        I.assume(d['qop'].t == z3.StringVal('auth'), 'case qop=auth (auth-int needs the entity body hash H passed by the caller)')
    else:
        ha2 = H(ENC(z3.Concat(a['method'].t, z3.StringVal(':'), d['uri'].t)))
        req = cat(d['nonce'].t, ha2)
    expected = H(ENC(z3.Concat(ha1, z3.StringVal(':'), req)))
    I.oblige('ensures.true_iff_rfc2617_digest_matches', v.t == z3.And(realm_ok, d['response'].t == expected))


HTTPAUTH_ENV = {'DIGEST_AUTH_ENCODERS': VCDict({'MD5': VFunc('md5hex', impl=uf('md5hex')), 'MD5-sess': VFunc('md5hex', impl=uf('md5hex'))})}


def s_compute(I, recv, args, kw):
    raise Unsupported('not used')


SPECS.append(FucSpec(
    'C20', 'circuits/web/_httpauth.py', '_computeDigestResponse',
    lambda I: {k: v for k, v in dg_setup(I).items() if k != 'kwargs'} | {'kwargs': VCDict({})},
    lambda I, o, c: dgc_post(I, o, c), env=HTTPAUTH_ENV,
    calls={'_A1': lambda I, r, a, k: s_A1(I, a), '_A2': lambda I, r, a, k: s_A2(I, a)}, cover=['return'],
    clause='_computeDigestResponse = KD(H(A1), nonce[:nc:cnonce:qop]:H(A2)) per RFC 2617 for qop absent / auth',
))


def s_A1(I, a):
    params, password = a
    I.oblige('_A1.requires.password_is_str', z3.BoolVal(isinstance(password, VStr)))
    return VStr(cat(params.d['username'].t, params.d['realm'].t, password.t))


def s_A2(I, a):
    params, method, kwargs = a
    if 'qop' in params.d and not I.branch(z3.Or(params.d['qop'].t == z3.StringVal('auth'), params.d['qop'].t == z3.StringVal('auth-int')), 'qop_known'):
        lib.raise_(I, 'NotImplementedError', VStr('unknown qop'))
    return VStr(z3.Concat(method.t, z3.StringVal(':'), params.d['uri'].t))


def dgc_post(I, outcome, ctx):
    kind, v = outcome
    d = I.st.ghost['AUTHMAP']
    a = ctx['args']
    if kind == 'raise':
        I.oblige('raises_only_NotImplementedError', z3.BoolVal(v.cls == 'NotImplementedError'), detail='escaping %s' % v.cls)
        return
    cover(I, 'return')
    ha1 = H(ENC(cat(d['username'].t, d['realm'].t, a['password'].t)))
    ha2 = H(ENC(z3.Concat(a['method'].t, z3.StringVal(':'), d['uri'].t)))
    if 'qop' in d:
        req = cat(d['nonce'].t, d['nc'].t, d['cnonce'].t, d['qop'].t, ha2)
    else:
        req = cat(d['nonce'].t, ha2)
    I.oblige('ensures.rfc2617_request_digest', v.t == H(ENC(z3.Concat(ha1, z3.StringVal(':'), req))))


def cdr_setup(I):
    a = dg_setup(I)
    return a


def s_computeDigestResponse(I, recv, args, kw):
    """contract of _computeDigestResponse (verified above)"""
    d = I.st.ghost['AUTHMAP']
    params, password, method, A1 = args
    ha1 = H(ENC(cat(d['username'].t, d['realm'].t, password.t)))
    ha2 = H(ENC(z3.Concat(method.t, z3.StringVal(':'), d['uri'].t)))
    if 'qop' in d:
        if I.st.choice(2, 'qop_known') == 1:
            lib.raise_(I, 'NotImplementedError', VStr('unknown qop'))
        req = cat(d['nonce'].t, d['nc'].t, d['cnonce'].t, d['qop'].t, ha2)
    else:
        req = cat(d['nonce'].t, ha2)
    return VStr(H(ENC(z3.Concat(ha1, z3.StringVal(':'), req))))


SPECS.append(FucSpec(
    'C20', 'circuits/web/_httpauth.py', '_checkDigestResponse', cdr_setup, dg_post, env=HTTPAUTH_ENV,
    calls={'_computeDigestResponse': s_computeDigestResponse}, cover=['return'],
    clause='_checkDigestResponse is True iff the realm is the configured one and the response equals the RFC 2617 digest '
           'computed from the stored password',
))


def cb_setup(I):
    d = {'username': sym(I, 'auth.username', Str), 'password': sym(I, 'auth.password', Str)}
    I.st.ghost['AUTHMAP'] = d
    return {'auth_map': VCDict(d), 'password': sym(I, 'password', Str), 'method': sym(I, 'method', Str),
            'encrypt': VFunc('encrypt', impl=lambda I, b, a, k: enc1(I, a)), 'kwargs': VCDict({})}


def enc1(I, a):
    """the user-supplied encrypt callable: either takes (password, username) or only (password) and then raises TypeError for two"""
    if len(a) == 2:
        if I.st.choice(2, 'encrypt_takes_two_arguments') == 1:
            lib.raise_(I, 'TypeError', VStr('encrypt() takes 1 positional argument'))
        t = core.fn('ENCRYPT2', S(), S(), S())(a[0].t, a[1].t)
    else:
        t = core.fn('ENCRYPT', S(), S())(a[0].t)
    I.st.ghost['ENCRYPTED'] = t
    return VStr(t)


def cb_post(I, outcome, ctx):
    kind, v = outcome
    if kind == 'raise':
        I.oblige('no_escape', z3.BoolVal(False), detail='escaping %s' % v.cls)
        return
    cover(I, 'return')
    d = I.st.ghost['AUTHMAP']
    enc = I.st.ghost.get('ENCRYPTED')
    I.oblige('ensures.true_iff_encrypted_password_matches', z3.BoolVal(False) if enc is None else v.t == (enc == ctx['args']['password'].t),
             detail='for both signatures of the encrypt callable (password, username) and (password)')
    if enc is not None:
        u = d['username'].t
        pw = d['password'].t
        I.oblige('ensures.the_supplied_password_is_what_gets_encrypted', z3.Or(enc == core.fn('ENCRYPT', S(), S())(pw), enc == core.fn('ENCRYPT2', S(), S(), S())(pw, u)))


SPECS.append(FucSpec(
    'C20', 'circuits/web/_httpauth.py', '_checkBasicResponse', cb_setup, cb_post, cover=['return'],
    clause='_checkBasicResponse is True iff encrypt(supplied password) equals the stored password',
))


# ----------------------------------------------------------------------------- sessions
def SHA(t):
    return core.fn('sha1hex', S(), S())(t)


def sess_objs(I):
    request = obj(I, 'request', 'Request')
    remote = I.field(request, 'remote')
    I.assume(remote.t != core.null())
    I.st.ghost['REQH'] = VCDict({'User-Agent': sym(I, 'User-Agent', Str)})
    return request


def WHO(I, request):
    ip = I.fz(I.field(request, 'remote'), 'ip')
    return SHA(ENC(z3.Concat(ip, I.st.ghost['REQH'].d['User-Agent'].t)))


SESS_FIELDS = {'remote': Ref, 'ip': Str, 'cookie': Ref, 'session': Ref, '_name': Str, '_store': Ref}


def s_sha(I, recv, args, kw):
    return VCons('hash', [], attrs={'hexdigest': VFunc('hexdigest', impl=lambda I2, b, a, k: VStr(SHA(args[0].t)))})


def who_setup(I):
    return {'request': sess_objs(I)}


def who_post(I, outcome, ctx):
    kind, v = outcome
    if kind == 'raise':
        I.oblige('no_escape', z3.BoolVal(False), detail='escaping %s' % v.cls)
        return
    cover(I, 'return')
    I.oblige('ensures.fingerprint_of_ip_and_agent', v.t == WHO(I, ctx['args']['request']))


SPECS.append(FucSpec(
    'C20', 'circuits/web/sessions.py', 'who', who_setup, who_post, fields=SESS_FIELDS, calls={'sha': s_sha},
    attr_hooks={'request.headers': lambda I: I.st.ghost['REQH']}, cover=['return'],
    clause='who(request) = sha1(ip ++ user agent)',
))


def s_who(I, recv, args, kw):
    return VStr(WHO(I, args[0]))


def s_uuid(I, recv, args, kw):
    I.st.trusted_used.add("uuid4().hex: fresh 32-digit hex string (no '/'), distinct from every id seen before")
    h = core.fresh('uuidhex', S())
    I.assume(z3.Not(z3.Contains(h, z3.StringVal('/'))))
    I.st.ghost.setdefault('UUIDS', []).append(h)
    return VCons('uuid', [], attrs={'hex': VStr(h)})


def cs_post(I, outcome, ctx):
    kind, v = outcome
    if kind == 'raise':
        I.oblige('no_escape', z3.BoolVal(False), detail='escaping %s' % v.cls)
        return
    cover(I, 'return')
    us = I.st.ghost.get('UUIDS', [])
    I.oblige('ensures.one_fresh_uuid', z3.BoolVal(len(us) == 1))
    if len(us) == 1:
        I.oblige('ensures.fresh_id_bound_to_fingerprint', v.t == z3.Concat(us[0], z3.StringVal('/'), WHO(I, ctx['args']['request'])))


SPECS.append(FucSpec(
    'C20', 'circuits/web/sessions.py', 'create_session', who_setup, cs_post, fields=SESS_FIELDS,
    calls={'who': s_who, 'uuid': s_uuid}, cover=['return'],
    clause='create_session = fresh uuid hex ++ "/" ++ who(request)',
))


def s_create_session(I, recv, args, kw):
    h = core.fresh('uuidhex', S())
    I.assume(z3.Not(z3.Contains(h, z3.StringVal('/'))))
    I.st.ghost.setdefault('CREATED', []).append(h)
    return VStr(z3.Concat(h, z3.StringVal('/'), WHO(I, args[0])))


def vs_setup(I):
    return {'request': sess_objs(I), 'sid': sym(I, 'sid', Str)}


def vs_post(I, outcome, ctx):
    kind, v = outcome
    if kind == 'raise':
        I.oblige('no_escape', z3.BoolVal(False), detail='escaping %s' % v.cls)
        return
    cover(I, 'return')
    sid = ctx['args']['sid'].t
    slash = z3.StringVal('/')
    idx = z3.IndexOf(sid, slash, 0)
    suffix = z3.SubString(sid, idx + 1, z3.Length(sid))
    bound = z3.And(z3.Contains(sid, slash), suffix == WHO(I, ctx['args']['request']))
    created = I.st.ghost.get('CREATED', [])
    I.oblige('ensures.presented_id_kept_iff_fingerprint_matches', z3.BoolVal(len(created) == 0) == bound)
    if created:
        I.oblige('ensures.else_fresh_id', v.t == z3.Concat(created[0], slash, WHO(I, ctx['args']['request'])))
    else:
        I.oblige('ensures.kept_id_is_presented_id', v.t == sid)


SPECS.append(FucSpec(
    'C20', 'circuits/web/sessions.py', 'verify_session', vs_setup, vs_post, fields=SESS_FIELDS,
    calls={'who': s_who, 'create_session': s_create_session}, cover=['return'],
    clause='verify_session returns the presented id iff its suffix after the first "/" is the fingerprint of this request, '
           'otherwise a fresh id',
))


def sr_setup(I):
    self = obj(I, 'self', 'Sessions')
    request = sess_objs(I)
    response = obj(I, 'response', 'Response')
    cookies = {}
    if I.st.choice(2, 'has_cookie') == 0:
        cookies['present'] = sym(I, 'cookie.value', Str)
    I.st.ghost['COOKIE'] = cookies
    I.st.ghost['LOADED'] = []
    I.st.ghost['SET'] = []
    I.st.ghost['VERIFIED'] = []
    return {'self': self, 'request': request, 'response': response}


def sr_calls():
    def name_in_cookie(I):
        return VBool('present' in I.st.ghost['COOKIE'])

    def s_verify(I, recv, args, kw):
        req, sid = args
        out = core.fresh('verified_sid', S())
        I.st.ghost['VERIFIED'].append((sid.t, out))
        return VStr(out)

    def s_load(I, recv, args, kw):
        I.st.ghost['LOADED'].append(args[0].t)
        return I.st.fresh_ref('Session')
    return {'verify_session': s_verify, 'create_session': s_create_session, 'self.store.load': s_load}


class ReqCookie(VModel):
    def contains(self, I, item):
        return z3.BoolVal('present' in I.st.ghost['COOKIE'])

    def getitem(self, I, idx):
        if 'present' not in I.st.ghost['COOKIE']:
            lib.raise_(I, 'KeyError', idx)
        return VCons('morsel', [], attrs={'value': I.st.ghost['COOKIE']['present']})


class RespCookie(VModel):
    def setitem(self, I, idx, val):
        I.st.ghost['SET'].append(val.t)


def sr_post(I, outcome, ctx):
    kind, v = outcome
    if kind == 'raise':
        I.oblige('no_escape', z3.BoolVal(False), detail='escaping %s' % v.cls)
        return
    cover(I, 'return')
    g = I.st.ghost
    I.oblige('ensures.one_store_load', z3.BoolVal(len(g['LOADED']) == 1))
    if 'present' in g['COOKIE']:
        ok = len(g['VERIFIED']) == 1 and not g.get('CREATED')
        I.oblige('ensures.cookie_id_goes_through_verify_session', z3.BoolVal(ok))
        if ok:
            I.oblige('ensures.verify_gets_presented_id', g['VERIFIED'][0][0] == g['COOKIE']['present'].t)
            I.oblige('ensures.loads_only_the_verified_id', g['LOADED'][0] == g['VERIFIED'][0][1])
            I.oblige('ensures.cookie_set_to_loaded_id', z3.And(z3.BoolVal(len(g['SET']) == 1), *[s == g['LOADED'][0] for s in g['SET']]))
    else:
        ok = len(g.get('CREATED', [])) == 1 and not g['VERIFIED']
        I.oblige('ensures.no_cookie_means_fresh_id', z3.BoolVal(ok))
        if ok:
            I.oblige('ensures.loads_the_fresh_id', g['LOADED'][0] == z3.Concat(g['CREATED'][0], z3.StringVal('/'), WHO(I, ctx['args']['request'])))


def sr_attr_hooks():
    return {'request.cookie': lambda I: ReqCookie(), 'response.cookie': lambda I: RespCookie(),
            'self.name': lambda I: VStr(z3.Select(I.st.heap['_name'][0], I.local('self').t))}


SPECS.append(FucSpec(
    'C20', 'circuits/web/sessions.py', 'Sessions.request', sr_setup, sr_post, fields=SESS_FIELDS, calls=sr_calls(),
    attr_hooks=sr_attr_hooks(), cover=['return'],
    clause='the session store is loaded exactly once, under the id verify_session returned for the presented cookie (or a fresh '
           'id when there is no cookie), and that id is what the response cookie carries',
))


# ----------------------------------------------------------------------------- VirtualHosts
VH_FIELDS = {'domains': Dict(Str, Str), 'trusted_gateways': Opt(Set(Str)), 'remote': Ref, 'ip': Str, 'path': Str}


def vhi_setup(I):
    self = obj(I, 'self', 'VirtualHosts')
    return {'self': self, 'domains': sym(I, 'domains', Dict(Str, Str)), 'trusted_gateways': sym(I, 'trusted_gateways', Opt(Set(Str)))}


def vhi_post(I, outcome, ctx):
    kind, v = outcome
    if kind == 'raise':
        I.oblige('no_escape', z3.BoolVal(False), detail='escaping %s' % v.cls)
        return
    cover(I, 'return')
    a = ctx['args']
    tg = I.field(a['self'], 'trusted_gateways')
    cfg = a['trusted_gateways']
    I.oblige('ensures.trusted_gateways_stored', z3.And(tg.isnone == cfg.isnone, z3.Or(cfg.isnone, tg.val.arr == cfg.val.arr)),
             detail='the configured gateways must be kept (a dropped configuration trusts every client)')
    d = I.field(a['self'], 'domains')
    I.oblige('ensures.domains_stored', z3.And(d.dom == a['domains'].dom, d.vals[0] == a['domains'].vals[0]))


def vhi_replay(model, ob):
    return '''
import sys
from circuits.web.dispatchers.virtualhosts import VirtualHosts
v = VirtualHosts({'a': '/a'}, trusted_gateways=['10.0.0.1'])
print('configured gateways [10.0.0.1], stored:', v.trusted_gateways)
sys.exit(1 if v.trusted_gateways != ['10.0.0.1'] else 0)
'''


SPECS.append(FucSpec(
    'C20', 'circuits/web/dispatchers/virtualhosts.py', 'VirtualHosts.__init__', vhi_setup, vhi_post, fields=VH_FIELDS,
    calls={'super().__init__': noop}, cover=['return'], replay=vhi_replay,
    clause='the constructor stores the configured trusted gateways',
))


def vh_setup(I):
    self = obj(I, 'self', 'VirtualHosts')
    event = obj(I, 'event', 'Event')
    request = obj(I, 'request', 'Request')
    response = obj(I, 'response', 'Response')
    I.assume(I.field(request, 'remote').t != core.null())
    I.st.ghost['REQH'] = VCDict({'Host': sym(I, 'Host', Str), 'X-Forwarded-Host': sym(I, 'X-Forwarded-Host', Str)})
    I.st.ghost['LOOKUP'] = []
    return {'self': self, 'event': event, 'request': request, 'response': response}


def s_domains_get(I, recv, args, kw):
    I.st.ghost['LOOKUP'].append(args[0].t)
    d = I.field(I.local('self'), 'domains')
    return lib.dict_method(I, d, 'get', args, kw)[0]


def vh_post(I, outcome, ctx):
    kind, v = outcome
    if kind == 'raise':
        I.oblige('no_escape', z3.BoolVal(False), detail='escaping %s' % v.cls)
        return
    cover(I, 'return')
    a = ctx['args']
    look = I.st.ghost['LOOKUP']
    I.oblige('ensures.one_lookup', z3.BoolVal(len(look) == 1))
    if len(look) != 1:
        return
    host = I.st.ghost['REQH'].d['Host'].t
    tg = I.field(a['self'], 'trusted_gateways')
    ip = I.fz(I.field(a['request'], 'remote'), 'ip')
    trusted = z3.Or(tg.isnone, z3.Select(tg.val.arr, ip))
    I.oblige('ensures.forwarded_host_only_from_trusted_gateway', z3.Implies(look[0] != host, trusted),
             detail='routing on anything but the Host header requires the client to be a configured gateway (or none configured)')


SPECS.append(FucSpec(
    'C20', 'circuits/web/dispatchers/virtualhosts.py', 'VirtualHosts._on_request', vh_setup, vh_post, fields=VH_FIELDS,
    calls={'self.domains.get': s_domains_get, 'urljoin': uf('urljoin')},
    attr_hooks={'request.headers': lambda I: I.st.ghost['REQH']}, cover=['return'],
    clause='the routing key differs from the Host header only if the remote address is a configured trusted gateway',
))


# ----------------------------------------------------------------------------- MemoryStore: session id -> data
# "Session data stored under a session id is only returned to requests presenting that id": Sessions.request (above) loads the
# store under the verified id only; the store itself must then key its table by EXACTLY that id - the whole string, uuid part and
# fingerprint part.  The table is a model object that records every access; the obligations pin the key of each access to the sid
# argument (string equality, for every sid).
class StoreTable(VModel):
    def getitem(self, I, idx):
        I.st.ghost.setdefault('TABLE_OPS', []).append(('get', idx, None))
        # defaultdict(dict): a missing key creates an empty entry; either way some dict object comes back
        return VRef(core.fn('STORED_UNDER', S(), core.RefSort())(idx.t), 'dict')

    def setitem(self, I, idx, val):
        I.st.ghost.setdefault('TABLE_OPS', []).append(('set', idx, val))

    def delitem(self, I, idx):
        I.st.ghost.setdefault('TABLE_OPS', []).append(('del', idx, None))


def ms_setup(with_data):
    def setup(I):
        self = obj(I, 'self', 'MemoryStore')
        sid = sym(I, 'sid', Str)
        a = {'self': self, 'sid': sid}
        if with_data:
            a['data'] = obj(I, 'data', 'dict')
        I.st.ghost['TABLE_OPS'] = []
        return a
    return setup


def ms_post(op):
    def post(I, outcome, ctx):
        kind, v = outcome
        a = ctx['args']
        if kind == 'raise':
            I.oblige('no_escape', z3.BoolVal(op == 'del' and v.cls == 'KeyError'), detail='escaping %s' % v.cls)
            return
        cover(I, 'return')
        ops = I.st.ghost['TABLE_OPS']
        I.oblige('one_table_access_of_the_right_kind', z3.BoolVal(len(ops) == 1 and ops[0][0] == op),
                 detail='table accesses: %r' % [o[0] for o in ops])
        for o in ops:
            I.oblige('table_keyed_by_exactly_the_session_id', o[1].t == a['sid'].t,
                     detail='the table entry that is read, written or deleted is the one of the complete session id (uuid part AND '
                            'client fingerprint): data stored under one id must not be reachable through another id')
        if op == 'get' and len(ops) == 1:
            ok = isinstance(v, VCons) and v.tag == 'Session' and len(v.args) == 3
            I.oblige('returns_a_session_of_this_id_with_the_stored_data', z3.BoolVal(ok))
            if ok:
                I.oblige('session_carries_the_id_the_data_and_the_store',
                         z3.And(v.args[0].t == a['sid'].t, v.args[1].t == core.fn('STORED_UNDER', S(), core.RefSort())(a['sid'].t),
                                v.args[2].t == a['self'].t))
        if op == 'set' and len(ops) == 1:
            I.oblige('stores_the_data_given', ops[0][2].t == a['data'].t)
    return post


def ms_replay(model, ob):
    return '''
import sys
from circuits.web.sessions import MemoryStore
bad = []
for a, b in (('u1/fpA', 'u1/fpB'), ('u1/fpA', 'u1'), ('u1/fpA', 'u1/'), ('u1/x/y', 'u1/x'), ('U1/fp', 'u1/fp')):
    st = MemoryStore()
    st.save(a, {'secret': 1})
    got = dict(st.load(b))
    if got:
        bad.append('data saved under %r is returned by load(%r): %r' % (a, b, got))
    st.save(b, {'other': 2})
    if dict(st.load(a)) != {'secret': 1}:
        bad.append('save(%r) changed the data stored under %r: %r' % (b, a, dict(st.load(a))))
    try:
        st.delete(b)
    except KeyError:
        pass
    if dict(st.load(a)) != {'secret': 1}:
        bad.append('delete(%r) removed the data stored under %r' % (b, a))
print('\\n'.join(bad) or 'the store keeps ids apart')
if bad:
    print('REPRODUCED')
sys.exit(1 if bad else 0)
'''


for _name, _op, _wd in (('MemoryStore.load', 'get', False), ('MemoryStore.save', 'set', True), ('MemoryStore.delete', 'del', False)):
    SPECS.append(FucSpec(
        'C20', 'circuits/web/sessions.py', _name, ms_setup(_wd), ms_post(_op), fields=SESS_FIELDS,
        calls={'Session': lambda I, r, a, k: VCons('Session', a)}, attr_hooks={'self.data': lambda I: StoreTable()},
        cover=['return'], replay=ms_replay,
        clause='%s touches exactly one table entry, the one keyed by the complete session id it was given' % _name))


# Session.__exit__ / Session.expire: the session writes back (deletes) under the id it was loaded with, nothing else
SN_FIELDS = dict(SESS_FIELDS, _sid=Str)


def sn_setup(exit_):
    def setup(I):
        self = obj(I, 'self', 'Session')
        I.st.ghost['STORE_CALLS'] = []
        a = {'self': self}
        if exit_:
            a['exc_type'] = sym(I, 'exc_type', Opt(Ref))
            a['exc_value'] = sym(I, 'exc_value', Opt(Ref))
            a['traceback'] = sym(I, 'traceback', Opt(Ref))
        return a
    return setup


def sn_post(exit_):
    def post(I, outcome, ctx):
        kind, v = outcome
        a = ctx['args']
        if kind == 'raise':
            I.oblige('no_escape', z3.BoolVal(False), detail='escaping %s' % v.cls)
            return
        cover(I, 'return')
        calls = I.st.ghost['STORE_CALLS']
        sid0 = I.fz(a['self'], '_sid')
        if exit_:
            clean = a['exc_type'].isnone
            I.oblige('saved_once_iff_the_block_ended_without_exception', z3.BoolVal(len(calls) == 1 and calls[0][0] == 'save') == clean)
            I.oblige('failed_block_stores_nothing', z3.Implies(z3.Not(clean), z3.BoolVal(len(calls) == 0)))
        else:
            I.oblige('deleted_once', z3.BoolVal(len(calls) == 1 and calls[0][0] == 'delete'))
        for c in calls:
            I.oblige('store_addressed_with_the_id_of_this_session', c[1][0].t == sid0)
            if c[0] == 'save':
                I.oblige('the_session_itself_is_saved', c[1][1].t == a['self'].t)
    return post


def _sn_call(kind):
    def f(I, recv, args, kw):
        I.st.ghost['STORE_CALLS'].append((kind, args))
        return NONE
    return f


for _q, _ex in (('Session.__exit__', True), ('Session.expire', False)):
    SPECS.append(FucSpec(
        'C20', 'circuits/web/sessions.py', _q, sn_setup(_ex), sn_post(_ex), fields=SN_FIELDS,
        calls={'self.store.save': _sn_call('save'), 'self.store.delete': _sn_call('delete')},
        attr_hooks={'self.sid': lambda I: VStr(I.fz(I.local('self'), '_sid'))}, cover=['return'],
        clause='%s addresses the store with the id this session was loaded under (and nothing else)' % _q))

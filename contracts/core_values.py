"""C04 — Value.setValue accumulates the handler results: one result is stored as such, several as a list in order.

Ghost: vs = the sequence of results recorded so far (z3 Seq over the Any universe).  Python list values inside Any are
PYLIST(seq) with SEQ(PYLIST(s)) = s.  Rep(self, vs): result <=> |vs| >= 1; |vs| = 1 => _value = vs[0];
|vs| >= 2 => _value = PYLIST(vs).
"""
import z3
from pyvc.core import *  # noqa
from pyvc import core, lib
from pyvc.contract import FucSpec, LoopSpec, sym, obj, cover, uf, noop

SPECS = []
FILE = 'circuits/core/values.py'
V_FIELDS = {'_value': Any, 'result': Bool, 'errors': Bool, 'v_parent': Ref, 'promise': Bool, 'notify': Any, 'v_event': Ref, 'manager': Ref}
V_ALIAS = {('Value', 'parent'): 'v_parent', ('Value', 'event'): 'v_event'}


def SeqAny():
    return z3.SeqSort(core.AnySort())


def PYLIST(s):
    return core.fn('PYLIST', SeqAny(), core.AnySort())(s)


def SEQ(a):
    return core.fn('SEQ', core.AnySort(), SeqAny())(a)


def ISLIST(a):
    return core.fn('any_isinst_list', core.AnySort(), z3.BoolSort())(a)


def list_axioms(I, terms):
    """instances of: ISLIST(PYLIST(s)), SEQ(PYLIST(s)) = s, PYLIST(s) is not None"""
    for s in terms:
        I.assume(z3.And(ISLIST(PYLIST(s)), SEQ(PYLIST(s)) == s, z3.Not(core.any_is_none(PYLIST(s)))))


def rep(I, self, vs):
    n = z3.Length(vs)
    val = I.fz(self, '_value')
    return [
        ('result_iff_some_value', I.fz(self, 'result') == (n >= 1)),
        ('single_result_stored_as_such', z3.Implies(n == 1, val == vs[0])),
        ('several_results_as_list_in_order', z3.Implies(n >= 2, val == PYLIST(vs))),
    ]


def sv_setup(I):
    I.st.uses_any = True
    self = I.st.known_ref('self', 'Value')
    v = sym(I, 'value', Any)
    vs = z3.Const('vs', SeqAny())
    I.st.ghost['VS'] = vs
    I.st.inputs['n_results_so_far'] = z3.Length(vs)
    list_axioms(I, [vs])
    for lbl, f in rep(I, self, vs):
        I.assume(f, 'requires Rep.' + lbl)
    I.assume(z3.Not(core.any_is_none(v.t)), 'requires value is not None (the dispatcher stores non-None results only)')
    I.assume(z3.Not(core.fn('any_isinst_Value', core.AnySort(), z3.BoolSort())(v.t)), 'case: value is not itself a Value (nested promises not covered)')
    I.assume(I.field(self, 'v_parent').t == self.t, 'case: top-level Value as created by fireEvent (parent is self)')
    # the first result is not itself a python list (see known finding C04-list-result)
    if I.st.ghost.get('ASSUME_FIRST_NOT_LIST', True):
        pass
    I.st.inputs['first_result_is_a_list'] = z3.And(z3.Length(vs) == 1, ISLIST(vs[0]))
    return {'self': self, 'value': v}


def s_append_to_value(I, recv, args, kw):
    """list.append on the list object held in self._value (in-place mutation)"""
    self = I.local('self')
    cur = I.fz(self, '_value')
    new = z3.Concat(SEQ(cur), z3.Unit(core.any_inject(args[0])))
    list_axioms(I, [new])
    I.st.write_field(self.t, '_value', VAny(PYLIST(new)))
    return NONE


def s_inform(I, recv, args, kw):
    I.st.ghost.setdefault('INFORM', []).append(recv)
    return NONE


def sv_post(I, outcome, ctx):
    kind, v = outcome
    if kind == 'raise':
        I.oblige('no_escape', z3.BoolVal(False), detail='escaping %s' % v.cls)
        return
    cover(I, 'return')
    self, value = ctx['args']['self'], ctx['args']['value']
    vs = I.st.ghost['VS']
    vs2 = z3.Concat(vs, z3.Unit(value.t))
    list_axioms(I, [vs2])
    first_is_list = z3.And(z3.Length(vs) == 1, ISLIST(vs[0]))
    for lbl, f in rep(I, self, vs2):
        if lbl == 'several_results_as_list_in_order':
            I.oblige('ensures.Rep.several_results_as_list_in_order.first_result_not_a_list', z3.Implies(z3.Not(first_is_list), f))
            I.oblige('ensures.Rep.several_results_as_list_in_order.first_result_is_a_list', z3.Implies(first_is_list, f),
                     detail='a first result that is itself a list must be wrapped, not extended')
        else:
            I.oblige('ensures.Rep.' + lbl, f)
    I.oblige('ensures.errors_unchanged', I.fz(self, 'errors') == z3.Select(ctx['pre']['errors'][0], self.t))
    I.oblige('ensures.observers_informed_once', z3.BoolVal(len(I.st.ghost.get('INFORM', [])) == 1))


def any_list_inject_hook():
    pass


def sv_replay(model, ob):
    if 'first_result_is_a_list' not in ob['name']:
        return None
    return '''
import sys
from circuits import Component, Event, handler
class hello(Event): pass
class App(Component):
    @handler('hello', priority=2)
    def a(self): return [1, 2]
    @handler('hello', priority=1)
    def b(self): return 3
app = App()
v = app.fire(hello())
for _ in range(3): app.tick()
print('handlers returned [1, 2] and 3; value =', v.value)
sys.exit(1 if v.value != [[1, 2], 3] else 0)
'''


class ListOfOne(VModel):
    pass


def setattr__value(I, o, v):
    """`self._value = [self._value]`: a python list display stored into the Any-typed attribute"""
    if isinstance(v, VCList):
        s = z3.Concat(*[z3.Unit(core.any_inject(x)) for x in v.items]) if len(v.items) > 1 else z3.Unit(core.any_inject(v.items[0]))
        list_axioms(I, [s])
        I.st.write_field(o.t, '_value', VAny(PYLIST(s)))
        return True
    return False


SPECS.append(FucSpec(
    'C04', FILE, 'Value.setValue', sv_setup, sv_post, fields=V_FIELDS, field_alias=V_ALIAS, classes={'Value'},
    calls={'self._value.append': s_append_to_value, 'o.inform': s_inform}, setattr_hooks={'_value': setattr__value},
    cover=['return'], replay=sv_replay,
    clause='setValue(v): the recorded results become vs ++ [v]: a single result is stored as such, from the second on the value is '
           'the list of all results in order; result flag set; errors untouched; observers informed once'))

"""C10 — pollers: registration tables mirror the kernel registration; emitted events are for registered descriptors only.

Functions under contract: BasePoller.addReader/addWriter/removeReader/removeWriter/discard/isReading/isWriting/getTarget,
Poll._updateRegistration/_process, EPoll._updateRegistration/_process, the add/remove/discard overrides of Poll and EPoll,
Select._generate_events (emission filter).  Kernel objects (select.poll/epoll, fileno) are trusted contracts over the ghost
kernel registration K_in/K_out : fileno -> bool.
"""
import ast
import z3
from pyvc.core import *  # noqa
from pyvc import core, lib, contract
from pyvc.contract import FucSpec, LoopSpec, CustomCheck, add_ob, sym, obj, cover, uf, noop

SPECS = []
FILE = 'circuits/core/pollers.py'

P_FIELDS = {
    '_read': Bag(Ref), '_write': Bag(Ref), '_targets': Dict(Ref, Any), '_map': Dict(Int, Ref), '_poller': Ref, '_ctrl_recv': Ref,
    'channel': Any, 'parent': Ref, 'K_in': Dict(Int, Bool), 'K_out': Dict(Int, Bool),
}


def FILENO(t):
    return core.fn('FILENO', core.RefSort(), z3.IntSort())(t)


def cnt(I, self, fld, fd, heap=None):
    arr = I.field(self, fld).arr if heap is None else z3.Select(heap[fld][0], self.t)
    return z3.Select(arr, fd.t)


def base_objs(I):
    self = obj(I, 'self', 'BasePoller')
    fd = obj(I, 'fd', 'socket')
    x = core.fresh('x', core.RefSort())
    for f in ('_read', '_write'):
        a = I.field(self, f).arr
        I.assume(z3.ForAll([x], z3.And(z3.Select(a, x) >= 0, z3.Select(a, x) <= 1)),
                 'rep invariant: a descriptor is listed at most once per role (callers test isReading/isWriting first)')
    I.assume(z3.And(fd.t != self.t))
    return self, fd


def frame_others(I, self, fd, pre, what=('_read', '_write')):
    o = obj(I, 'other', 'socket')
    I.assume(o.t != fd.t)
    for f in what:
        I.oblige('frame.other_%s' % f, cnt(I, self, f, o) == cnt(I, self, f, o, pre))
    d, d0 = I.field(self, '_targets'), Dict(Ref, Any).wrap([z3.Select(a, self.t) for a in pre['_targets']])
    I.oblige('frame.other_target', z3.And(z3.Select(d.dom, o.t) == z3.Select(d0.dom, o.t),
                                          z3.Implies(z3.Select(d.dom, o.t), z3.Select(d.vals[0], o.t) == z3.Select(d0.vals[0], o.t))))


def no_escape(I, outcome, allowed=()):
    kind, v = outcome
    if kind == 'raise':
        I.oblige('no_escape', z3.BoolVal(v.cls in allowed), detail='escaping %s' % v.cls)
        return True
    return False


def add_setup(role):
    def setup(I):
        self, fd = base_objs(I)
        source = obj(I, 'source', 'Component')
        I.assume(cnt(I, self, role, fd) == 0, 'requires the descriptor is not yet registered in this role (call sites test it)')
        return {'self': self, 'source': source, 'fd': fd}
    return setup


def add_post(role, other):
    def post(I, outcome, ctx):
        if no_escape(I, outcome):
            return
        cover(I, 'return')
        a, pre = ctx['args'], ctx['pre']
        self, fd, source = a['self'], a['fd'], a['source']
        I.oblige('registered_once', cnt(I, self, role, fd) == 1)
        I.oblige('other_role_unchanged', cnt(I, self, other, fd) == cnt(I, self, other, fd, pre))
        d = I.field(self, '_targets')
        I.st.uses_any = True
        I.oblige('target_is_registering_channel', z3.And(z3.Select(d.dom, fd.t), z3.Select(d.vals[0], fd.t) == I.field(source, 'channel').t),
                 detail='events for fd are addressed to the channel of the component that registered it')
        frame_others(I, self, fd, pre)
    return post


for role, other, name in (('_read', '_write', 'addReader'), ('_write', '_read', 'addWriter')):
    SPECS.append(FucSpec('C10', FILE, 'BasePoller.' + name, add_setup(role), add_post(role, other), fields=P_FIELDS, cover=['return'],
                         clause='%s: fd listed once for the role, target = channel of the registering component, nothing else changes' % name))


def rm_setup(I):
    self, fd = base_objs(I)
    return {'self': self, 'fd': fd}


def rm_post(role, other):
    def post(I, outcome, ctx):
        if no_escape(I, outcome):
            return
        cover(I, 'return')
        a, pre = ctx['args'], ctx['pre']
        self, fd = a['self'], a['fd']
        I.oblige('role_removed', cnt(I, self, role, fd) == 0)
        I.oblige('other_role_unchanged', cnt(I, self, other, fd) == cnt(I, self, other, fd, pre))
        d = I.field(self, '_targets')
        d0 = Dict(Ref, Any).wrap([z3.Select(x, self.t) for x in pre['_targets']])
        still = cnt(I, self, other, fd) > 0
        I.oblige('target_kept_iff_still_registered', z3.Select(d.dom, fd.t) == z3.And(still, z3.Select(d0.dom, fd.t)))
        frame_others(I, self, fd, pre)
    return post


for role, other, name in (('_read', '_write', 'removeReader'), ('_write', '_read', 'removeWriter')):
    SPECS.append(FucSpec('C10', FILE, 'BasePoller.' + name, rm_setup, rm_post(role, other), fields=P_FIELDS, cover=['return'],
                         clause='%s: role removed, the other role and other descriptors untouched, target dropped with the last role' % name))


def discard_post(I, outcome, ctx):
    if no_escape(I, outcome):
        return
    cover(I, 'return')
    a, pre = ctx['args'], ctx['pre']
    self, fd = a['self'], a['fd']
    I.oblige('not_reading', cnt(I, self, '_read', fd) == 0)
    I.oblige('not_writing', cnt(I, self, '_write', fd) == 0)
    I.oblige('no_target', z3.Not(z3.Select(I.field(self, '_targets').dom, fd.t)))
    frame_others(I, self, fd, pre)


SPECS.append(FucSpec('C10', FILE, 'BasePoller.discard', rm_setup, discard_post, fields=P_FIELDS, cover=['return'],
                     clause='discard: no role and no target left for fd; others untouched'))


def is_post(role):
    def post(I, outcome, ctx):
        if no_escape(I, outcome):
            return
        cover(I, 'return')
        a = ctx['args']
        kind, v = outcome
        I.oblige('result_iff_registered', v.t == (cnt(I, a['self'], role, a['fd']) > 0))
        for f in ('_read', '_write', '_targets'):
            for o, n in zip(ctx['pre'][f], I.st.heap[f]):
                I.oblige('pure.' + f, o == n)
    return post


SPECS.append(FucSpec('C10', FILE, 'BasePoller.isReading', rm_setup, is_post('_read'), fields=P_FIELDS, cover=['return'],
                     clause='isReading(fd) iff fd is registered for reading; pure'))
SPECS.append(FucSpec('C10', FILE, 'BasePoller.isWriting', rm_setup, is_post('_write'), fields=P_FIELDS, cover=['return'],
                     clause='isWriting(fd) iff fd is registered for writing; pure'))


def gt_post(I, outcome, ctx):
    if no_escape(I, outcome):
        return
    cover(I, 'return')
    a = ctx['args']
    kind, v = outcome
    self, fd = a['self'], a['fd']
    d = I.field(self, '_targets')
    I.st.uses_any = True
    has = z3.Select(d.dom, fd.t)
    I.oblige('target_of_registered_fd', z3.Implies(has, core.any_inject(v) == z3.Select(d.vals[0], fd.t)))


SPECS.append(FucSpec('C10', FILE, 'BasePoller.getTarget', rm_setup, gt_post, fields=P_FIELDS, cover=['return'],
                     clause='getTarget(fd) is the channel recorded at registration'))


# ----------------------------------------------------------------------------- kernel (trusted) and mirror invariant
IN, OUT = 1, 4


def kernel(I, self):
    return I.field(self, '_poller')


def K(I, self, heap=None):
    k = kernel(I, self)
    if heap is None:
        return I.field(k, 'K_in'), I.field(k, 'K_out')
    return (Dict(Int, Bool).wrap([z3.Select(a, k.t) for a in heap['K_in']]), Dict(Int, Bool).wrap([z3.Select(a, k.t) for a in heap['K_out']]))


def s_fileno(I, recv, args, kw):
    I.st.trusted_used.add('fd.fileno(): FILENO(fd), an integer; distinct registered descriptors have distinct numbers')
    return VInt(FILENO(recv.t))


def s_k_unregister(I, recv, args, kw):
    """TRUSTED poll/epoll.unregister(n): KeyError/OSError(ENOENT) if n is not registered, else removes it"""
    I.st.trusted_used.add('select.poll/epoll.register/unregister: update the kernel interest set exactly as documented; '
                          'unregister of an unknown number raises KeyError (poll) / OSError (epoll)')
    (n,) = args
    n = coerce(n, Int)
    kin, kout = I.field(recv, 'K_in'), I.field(recv, 'K_out')
    if not I.branch(z3.Select(kin.dom, n.t), 'k_registered'):
        if I.st.ghost.get('EPOLL'):
            lib.raise_(I, 'OSError', VInt(2))
        lib.raise_(I, 'KeyError', n)
    I.st.write_field(recv.t, 'K_in', VDict(Int, Bool, z3.Store(kin.dom, n.t, False), kin.vals))
    I.st.write_field(recv.t, 'K_out', VDict(Int, Bool, z3.Store(kout.dom, n.t, False), kout.vals))
    return NONE


def s_k_register(I, recv, args, kw):
    fd, mask = args
    n = FILENO(fd.t) if isinstance(fd, VRef) else fd.t
    m = coerce(mask, Int).t
    kin, kout = I.field(recv, 'K_in'), I.field(recv, 'K_out')
    I.oblige('kernel.register.requires.not_registered', z3.Not(z3.Select(kin.dom, n)),
             detail='registering a number twice raises (poll: silently replaces; epoll: EEXIST)')
    I.st.write_field(recv.t, 'K_in', VDict(Int, Bool, z3.Store(kin.dom, n, True), [z3.Store(kin.vals[0], n, m % 2 == 1)]))
    I.st.write_field(recv.t, 'K_out', VDict(Int, Bool, z3.Store(kout.dom, n, True), [z3.Store(kout.vals[0], n, (m / 4) % 2 == 1)]))
    return NONE


def mirror_for(I, self, fd):
    """Mirror(fd): kernel interest for FILENO(fd) is exactly the roles fd is listed for, and _map sends the number back to fd"""
    n = FILENO(fd.t)
    kin, kout = K(I, self)
    r, w = cnt(I, self, '_read', fd) > 0, cnt(I, self, '_write', fd) > 0
    mp = I.field(self, '_map')
    return [
        ('kernel_registered_iff_listed', z3.Select(kin.dom, n) == z3.Or(r, w)),
        ('kernel_in_iff_reading', z3.Implies(z3.Select(kin.dom, n), z3.Select(kin.vals[0], n) == r)),
        ('kernel_out_iff_writing', z3.Implies(z3.Select(kin.dom, n), z3.Select(kout.vals[0], n) == w)),
        ('map_points_back', z3.Implies(z3.Or(r, w), z3.And(z3.Select(mp.dom, n), z3.Select(mp.vals[0], n) == fd.t))),
    ]


def upd_setup(kind):
    def setup(I):
        self, fd = base_objs(I)
        k = kernel(I, self)
        I.assume(z3.And(k.t != core.null(), k.t != self.t, k.t != fd.t))
        if kind == 'EPoll':
            I.st.ghost['EPOLL'] = True
        kin, kout = K(I, self)
        I.assume(kin.dom == kout.dom, 'ghost: K_in and K_out have the same domain')
        # injectivity of fileno on the descriptors this poller knows (trusted; closed sockets report -1 and are outside)
        o = core.fresh('o', core.RefSort())
        I.assume(z3.ForAll([o], z3.Implies(FILENO(o) == FILENO(fd.t), o == fd.t)), 'trusted: FILENO injective on live descriptors')
        # the kernel entry of this number, if any, belongs to fd (mirror invariant for the other descriptors)
        return {'self': self, 'fd': fd}
    return setup


def upd_post(kind):
    def post(I, outcome, ctx):
        if no_escape(I, outcome):
            return
        cover(I, 'return')
        a, pre = ctx['args'], ctx['pre']
        self, fd = a['self'], a['fd']
        for lbl, f in mirror_for(I, self, fd):
            I.oblige('mirror.' + lbl, f)
        # Mirror, other direction (dom _map = dom K): a descriptor that is no longer listed leaves no map entry behind - C12 names the
        # poller's _map among the state that must be gone after a disconnect, and a stale entry is what a re-used number would hit
        n = FILENO(fd.t)
        listed = z3.Or(cnt(I, self, '_read', fd) > 0, cnt(I, self, '_write', fd) > 0)
        I.oblige('map_entry_removed_when_unlisted', z3.Implies(z3.Not(listed), z3.Not(z3.Select(I.field(self, '_map').dom, n))))
        # frame: other numbers keep their kernel registration and map entry
        m = core.fresh('m', z3.IntSort())
        I.assume(m != FILENO(fd.t))
        kin, kout = K(I, self)
        kin0, kout0 = K(I, self, pre)
        I.oblige('frame.kernel_other_numbers', z3.And(z3.Select(kin.dom, m) == z3.Select(kin0.dom, m),
                                                       z3.Select(kin.vals[0], m) == z3.Select(kin0.vals[0], m),
                                                       z3.Select(kout.vals[0], m) == z3.Select(kout0.vals[0], m)))
        I.oblige('roles_unchanged', z3.And(cnt(I, self, '_read', fd) == cnt(I, self, '_read', fd, pre),
                                           cnt(I, self, '_write', fd) == cnt(I, self, '_write', fd, pre)))
    return post


def s_super_discard(I, recv, args, kw):
    """contract of BasePoller.discard (verified above), called as super().discard(fd)"""
    (fd,) = args
    self = I.local('self')
    for f in ('_read', '_write'):
        b = I.field(self, f)
        I.st.write_field(self.t, f, VBag(Ref, z3.Store(b.arr, fd.t, 0)))
    d = I.field(self, '_targets')
    I.st.write_field(self.t, '_targets', VDict(d.kk, d.vk, z3.Store(d.dom, fd.t, False), d.vals))
    I.st.ghost.setdefault('OPS', []).append(('discard', fd))
    return NONE


KCALLS = {'fd.fileno': s_fileno, 'self._poller.unregister': s_k_unregister, 'self._poller.register': s_k_register,
          'super().discard': s_super_discard}
POLL_CONSTS = {'select.POLLIN': VInt(1), 'select.POLLOUT': VInt(4), 'select.POLLHUP': VInt(16), 'select.POLLERR': VInt(8),
               'select.POLLNVAL': VInt(32), 'select.EPOLLIN': VInt(1), 'select.EPOLLOUT': VInt(4), 'select.EPOLLHUP': VInt(16),
               'select.EPOLLERR': VInt(8)}

for kind in ('Poll', 'EPoll'):
    SPECS.append(FucSpec('C10', FILE, kind + '._updateRegistration', upd_setup(kind), upd_post(kind), fields=P_FIELDS, calls=KCALLS,
                         env=POLL_CONSTS, cover=['return'],
                         loops={0: LoopSpec(inv=[('true', lambda I: z3.BoolVal(True))], havoc_fields=['_map'])},
                         clause='%s._updateRegistration(fd) re-establishes Mirror(fd): kernel interest = roles listed, _map[fileno] = fd, '
                                'whatever was registered before; other numbers untouched' % kind))


# wrappers: super().op(...) then self._updateRegistration(fd)
def wrapper_structural(res, opts):
    mod = contract.ModInfo(FILE)
    for kind in ('Poll', 'EPoll'):
        for op in ('addReader', 'addWriter', 'removeReader', 'removeWriter', 'discard'):
            node, _ = mod.find('%s.%s' % (kind, op))
            body = [ast.unparse(s) for s in node.body if not (isinstance(s, ast.Expr) and isinstance(s.value, ast.Constant))]
            args = 'source, fd' if op.startswith('add') else 'fd'
            ok = body == ['super().%s(%s)' % (op, args), 'self._updateRegistration(fd)']
            add_ob(res, '%s.%s.is_base_op_then_updateRegistration' % (kind, op), ok, 'ast', detail='; '.join(body))
    # handler priorities: pollers run after timers, before the fallback generator (used by C09 too)
    node, _ = mod.find('BasePoller._on_generate_events')
    add_ob(res, 'BasePoller._on_generate_events.decorator', "handler('generate_events', priority=-9)" in [ast.unparse(d) for d in node.decorator_list],
           'ast', detail=str([ast.unparse(d) for d in node.decorator_list]))


SPECS.append(CustomCheck('C10', 'poller wrappers(structural)', wrapper_structural, file=FILE,
                         clause='every Poll/EPoll operation is the BasePoller operation followed by _updateRegistration(fd), so the '
                                'Mirror invariant holds after every operation in every order (composition of the two contracts)'))


# ----------------------------------------------------------------------------- _process: emission
def proc_setup(kind):
    def setup(I):
        self = obj(I, 'self', kind)
        k = kernel(I, self)
        I.assume(z3.And(k.t != core.null(), k.t != self.t))
        fileno = sym(I, 'fileno', Int)
        event = sym(I, 'event', Int)
        I.assume(z3.And(event.t >= 0, event.t < 64), 'kernel event masks are small bit sets')
        kin, kout = K(I, self)
        n = fileno.t
        # TRUSTED kernel contract: a report is for a registered number and contains IN/OUT only if that interest is registered
        I.assume(z3.Select(kin.dom, n), 'trusted: the kernel reports registered numbers only')
        I.assume(z3.Implies(event.t % 2 == 1, z3.Select(kin.vals[0], n)), 'trusted: IN reported only when IN interest registered')
        I.assume(z3.Implies((event.t / 4) % 2 == 1, z3.Select(kout.vals[0], n)), 'trusted: OUT reported only when OUT interest registered')
        # Mirror invariant for the descriptor the map holds for this number
        mp = I.field(self, '_map')
        fdt = z3.Select(mp.vals[0], n)
        fd = VRef(fdt, 'socket')
        I.st.inputs['fd'] = fdt
        I.assume(z3.Implies(z3.Select(mp.dom, n), z3.And(fdt != core.null(), FILENO(fdt) == n)))
        for lbl, f in mirror_for(I, self, fd):
            I.assume(z3.Implies(z3.Select(mp.dom, n), f), 'Mirror.' + lbl)
        I.assume(z3.Select(mp.dom, n), 'Mirror: registered numbers are in _map')
        x = core.fresh('x', core.RefSort())
        for f in ('_read', '_write'):
            a = I.field(self, f).arr
            I.assume(z3.ForAll([x], z3.And(z3.Select(a, x) >= 0, z3.Select(a, x) <= 1)))
        I.st.ghost['FD'] = fd
        if kind == 'EPoll':
            I.st.ghost['EPOLL'] = True
        return {'self': self, 'fileno': fileno, 'event': event}
    return setup


def s_fire(I, recv, args, kw):
    I.st.ghost.setdefault('FIRED', []).append((args[0], args[1] if len(args) > 1 else None))
    if I.st.ghost.get('FIRE_MAY_RAISE') and I.st.choice(2, 'fire_raises') == 1:
        lib.raise_(I, 'RuntimeError', VStr('fire failed'))
    return I.st.fresh_ref('Value')


def s_getTarget(I, recv, args, kw):
    (fd,) = args
    return VCons('target_of', [fd])


def proc_post(kind):
    def post(I, outcome, ctx):
        if no_escape(I, outcome):
            return
        cover(I, 'return')
        a, pre = ctx['args'], ctx['pre']
        self = a['self']
        fd = I.st.ghost['FD']
        ev = a['event'].t
        firedl = I.st.ghost.get('FIRED', [])
        is_ctrl = fd.t == z3.Select(pre['_ctrl_recv'][0], self.t)
        r0 = z3.Select(z3.Select(pre['_read'][0], self.t), fd.t) > 0
        w0 = z3.Select(z3.Select(pre['_write'][0], self.t), fd.t) > 0
        for e, tgt in firedl:
            I.oblige('event_is_for_the_mapped_descriptor', e.args[0].t == fd.t)
            I.oblige('event_addressed_to_its_target', z3.BoolVal(isinstance(tgt, VCons) and tgt.tag == 'target_of') if tgt is not None else z3.BoolVal(False))
            if isinstance(tgt, VCons):
                I.oblige('target_is_of_same_descriptor', tgt.args[0].t == fd.t)
            I.oblige('no_event_for_control_pipe', z3.Not(is_ctrl))
            if e.tag == '_read':
                cover(I, 'read_emitted')
                I.oblige('read_event_only_if_registered_for_reading', r0)
                I.oblige('read_event_only_if_reported_readable', ev % 2 == 1)
            if e.tag == '_write':
                cover(I, 'write_emitted')
                I.oblige('write_event_only_if_registered_for_writing', w0)
                I.oblige('write_event_only_if_reported_writable', (ev / 4) % 2 == 1)
        nread = len([1 for e, _ in firedl if e.tag == '_read'])
        nwrite = len([1 for e, _ in firedl if e.tag == '_write'])
        ndisc = len([1 for e, _ in firedl if e.tag == '_disconnect'])
        I.oblige('at_most_one_event_per_kind', z3.BoolVal(nread <= 1 and nwrite <= 1 and ndisc <= 1))
        hup = (ev / 8) % (8 if kind == 'Poll' else 4) != 0
        # readable and registered => reported (no lost readiness), unless it is the control pipe
        I.oblige('readable_registered_is_reported', z3.Implies(z3.And(ev % 2 == 1, z3.Not(is_ctrl)), z3.BoolVal(nread == 1)))
        I.oblige('writable_registered_is_reported', z3.Implies(z3.And((ev / 4) % 2 == 1, z3.Not(is_ctrl), z3.Not(z3.And(hup, ev % 2 == 0))),
                                                              z3.BoolVal(nwrite == 1)))
        # closed / hung-up / failed descriptor without pending input: forgotten at once ("closed descriptors produce no further events
        # even when their number is reused": the entry that would mis-route the reused number's events must go)
        nval = (ev / 32) % 2 == 1
        I.oblige('invalid_or_hung_up_descriptor_is_discarded',
                 z3.Implies(z3.And(z3.Or(hup, nval) if kind == 'Poll' else hup, ev % 2 == 0, z3.Not(is_ctrl)), z3.BoolVal(ndisc == 1)),
                 detail='the kernel reported the descriptor closed (POLLNVAL), hung up or in error, with no input pending, and it was not '
                        'discarded: its table and map entries survive and catch the events of the next descriptor with that number')
        if ndisc:
            cover(I, 'hangup')
            # hang-up/error arm: everything for fd is discarded
            n = a['fileno'].t
            kin, kout = K(I, self)
            I.oblige('hangup.kernel_unregistered', z3.Not(z3.Select(kin.dom, n)))
            I.oblige('hangup.not_listed', z3.And(cnt(I, self, '_read', fd) == 0, cnt(I, self, '_write', fd) == 0))
            I.oblige('hangup.map_entry_removed', z3.Not(z3.Select(I.field(self, '_map').dom, n)))
    return post


for kind, flag in (('Poll', 56), ('EPoll', 24)):
    SPECS.append(FucSpec('C10', FILE, kind + '._process', proc_setup(kind), proc_post(kind), fields=P_FIELDS,
                         calls=dict(KCALLS, **{'self.fire': s_fire, 'self.getTarget': s_getTarget, '_read': lambda I, r, a, k: VCons('_read', a),
                                               '_write': lambda I, r, a, k: VCons('_write', a), '_disconnect': lambda I, r, a, k: VCons('_disconnect', a),
                                               '_error': lambda I, r, a, k: VCons('_error', a), 'self._read_ctrl': noop}),
                         env=POLL_CONSTS,   # self._disconnected_flag: read off __init__ (instance constant)
                         cover=['return', 'read_emitted', 'write_emitted', 'hangup'],
                         clause='%s._process: under Mirror and the kernel contract, a _read/_write event is emitted iff the mapped '
                                'descriptor is registered for that role and reported ready, addressed to its target; the hang-up arm '
                                'discards every entry' % kind))


# ----------------------------------------------------------------------------- Select._generate_events: emission filter
def sel_setup(I):
    self = obj(I, 'self', 'Select')
    event = obj(I, 'event', 'generate_events')
    I.st.ghost['R'] = sym(I, 'r', List(Ref))
    I.st.ghost['W'] = sym(I, 'w', List(Ref))
    return {'self': self, 'event': event}


def s_select(I, recv, args, kw):
    """TRUSTED select.select(rlist, wlist, xlist[, timeout]): returns sublists of the lists passed in (ready ones)"""
    I.st.trusted_used.add('select.select returns subsets of the descriptor lists it was given, or raises ValueError/TypeError/OSError')
    I.st.ghost.setdefault('SELECTS', []).append(list(args))
    c = I.st.choice(2, 'select')
    if c == 1:
        lib.raise_(I, 'OSError', VInt(4))
    I.st.ghost['SELECT_ARGS'] = args
    r, w = I.st.ghost['R'], I.st.ghost['W']
    self = I.local('self')
    i = core.fresh('i', z3.IntSort())
    I.assume(z3.ForAll([i], z3.Implies(z3.And(r.lo <= i, i < r.hi), z3.Select(I.field(self, '_read').arr, z3.Select(r.arrs[0], i)) > 0)))
    I.assume(z3.ForAll([i], z3.Implies(z3.And(w.lo <= i, i < w.hi), z3.Select(I.field(self, '_write').arr, z3.Select(w.arrs[0], i)) > 0)))
    return VTuple([r, w, VCList([])])


def sel_fire(I, recv, args, kw):
    I.st.ghost.setdefault('FIRED', []).append((args[0], args[1]))
    self = I.local('self')
    e, tgt = args
    fd = e.args[0]
    if e.tag == '_write':
        I.oblige('write_event_only_if_registered_for_writing', cnt(I, self, '_write', fd) > 0)
    if e.tag == '_read':
        I.oblige('read_event_only_if_registered_for_reading', cnt(I, self, '_read', fd) > 0)
        I.oblige('no_event_for_control_pipe', fd.t != I.field(self, '_ctrl_recv').t)
    I.oblige('event_addressed_to_its_target', z3.BoolVal(isinstance(tgt, VCons) and tgt.tag == 'target_of' and tgt.args[0] is fd))
    cover(I, 'emitted' + e.tag)
    return I.st.fresh_ref('Value')


def sel_post(I, outcome, ctx):
    kind, v = outcome
    if kind == 'raise':
        I.oblige('raises_only_OSError', z3.BoolVal(v.cls == 'OSError'), detail='escaping %s' % v.cls)
        return
    cover(I, 'return')
    # C09 / C03: the kernel wait is the event's time_left (untimed only when nothing is pending: time_left < 0)
    tl = I.fz(ctx['args']['event'], '_time_left')
    sels = I.st.ghost.get('SELECTS', [])
    I.oblige('at_most_one_kernel_wait_per_visit', z3.BoolVal(len(sels) <= 1), detail='%d select() calls' % len(sels))
    for a in sels:
        if len(a) < 4:
            cover(I, 'untimed')
            I.oblige('wait_bounded_by_time_left', tl < 0, detail='an untimed select() although time_left >= 0')
        else:
            cover(I, 'timed')
            t = coerce(a[3], Real).t
            I.oblige('wait_bounded_by_time_left', z3.And(tl >= 0, t <= tl), detail='the select() timeout must not exceed event.time_left')
            I.oblige('wait_is_not_negative', t >= 0)


for _prop in ('C10', 'C09', 'C03'):
  SPECS.append(FucSpec(
    _prop, FILE, 'Select._generate_events', sel_setup, sel_post, fields=dict(P_FIELDS, _time_left=Real),
    calls={'select.select': s_select, 'self.fire': sel_fire, 'self.getTarget': s_getTarget, 'self.isWriting':
           lambda I, r, a, k: VBool(cnt(I, I.local('self'), '_write', a[0]) > 0), 'self.isReading':
           lambda I, r, a, k: VBool(cnt(I, I.local('self'), '_read', a[0]) > 0), 'self._read_ctrl': noop,
           'self._preenDescriptors': noop, '_read': lambda I, r, a, k: VCons('_read', a), '_write': lambda I, r, a, k: VCons('_write', a)},
    getattr_hooks={'time_left': lambda I, o: VReal(I.fz(o, '_time_left'))},
    loops={0: LoopSpec(inv=[('true', lambda I: z3.BoolVal(True))]), 1: LoopSpec(inv=[('true', lambda I: z3.BoolVal(True))])},
    cover=['return', 'emitted_read', 'emitted_write', 'timed', 'untimed'],
    clause='Select._generate_events: every emitted _read/_write is for a descriptor select reported and that is (still) registered '
           'for that role, addressed to its target; the control pipe never produces an event; the select() wait is bounded by '
           'event.time_left (untimed only when time_left < 0)',
  ))


# ----------------------------------------------------------------------------- Select._preenDescriptors: closed descriptors go
# "Discarded or closed descriptors produce no further events": Select has no kernel registration to forget a closed descriptor;
# select.select() refuses the whole call (ValueError for an object whose fileno() is -1, TypeError for something that is no
# descriptor, OSError EBADF for a stale number) and _generate_events hands over to _preenDescriptors, which must discard
# exactly the descriptors select rejects - whatever the rejection looks like - and must not let the rejection escape (an
# escaping exception leaves the dead descriptor listed, and then NO descriptor is ever reported again).
def BADFD(t):
    return core.fn('select_rejects', core.RefSort(), z3.BoolSort())(t)


def preen_setup(I):
    self = obj(I, 'self', 'Select')
    x = core.fresh('x', core.RefSort())
    for f in ('_read', '_write'):
        a = I.field(self, f).arr
        I.assume(z3.ForAll([x], z3.And(z3.Select(a, x) >= 0, z3.Select(a, x) <= 1)),
                 'rep invariant: a descriptor is listed at most once per role')
    I.st.ghost['PHASE'] = 0
    I.st.ghost['PRE'] = I.st.snapshot()
    return {'self': self}


def s_select_probe(I, recv, args, kw):
    """TRUSTED select.select([d], [d], [d], 0): raises ValueError / TypeError / OSError(EBADF) iff d is a descriptor select rejects
    (uninterpreted predicate select_rejects), returns otherwise"""
    I.st.trusted_used.add('select.select([d],[d],[d],0) raises ValueError, TypeError or OSError(EBADF) exactly for a descriptor it '
                          'rejects (closed object: fileno() == -1, not a descriptor, stale number)')
    d = args[0].items[0]
    log = I.st.ghost.setdefault('PROBED', [])
    log.append(d)
    if I.branch(BADFD(d.t), 'rejected'):
        cover(I, 'rejected')
        c = I.st.choice(3, 'rejection')
        if c == 0:
            lib.raise_(I, 'ValueError', VStr('file descriptor cannot be a negative integer (-1)'))
        if c == 1:
            lib.raise_(I, 'TypeError', VStr('argument must be an int, or have a fileno() method'))
        lib.raise_(I, 'OSError', VInt(9))
    return VTuple([VCList([]), VCList([]), VCList([])])


def s_preen_discard(I, recv, args, kw):
    """contract of BasePoller.discard (verified above)"""
    (fd,) = args
    self = I.local('self')
    for f in ('_read', '_write'):
        b = I.field(self, f)
        I.st.write_field(self.t, f, VBag(Ref, z3.Store(b.arr, fd.t, 0)))
    d = I.field(self, '_targets')
    I.st.write_field(self.t, '_targets', VDict(d.kk, d.vk, z3.Store(d.dom, fd.t, False), d.vals))
    return NONE


def _preen_facts(I, pre, x, visited=None):
    """per descriptor x: untouched unless rejected; a rejected one is either as before or fully discarded"""
    self = I.local('self')
    r, w = I.field(self, '_read').arr, I.field(self, '_write').arr
    t = I.field(self, '_targets')
    r0, w0 = z3.Select(pre['_read'][0], self.t), z3.Select(pre['_write'][0], self.t)
    t0 = Dict(Ref, Any).wrap([z3.Select(a, self.t) for a in pre['_targets']])
    same = z3.And(z3.Select(r, x) == z3.Select(r0, x), z3.Select(w, x) == z3.Select(w0, x), z3.Select(t.dom, x) == z3.Select(t0.dom, x),
                  z3.Implies(z3.Select(t.dom, x), z3.Select(t.vals[0], x) == z3.Select(t0.vals[0], x)))
    gone = z3.And(z3.Select(r, x) == 0, z3.Select(w, x) == 0, z3.Not(z3.Select(t.dom, x)))
    return same, gone, r0, w0


def preen_inv(I):
    pre = I.st.ghost['PRE']
    x = core.fresh('x', core.RefSort())
    same, gone, r0, w0 = _preen_facts(I, pre, x)
    vis = I.frame.env.get('__visited1')
    fs = [z3.Implies(z3.Not(BADFD(x)), same), z3.Implies(BADFD(x), z3.Or(same, gone))]
    if vis is not None and vis.arr is not None:
        fs.append(z3.Implies(z3.And(z3.Select(vis.arr, x), BADFD(x)), gone))
    if I.st.ghost.get('PHASE', 0) >= 2:
        fs.append(z3.Implies(z3.And(z3.Select(r0, x) > 0, BADFD(x)), gone))
    return z3.ForAll([x], z3.And(*fs))


def preen_entry(I):
    I.st.ghost['PHASE'] = I.st.ghost.get('PHASE', 0) + 1


def preen_post(I, outcome, ctx):
    kind, v = outcome
    if kind == 'raise':
        I.oblige('the_rejection_never_escapes', z3.BoolVal(False),
                 detail='%s from the probe of one descriptor left _preenDescriptors: the rejected descriptor stays listed and every '
                        'later select() call fails the same way' % v.cls)
        return
    cover(I, 'return')
    pre = ctx['pre']
    x = core.fresh('x', core.RefSort())
    same, gone, r0, w0 = _preen_facts(I, pre, x)
    I.oblige('every_rejected_descriptor_is_discarded',
             z3.ForAll([x], z3.Implies(z3.And(BADFD(x), z3.Or(z3.Select(r0, x) > 0, z3.Select(w0, x) > 0)), gone)),
             detail='closed descriptors produce no further events: after the sweep no descriptor select rejects is listed for any role')
    I.oblige('accepted_descriptors_keep_their_registration', z3.ForAll([x], z3.Implies(z3.Not(BADFD(x)), same)))


SPECS.append(FucSpec(
    'C10', FILE, 'Select._preenDescriptors', preen_setup, preen_post, fields=P_FIELDS,
    calls={'select.select': s_select_probe, 'self.discard': s_preen_discard},
    loops={1: LoopSpec(inv=[('rejected_visited_descriptors_are_gone_others_untouched', preen_inv)], havoc_fields=['_read', '_write', '_targets'],
                       entry_hook=preen_entry)},
    exc_parents={'ValueError': 'Exception', 'TypeError': 'Exception', 'OSError': 'Exception'},
    cover=['return', 'rejected'],
    clause='Select._preenDescriptors: every listed descriptor select rejects (ValueError, TypeError or OSError) is discarded, the '
           'others keep their registration, and no rejection escapes (closed descriptors produce no further events and do not '
           'blind the poller)'))


# ----------------------------------------------------------------------------- Poll/EPoll._generate_events: the kernel wait and the hand-over
# C09 "the idle loop never sleeps past the earliest expiry" and C03 "never stays blocked ... without needing any timeout to expire"
# both rest on how long the poller lets the kernel block: the wait handed to poll()/epoll.poll() must be the event's time_left
# (an untimed wait only when time_left < 0 = "nothing pending").  C10's "iff registered and ready" additionally needs every pair the
# kernel reports to reach _process exactly once, and an interrupted wait (EINTR) to be a no-op instead of an error.
GE_FIELDS = dict(P_FIELDS, _time_left=Real)
PAIR = Tup(Int, Int)


def ge_setup(kind):
    def setup(I):
        self = obj(I, 'self', kind)
        event = obj(I, 'event', 'generate_events')
        k = kernel(I, self)
        I.assume(z3.And(k.t != core.null(), k.t != self.t, event.t != self.t, event.t != k.t))
        I.st.ghost['LL'] = sym(I, 'reported', List(PAIR))
        I.assume(I.st.ghost['LL'].lo <= I.st.ghost['LL'].hi)
        I.st.ghost['TL'] = I.fz(event, '_time_left')
        I.st.ghost['POLLS'] = []
        I.st.ghost['PROC'] = []
        I.st.inputs['event.time_left'] = I.st.ghost['TL']
        return {'self': self, 'event': event}
    return setup


def s_kernel_poll(I, recv, args, kw):
    """TRUSTED select.poll.poll([ms]) / select.epoll.poll([s]): blocks at most the given time (for ever without one), returns a list of
    (number, event mask) pairs, or raises OSError (EINTR when a signal arrives)"""
    I.st.trusted_used.add('poll.poll(ms) / epoll.poll(s) block at most the time given (without an argument: until something is ready), '
                          'return (number, mask) pairs or raise OSError (EINTR on a signal)')
    I.st.ghost['POLLS'].append(list(args))
    c = I.st.choice(3, 'kernel_poll')
    if c == 1:
        import errno as E
        cover(I, 'eintr')
        I.st.ghost['ERRNO'] = E.EINTR
        lib.raise_(I, 'OSError', VInt(E.EINTR))
    if c == 2:
        cover(I, 'oserror')
        I.st.ghost['ERRNO'] = 9
        lib.raise_(I, 'OSError', VInt(9))
    return I.st.ghost['LL']


def s_ge_process(I, recv, args, kw):
    I.st.ghost['PROC'].append(list(args))
    return NONE


def ge_entry(I):
    """the loop runs over the list the kernel returned - all of it (a slice, a filter or a copy that drops pairs loses readiness)"""
    it, ll = I.frame.env['__iter0'], I.st.ghost['LL']
    same = isinstance(it, VList) and len(it.arrs) == len(ll.arrs)
    I.oblige('every_reported_pair_is_visited', z3.And(it.lo == ll.lo, it.hi == ll.hi, *[a == b for a, b in zip(it.arrs, ll.arrs)])
             if same else z3.BoolVal(False), detail='the hand-over loop must iterate over exactly the pairs poll() returned')


def ge_body(I):
    I.st.ghost['PROC'] = []


def ge_iter(I):
    """end of the arbitrary iteration k: the k-th reported pair went to _process, once, unchanged"""
    proc = I.st.ghost['PROC']
    ll = I.st.ghost['LL']
    k = I.frame.env['__idx0'].t - 1
    I.oblige('each_reported_pair_is_processed_exactly_once', z3.BoolVal(len(proc) == 1), detail='%d _process calls in one iteration' % len(proc))
    if len(proc) == 1 and len(proc[0]) == 2:
        cover(I, 'processed')
        pair = ll.at(k)
        I.oblige('the_pair_processed_is_the_pair_reported',
                 z3.And(coerce(proc[0][0], Int).t == pair.items[0].t, coerce(proc[0][1], Int).t == pair.items[1].t))


def ge_post(kind, scale):
    def post(I, outcome, ctx):
        kind_, v = outcome
        g = I.st.ghost
        tl = g['TL']
        polls = g['POLLS']
        if kind_ == 'raise':
            cover(I, 'raise')
            I.oblige('an_interrupted_wait_is_not_an_error', z3.BoolVal(g.get('ERRNO') != 4),
                     detail='EINTR from the kernel wait escaped as %s' % v.cls)
            # which exception a failed wait surfaces as is not the property's business (EPoll turns a kernel error other than EINTR into
            # an UnboundLocalError - noted in DESIGN 10.9, outside the statements); that nothing escapes a wait that did NOT fail is
            I.oblige('nothing_escapes_a_wait_that_succeeded', z3.BoolVal(g.get('ERRNO') is not None), detail='escaping %s' % v.cls)
            I.oblige('a_failed_wait_reports_nothing', z3.BoolVal(len(g['PROC']) == 0))
            return
        cover(I, 'return')
        I.oblige('one_kernel_wait_per_visit', z3.BoolVal(len(polls) == 1), detail='%d poll() calls' % len(polls))
        for a in polls:
            if len(a) == 0:
                cover(I, 'untimed')
                I.oblige('wait_bounded_by_time_left', tl < 0,
                         detail='an untimed kernel wait although time_left >= 0: the loop sleeps past the earliest timer expiry / past the '
                                'moment a foreign fire() asked for')
            else:
                cover(I, 'timed')
                t = coerce(a[0], Real).t
                I.oblige('wait_bounded_by_time_left', z3.And(tl >= 0, t <= scale * tl),
                         detail='the kernel wait must not exceed event.time_left (%s)' % ('milliseconds' if scale != 1 else 'seconds'))
                I.oblige('wait_is_not_negative', t >= 0, detail='a negative timeout means "block for ever" to poll()')
        if g.get('ERRNO') is not None:
            I.oblige('a_failed_wait_reports_nothing', z3.BoolVal(len(g['PROC']) == 0))
            I.oblige('only_an_interrupted_wait_is_swallowed', z3.BoolVal(g.get('ERRNO') == 4),
                     detail='a kernel error other than EINTR was swallowed')
    return post


def ge_replay(kind, scale):
    def replay(model, ob):
        tl = model.get('event.time_left')
        try:
            tl = float(tl)
        except Exception:
            tl = None
        return '''
import sys, threading
from circuits.core import pollers
from circuits.core.events import generate_events
kind, scale, grid = %r, %r, [%r, -1, 0, 0.0005, 0.25, 3.0]
reported = [(1001, 1), (1002, 4), (1003, 1), (1004, 5)]
bad = []
for tl in grid:
    if tl is None:
        continue
    class Kernel:
        def __init__(self): self.calls = []
        def poll(self, *a): self.calls.append(a); return list(reported)
        def register(self, *a): pass
        def unregister(self, *a): pass
    p = getattr(pollers, kind)()
    k = Kernel(); p._poller = k
    seen = []
    p._process = lambda f, e: seen.append((f, e))
    ev = generate_events(threading.RLock(), -1)
    if tl >= 0:
        ev.reduce_time_left(tl)
    try:
        p._generate_events(ev)
    except Exception as e:
        bad.append('time_left %%r: %%r escaped' %% (tl, e)); continue
    if len(k.calls) != 1:
        bad.append('time_left %%r: %%d kernel waits' %% (tl, len(k.calls))); continue
    a = k.calls[0]
    if not a and tl >= 0:
        bad.append('time_left %%r: untimed kernel wait' %% tl)
    if a and (tl < 0 or a[0] < 0 or a[0] > scale * tl):
        bad.append('time_left %%r: kernel wait %%r exceeds it' %% (tl, a[0]))
    if seen != reported:
        bad.append('time_left %%r: kernel reported %%r but _process saw %%r' %% (tl, reported, seen))
for b in bad: print(b)
sys.exit(1 if bad else 0)
''' % (kind, scale, tl)
    return replay


for kind, scale in (('Poll', 1000), ('EPoll', 1)):
    for prop in ('C10', 'C09', 'C03'):
        SPECS.append(FucSpec(
            prop, FILE, kind + '._generate_events', ge_setup(kind), ge_post(kind, scale), fields=GE_FIELDS,
            calls={'self._poller.poll': s_kernel_poll, 'self._process': s_ge_process},
            getattr_hooks={'time_left': lambda I, o: VReal(I.fz(o, '_time_left'))},
            loops={0: LoopSpec(inv=[('true', lambda I: z3.BoolVal(True))], entry_hook=ge_entry, body_hook=ge_body, iter_hook=ge_iter)},
            exc_parents={'OSError': 'Exception', 'UnboundLocalError': 'Exception'}, replay=ge_replay(kind, scale),
            cover=['return', 'raise', 'eintr', 'oserror', 'timed', 'untimed', 'processed'],
            clause='%s._generate_events: one kernel wait per visit, bounded by event.time_left (untimed only when time_left < 0); every '
                   '(number, mask) pair the kernel reports is handed to _process exactly once; EINTR is a no-op, any other kernel error '
                   'escapes' % kind))

"""C15 - circuits/web/headers.py Headers.__str__ / __bytes__: the header block of every response (listed as "header formatting strings:
not decided" until round 5).  For every header table: the block is, for each (name, value) pair items() yields, in that order, the line
`name: value CRLF`, followed by exactly one empty line - so the block always ends with CRLF CRLF (the delimiter between head and body the
framing proofs of Response.prepare / HTTP._on_response rely on), for any number of headers, and nothing else is added.  items() (a
generator over the underlying dict) is a summary: some finite sequence of (str, str) pairs."""
import z3
from pyvc.core import *  # noqa
from pyvc import core, lib
from pyvc.contract import FucSpec, LoopSpec, sym, obj, cover

SPECS = []
FILE = 'circuits/web/headers.py'
S = z3.StringSort
CRLF = z3.StringVal('\r\n')


def hs_setup(I):
    self = obj(I, 'self', 'Headers')
    items = sym(I, 'items', List(Tup(Str, Str)))
    I.assume(items.lo <= items.hi)
    I.st.ghost['ITEMS'] = items
    return {'self': self}


def hs_post(I, outcome, ctx):
    kind, v = outcome
    if kind == 'raise':
        I.oblige('no_escape', z3.BoolVal(False), detail='escaping %s' % v.cls)
        return
    cover(I, 'return')
    if not isinstance(v, VStr):
        I.oblige('returns_text', z3.BoolVal(False))
        return
    items = I.st.ghost['ITEMS']
    r = v.t
    I.oblige('block_ends_with_the_empty_line', z3.SuffixOf(CRLF, r))
    lines = I.st.ghost.get('LINES')
    ok = isinstance(lines, VList)
    I.oblige('block_is_the_header_lines_then_one_empty_line', r == z3.Concat(lib.flat(lines), CRLF) if ok else z3.BoolVal(False),
             detail='str(headers) = line_1 ... line_n CRLF, nothing before, between or after')
    if ok:
        I.oblige('one_line_per_header_in_order', z3.And(lines.lo == items.lo, lines.hi == items.hi))
        k = core.fresh('k', z3.IntSort())
        I.assume(z3.And(items.lo <= k, k < items.hi))
        name, value = items.at(k).items
        I.oblige('each_line_is_name_colon_space_value_crlf',
                 z3.Select(lines.arrs[0], k) == z3.Concat(name.t, z3.StringVal(': '), value.t, CRLF))
        # consequence (stated, proved from the two facts above for the empty and the non-empty table alike)
        I.oblige('no_headers_gives_just_the_empty_line', z3.Implies(items.lo == items.hi, r == CRLF))


def s_join(I, recv, args, kw):
    (lst,) = args
    lst = lib.unopt(I, lst)
    I.st.ghost['LINES'] = lst
    if isinstance(lst, VList):
        I.assume(z3.Implies(lst.hi <= lst.lo, lib.flat(lst) == z3.StringVal('')))
        return VStr(lib.flat(lst))
    raise Unsupported('join of %r' % (lst,))


SPECS.append(FucSpec(
    'C15', FILE, 'Headers.__str__', hs_setup, hs_post, fields={},
    calls={'self.items': lambda I, r, a, k: I.st.ghost['ITEMS'], "''.join": s_join},
    cover=['return'],
    clause='str(headers), for every header table: one line `name: value CRLF` per pair items() yields, in order, then exactly one empty '
           'line (the head/body delimiter) - nothing else'))


def hb_setup(I):
    self = obj(I, 'self', 'Headers')
    return {'self': self}


def hb_post(I, outcome, ctx):
    kind, v = outcome
    if kind == 'raise':
        I.oblige('raises_only_an_encoding_error', z3.BoolVal(v.cls in ('UnicodeEncodeError',)), detail='escaping %s' % v.cls)
        return
    cover(I, 'return')
    I.oblige('bytes_is_the_latin1_encoding_of_str', v.t == core.fn('py_encode', S(), S())(I.st.ghost['STR']) if isinstance(v, VStr) and 'STR' in I.st.ghost
             else z3.BoolVal(False))


def s_str_self(I, recv, args, kw):
    r = core.fresh('str_headers', S())
    I.assume(z3.SuffixOf(CRLF, r), 'Headers.__str__.ensures.block_ends_with_the_empty_line')
    I.st.ghost['STR'] = r
    return VStr(r)


SPECS.append(FucSpec(
    'C15', FILE, 'Headers.__bytes__', hb_setup, hb_post, fields={}, calls={'str': s_str_self},
    exc_parents={'UnicodeEncodeError': 'ValueError'}, cover=['return'],
    trusted=['str.encode("latin1") maps text to bytes character by character (CR, LF, ":" and " " to themselves)'],
    clause='bytes(headers) is the latin-1 encoding of str(headers)'))

"""Manager._dispatcher / _eventDone / _fire / fireEvent under contract — shared by C01, C02, C03, C04, C05, C08.

The handler call `event_handler(...)` is an unknown callback.  Its outcomes are: any return value, KeyboardInterrupt,
SystemExit(code), any other exception.  Its rely (what it may change) is the guarantee of the public API it can call:
it may stop the event, fire events (ghost FIRED is not constrained, `effects` of the current event may grow), register
tasks and handlers.  Ghost logs (python lists, concrete per path): FIRED, INVOKED, SETVALUE, TASKS, STOPS, DONE.
"""
import z3
from pyvc.core import *  # noqa
from pyvc import core, lib
from pyvc.contract import FucSpec, LoopSpec, sym, obj, cover, uf, noop

SPECS = []
FILE = 'circuits/core/manager.py'
HANDLER = RefOf('Handler')
ERR = Opt(Tup(Any, Any, Any))

M_FIELDS = {
    # Manager
    '_cache_needs_refresh': Bool, '_queue': Ref, '_tasks': Set(Int), '_running': Bool, '_lock': Ref, '_currently_handling': Ref,
    'root': Ref, 'parent': Ref, '_executing_thread': Ref, '_flushing_thread': Ref,
    # Event
    'cancelled': Bool, 'complete': Bool, 'cause': Dyn(Ref), 'effects': Dyn(Int), 'name': Str, 'handler': Ref, 'value': RefOf('Value'),
    'stopped': Bool, 'failure': Bool, 'success': Bool, 'alert_done': Bool, 'waitingHandlers': Int, '_time_left': Real,
    'success_channels': Dyn(Any), 'complete_channels': Dyn(Any), 'e_channels': Any, 'e_parent': Ref,
    # Value
    'errors': Bool, 'promise': Bool, 'v_value': Any, 'result': Bool,
    # Handler
    'h_event': Bool, 'priority': Real,
    # ghost
    'G_finished': Bool,
}
EVENT_CLASSES = {'generate_events', 'exception', 'signal', 'started', 'stopped', 'registered', 'unregistered'}
ALIAS = {('Handler', 'event'): 'h_event', ('Value', 'value'): 'v_value', ('Event', 'channels'): 'e_channels',
         ('Event', 'parent'): 'e_parent'}


def log(I, name):
    return I.st.ghost.setdefault(name, [])


def no_escape(I, outcome, allowed=()):
    kind, v = outcome
    if kind == 'raise':
        cover(I, 'raise')
        I.oblige('no_escape', z3.BoolVal(v.cls in allowed), detail='escaping %s' % v.cls)
        return True
    return False


# ----------------------------------------------------------------------------- summaries
class CacheModel(VModel):
    """self._cache: dict (name, channels) -> handler list; contents are a spec function CACHED(self, name, channels)"""

    def getitem(self, I, idx):
        if I.st.ghost.get('CACHE_CLEARED') or I.st.choice(2, 'cache') == 1:
            cover(I, 'cache_miss')
            I.st.ghost['CACHE'] = 'miss'
            lib.raise_(I, 'KeyError', idx)
        cover(I, 'cache_hit')
        I.st.ghost['CACHE'] = 'hit'
        L = List(HANDLER).fresh('cached_handlers')
        I.assume(L.lo <= L.hi)
        i = core.fresh('i', z3.IntSort())
        I.assume(z3.ForAll([i], z3.Implies(z3.And(L.lo <= i, i < L.hi), z3.Select(L.arrs[0], i) != core.null())),
                 'rep invariant of the cache: lists of handler objects')
        I.st.ghost['CACHED_LIST'] = L
        hook = I.st.ghost.get('ON_CACHE_HIT')
        if hook:
            hook(I, L)
        return L

    def setitem(self, I, idx, val):
        log(I, 'CACHE_STORE').append((idx, val))


def s_cache_clear(I, recv, args, kw):
    I.st.ghost['CACHE_CLEARED'] = True
    return NONE


def s_getHandlers(I, recv, args, kw):
    ev, ch = args[0], args[1]
    hs = Set(Ref).fresh('handlers_of')
    x = core.fresh('x', core.RefSort())
    I.assume(z3.ForAll([x], z3.Implies(z3.Select(hs.arr, x), z3.Select(I.st.alloc, x))), 'the handlers returned are existing objects')
    log(I, 'GETHANDLERS').append((recv, ev, ch, hs))
    return hs


def s_chain(I, recv, args, kw):
    return VCons('chain', args)


def s_sorted(I, recv, args, kw):
    """TRUSTED sorted(iterable, key=attrgetter('priority'), reverse=True): a list with the same elements ordered by
    descending priority"""
    I.st.trusted_used.add("sorted(chain(*sets), key=attrgetter('priority'), reverse=True): same elements, descending priority")
    src = args[0]
    L = List(HANDLER).fresh('sorted_handlers')
    I.assume(L.lo <= L.hi)
    i, j = core.fresh('i', z3.IntSort()), core.fresh('j', z3.IntSort())
    pr = lambda x: z3.Select(I.st.heap['priority'][0], x)  # noqa: E731
    a = L.arrs[0]
    I.assume(z3.ForAll([i, j], z3.Implies(z3.And(L.lo <= i, i < j, j < L.hi), pr(z3.Select(a, i)) >= pr(z3.Select(a, j)))))
    I.assume(z3.ForAll([i], z3.Implies(z3.And(L.lo <= i, i < L.hi), z3.Select(a, i) != core.null())))
    if isinstance(src, VCons) and src.tag == 'chain':
        sets = [s for s in src.args if isinstance(s, VSet)]
        x = core.fresh('x', core.RefSort())
        member = z3.Exists([i], z3.And(L.lo <= i, i < L.hi, z3.Select(a, i) == x))
        I.assume(z3.ForAll([x], member == z3.Or([z3.Select(s.arr, x) for s in sets] + [z3.BoolVal(False)])))
        if len(sets) == 1:
            I.assume(z3.ForAll([i, j], z3.Implies(z3.And(L.lo <= i, i < j, j < L.hi), z3.Select(a, i) != z3.Select(a, j))))
        I.st.ghost['SORTED_FROM'] = sets
    I.st.ghost['SORTED_LIST'] = L
    return L


def s_list_sort(I, recv, args, kw):
    """TRUSTED list.sort(key=attrgetter('priority'), reverse=True): same elements (a permutation), descending priority"""
    I.st.trusted_used.add("list.sort(key=attrgetter('priority'), reverse=True): permutation in descending priority (stable)")
    old = recv
    L = List(HANDLER).fresh('resorted_handlers')
    I.assume(z3.And(L.lo == old.lo, L.hi == old.hi))
    i, j = core.fresh('i', z3.IntSort()), core.fresh('j', z3.IntSort())
    pr = lambda x: z3.Select(I.st.heap['priority'][0], x)  # noqa: E731
    a = L.arrs[0]
    I.assume(z3.ForAll([i, j], z3.Implies(z3.And(L.lo <= i, i < j, j < L.hi), pr(z3.Select(a, i)) >= pr(z3.Select(a, j)))))
    x = core.fresh('x', core.RefSort())
    I.assume(z3.ForAll([x], z3.Exists([i], z3.And(L.lo <= i, i < L.hi, z3.Select(a, i) == x)) ==
                       z3.Exists([j], z3.And(old.lo <= j, j < old.hi, z3.Select(old.arrs[0], j) == x))))
    I.assume(z3.ForAll([i], z3.Implies(z3.And(L.lo <= i, i < L.hi), z3.Select(a, i) != core.null())))
    # a permutation of a list without repetitions has no repetitions
    oa = old.arrs[0]
    I.assume(z3.Implies(z3.ForAll([i, j], z3.Implies(z3.And(old.lo <= i, i < j, j < old.hi), z3.Select(oa, i) != z3.Select(oa, j))),
                        z3.ForAll([i, j], z3.Implies(z3.And(L.lo <= i, i < j, j < L.hi), z3.Select(a, i) != z3.Select(a, j)))))
    from pyvc.interp import Frame as _Frame
    I.frame.env[_Frame.alias.get('event_handlers', 'event_handlers')] = L     # the sorted list replaces the local (whatever its current name)
    return NONE


def fallback_ctor(name, attr):
    def f(I, recv, args, kw):
        h = I.st.fresh_ref('Handler')
        I.st.ghost['FALLBACK'] = (name, h)
        return VCons(name, [], attrs={attr: h})
    return f


def s_len(I, recv, args, kw):
    if not isinstance(args[0], VRef):
        from pyvc.interp import BUILTINS
        return BUILTINS['len'](I, args, kw)
    n = z3.Int('QUEUE_LENGTH')
    I.assume(n >= 0)
    I.st.ghost['QLEN'] = n
    return VInt(n)


def s_reduce_time_left(I, recv, args, kw):
    log(I, 'REDUCE').append((recv, args[0]))
    return NONE


def s_exc_info(I, recv, args, kw):
    I.st.uses_any = True
    t = VTuple([VAny(core.fresh('exc_type', core.AnySort())), VAny(core.fresh('exc_value', core.AnySort())),
                VAny(core.fresh('exc_tb', core.AnySort()))])
    for x in t.items:
        I.assume(z3.Not(core.any_is_none(x.t)))
    I.st.ghost['EXC_INFO'] = t
    return t


def s_child(I, recv, args, kw):
    return VCons('child', [recv] + list(args))


def s_exception(I, recv, args, kw):
    return VCons('exception', args, kw)


def s_fire(I, recv, args, kw):
    log(I, 'FIRED').append(args[0])
    return I.st.fresh_ref('Value')


def s_registerTask(I, recv, args, kw):
    log(I, 'TASKS').append(args[0])
    return NONE


def s_stop(I, recv, args, kw):
    """contract of Manager.stop(code=None), as proved on its body under C08: on a manager that is not running it has NO effect (it
    returns normally, whatever the code); otherwise the flag is cleared, `stopped` is fired and SystemExit(code) is raised iff a code
    was given"""
    self = I.local('self')
    if '_running' in I.st.fields:
        log(I, 'STOPS').append(tuple(args))
        if not I.branch(I.fz(self, '_running'), 'stop_finds_manager_running'):
            log(I, 'STOP_NOOP').append(tuple(args))
            return NONE
        if '_running' not in (I.st.frame_guard or ()):
            I.st.write_field(self.t, '_running', VBool(z3.BoolVal(False)))
    else:
        log(I, 'STOPS').append(tuple(args))
    if args:
        code = lib.unopt(I, args[0])
        if not isinstance(code, VNone):
            isnone = core.any_is_none(code.t) if isinstance(code, VAny) else z3.BoolVal(False)
            if not I.branch(isnone, 'stop_code_none'):
                lib.raise_(I, 'SystemExit', code)
    return NONE


def s_eventDone(I, recv, args, kw):
    log(I, 'DONE').append(tuple(args))
    return NONE


def s_setvalue_hook(I, o, v):
    """Value.value = v  (property setter = Value.setValue, see contracts on values.py)"""
    log(I, 'SETVALUE').append((o, v))
    return True


def s_handler_call(I, recv, args, kw):
    """unknown event handler (callback).  rely: may stop the event, fire events, change `effects` of the current event;
    does not touch waitingHandlers / value flags of the event being dispatched."""
    h = I.local('event_handler')
    log(I, 'INVOKED').append((h, args))
    ev = I.local('event')
    I.st.havoc_field('stopped')
    rely = I.st.ghost.get('HANDLER_RELY')
    if rely:
        rely(I, ev)
    c = I.st.choice(5, 'handler')
    I.st.ghost['HANDLER_OUTCOME'] = min(c, 3)
    if c == 0:
        I.st.uses_any = True
        v = VAny(core.fresh('handler_result', core.AnySort()))
        I.st.ghost['HANDLER_RESULT'] = v
        return v
    if c == 1:
        lib.raise_(I, 'KeyboardInterrupt')
    if c == 2:
        I.st.uses_any = True
        code = VAny(core.fresh('exit_code', core.AnySort()))
        I.st.ghost['EXIT_CODE'] = code
        raise RaiseSig(VExc('SystemExit', [code], {'code': code}))
    if c == 4:
        # any exception a handler raises is isolated, also one that derives from BaseException but not from Exception
        # (asyncio.CancelledError, GeneratorExit, a user class); GeneratorExit stands for that family
        lib.raise_(I, 'GeneratorExit', VStr('handler failed with a BaseException that is not an Exception'))
    lib.raise_(I, 'Exception', VStr('handler failed'))


DISP_CALLS = {
    'self._cache.clear': s_cache_clear, 'self.getHandlers': s_getHandlers, 'chain': s_chain, 'sorted': s_sorted,
    'attrgetter': lambda I, r, a, k: VCons('attrgetter', a),
    'FallBackGenerator': fallback_ctor('FallBackGenerator', '_on_generate_events'),
    'FallBackExceptionHandler': fallback_ctor('FallBackExceptionHandler', '_on_exception'),
    'FallBackSignalHandler': fallback_ctor('FallBackSignalHandler', '_on_signal'),
    'event_handlers.sort': s_list_sort, 'len': s_len, 'event.reduce_time_left': s_reduce_time_left, '_exc_info': s_exc_info, 'event.child': s_child,
    'exception': s_exception, 'self.fire': s_fire, 'self.registerTask': s_registerTask, 'self.stop': s_stop,
    'self._eventDone': s_eventDone, 'event_handler': s_handler_call,
}
DISP_HOOKS = dict(
    attr_hooks={'self._cache': lambda I: CacheModel(), 'event.args': lambda I: VTuple([]), 'event.kwargs': lambda I: VCDict({}),
                'event.channels': lambda I: VTuple([I.st.ghost['CHAN']])},
    setattr_hooks={'v_value': s_setvalue_hook},
)


def disp_setup(nchan=1, extra=None):
    def setup(I):
        self = obj(I, 'self', 'Manager')
        event = obj(I, 'event', 'Event')
        I.st.uses_any = True
        chans = [VAny(z3.Const('channel%d' % k, core.AnySort())) for k in range(nchan)]
        I.st.ghost['CHAN'] = chans[0]
        remaining = sym(I, 'remaining', Int)
        I.assume(remaining.t >= 0)
        val = I.field(event, 'value')
        I.assume(z3.And(val.t != core.null(), val.t != event.t, val.t != self.t, event.t != self.t),
                 'requires event.value is the Value created by fireEvent')
        I.assume(I.fz(event, 'waitingHandlers') >= 0)
        I.st.inputs['event.cancelled'] = I.fz(event, 'cancelled')
        I.st.inputs['event.complete'] = I.fz(event, 'complete')
        I.st.inputs['event.failure'] = I.fz(event, 'failure')
        a = {'self': self, 'event': event, 'channels': VTuple(chans), 'remaining': remaining}
        if extra:
            extra(I, a)
        return a
    return setup


def loop_true(I):
    return z3.BoolVal(True)


def inv_handlers_nonnull(I):
    L = I.local('event_handlers')
    i = core.fresh('i', z3.IntSort())
    return z3.ForAll([i], z3.Implies(z3.And(L.lo <= i, i < L.hi), z3.Select(L.arrs[0], i) != core.null()))


def mark_iter_start(I):
    g = I.st.ghost
    g['ITER_OPEN'] = True
    g['ITER_BASE'] = {k: len(log(I, k)) for k in ('FIRED', 'INVOKED', 'SETVALUE', 'TASKS', 'STOPS')}
    ev = I.local('event')
    g['ITER_WH0'] = I.fz(ev, 'waitingHandlers')


def since(I, name):
    return log(I, name)[I.st.ghost['ITER_BASE'][name]:]


def disp_spec(prop, name, post, iteration=None, inv=(), setup_extra=None, cover_=(), clause='', nchan=1, replay=None, loop_hooks=None):
    def iter_hook(I):
        if iteration:
            iteration(I, 'continue')
        I.st.ghost['ITER_OPEN'] = False

    def post_(I, outcome, ctx):
        if I.st.ghost.get('ITER_OPEN') and iteration and outcome[0] == 'return':
            iteration(I, 'break')
        post(I, outcome, ctx)
    lh = loop_hooks or {}
    inv = [('handlers_nonnull', inv_handlers_nonnull), ('not_cancelled', lambda I: z3.Not(I.fz(I.local('event'), 'cancelled')))] + list(inv)
    return FucSpec(
        prop, FILE, 'Manager._dispatcher', disp_setup(nchan, setup_extra), post_, name=name, fields=M_FIELDS, calls=DISP_CALLS,
        field_alias=ALIAS, exc_parents={}, classes=EVENT_CLASSES, cover=list(cover_), clause=clause, replay=replay,
        loops={0: LoopSpec(inv=[('true', loop_true)] + list(inv), havoc_fields=['stopped', 'effects', 'waitingHandlers', 'errors', 'promise',
                                                                              'handler', '_cache_needs_refresh'] + lh.get('havoc', []),
                           kinds={'value': Any, 'err': ERR}, body_hook=mark_iter_start, iter_hook=iter_hook,
                           entry_hook=lh.get('entry'), modular=True, stable_locals=['eargs', 'ekwargs'],
                           frame_fields=['value', 'priority', 'h_event', 'name', 'failure', 'success', 'complete', 'cancelled',
                                         'alert_done', '_running', '_queue', '_tasks'])},
        **DISP_HOOKS)


# ============================================================================= C02: handler order, once each, stop()
def c02_iteration(I, how):
    inv = since(I, 'INVOKED')
    it = I.local('__iter0')
    k = I.st.ghost.get('ITER_K')
    I.oblige('handler_invoked_once_per_position', z3.BoolVal(len(inv) == 1), detail='each list element is invoked exactly once, in list order')
    if inv:
        h = inv[0][0]
        I.oblige('invoked_handler_is_the_list_element', h.t == I.local('event_handler').t)
        I.oblige('handler_recorded_on_event', I.fz(I.local('event'), 'handler') == h.t)
    stopped = I.fz(I.local('event'), 'stopped')
    if how == 'continue':
        cover(I, 'continue')
        I.oblige('no_lower_priority_handler_after_stop', z3.Not(stopped),
                 detail='the loop goes on to the next (lower priority) handler only if the event was not stopped')
    else:
        cover(I, 'break')
        I.oblige('loop_left_early_only_when_stopped', stopped)


def c02_post(I, outcome, ctx):
    kind, v = outcome
    if kind == 'raise':
        I.oblige('raises_only_SystemExit', z3.BoolVal(v.cls == 'SystemExit'), detail='escaping %s' % v.cls)
        return
    cover(I, 'return')
    g = I.st.ghost
    if g.get('CACHE') == 'miss' and 'SORTED_LIST' in g:
        cover(I, 'built')
        # the list that is iterated and cached is the sorted one (+ fallback appended for the three internal event kinds)
        stored = g.get('CACHE_STORE', [])
        I.oblige('sorted_list_is_cached', z3.BoolVal(len(stored) == 1))


def c02_sorted_entry(I):
    """at loop entry: the list that will be iterated is ordered by descending priority (fresh list: from the sorted contract;
    cached list: representation invariant of the cache, established here when the list is stored)"""
    L = I.local('event_handlers')
    g = I.st.ghost
    i, j = core.fresh('i', z3.IntSort()), core.fresh('j', z3.IntSort())
    pr = lambda x: z3.Select(I.st.heap['priority'][0], x)  # noqa: E731
    a = L.arrs[0]
    desc = z3.ForAll([i, j], z3.Implies(z3.And(L.lo <= i, i < j, j < L.hi), pr(z3.Select(a, i)) >= pr(z3.Select(a, j))))
    if g.get('CACHE') == 'miss':
        fb = g.get('FALLBACK')
        name = 'handlers_in_descending_priority' + ('.with_%s' % fb[0] if fb else '')
        I.oblige(name, desc, detail='handlers with different priorities run in descending priority order')


SPECS.append(disp_spec(
    'C02', 'Manager._dispatcher[order]', c02_post, iteration=c02_iteration, cover_=['return', 'continue', 'break', 'built'],
    loop_hooks={'entry': c02_sorted_entry},
    clause='_dispatcher: the handler list built on a cache miss is in descending priority order; the loop invokes exactly the list '
           'element of each position once, in order, and goes on to the next handler only if the event has not been stopped'))


# ============================================================================= C04: per-handler result / error isolation
def c04_iteration(I, how):
    g = I.st.ghost
    ev = I.local('event')
    val = I.field(ev, 'value')
    oc = g.get('HANDLER_OUTCOME')
    fired, setv, tasks, stops = since(I, 'FIRED'), since(I, 'SETVALUE'), since(I, 'TASKS'), since(I, 'STOPS')
    wh0 = g['ITER_WH0']
    wh = I.fz(ev, 'waitingHandlers')
    if oc == 0:
        r = g['HANDLER_RESULT']
        isnone = core.any_is_none(r.t)
        isgen = core.fn('any_isinst_GeneratorType', core.AnySort(), z3.BoolSort())(r.t)
        cover(I, 'normal')
        if tasks:
            cover(I, 'generator')
            I.oblige('generator.only_for_generators', z3.And(z3.Not(isnone), isgen))
            I.oblige('generator.waiting_incremented', wh == wh0 + 1)
            I.oblige('generator.promise_set', I.fz(val, 'promise'))
            t = tasks[0]
            I.oblige('generator.task_registered', z3.And(z3.BoolVal(len(tasks) == 1 and isinstance(t, VTuple) and len(t.items) == 3),
                                                         t.items[0].t == ev.t, core.any_inject(t.items[1]) == r.t,
                                                         z3.BoolVal(isinstance(t.items[2], VNone))))
            I.oblige('generator.value_not_set_yet', z3.BoolVal(len(setv) == 0))
        elif setv:
            cover(I, 'value')
            I.oblige('value.only_for_plain_results', z3.And(z3.Not(isnone), z3.Not(isgen)))
            I.oblige('value.stored_once', z3.And(z3.BoolVal(len(setv) == 1), setv[0][0].t == val.t, core.any_inject(setv[0][1]) == r.t))
            I.oblige('value.waiting_unchanged', wh == wh0)
        else:
            cover(I, 'none')
            I.oblige('none.only_for_None', isnone, detail='a non-None result must be recorded')
            I.oblige('none.waiting_unchanged', wh == wh0)
        I.oblige('normal.no_feedback_events', z3.BoolVal(len(fired) == 0))
        I.oblige('normal.no_stop', z3.BoolVal(len(stops) == 0))
    elif oc == 3:
        cover(I, 'raised')
        exc = g['EXC_INFO']
        I.oblige('raise.errors_flag_set', I.fz(val, 'errors'))
        I.oblige('raise.error_triple_stands_in', z3.BoolVal(len(setv) == 1 and setv[0][1] is exc), detail='the error triple is stored as the value')
        nfail = [e for e in fired if e.tag == 'child' and lib.eq(I, e.args[1], VStr('failure')) is not None and
                 z3.is_true(z3.simplify(lib.eq(I, e.args[1], VStr('failure'))))]
        nexc = [e for e in fired if e.tag == 'exception']
        I.oblige('raise.exactly_one_exception_event', z3.BoolVal(len(nexc) == 1))
        fail = I.fz(ev, 'failure')
        I.oblige('raise.failure_event_iff_requested', z3.BoolVal(len(nfail) == 1) == fail)
        I.oblige('raise.nothing_else_fired', z3.BoolVal(len(fired) == len(nexc) + len(nfail)))
        for e in nexc:
            I.oblige('raise.exception_event_names_handler_and_event', z3.And(e.kwargs['handler'].t == I.local('event_handler').t,
                                                                             e.kwargs['fevent'].t == ev.t))
        I.oblige('raise.no_task_for_a_handler_that_raised', z3.And(z3.BoolVal(len(tasks) == 0), wh == wh0),
                 detail='a handler that raised returned nothing: no generator is registered for it and the count of suspended handlers '
                        'stays as it was (a stale result of an earlier handler must not be collected again)')
        if how != 'continue':
            I.oblige('raise.remaining_handlers_still_run', I.fz(ev, 'stopped'),
                     detail='an exception in one handler never prevents the remaining handlers: the loop is left after a raising '
                            'handler only if the event was stopped')
    elif oc == 1:
        cover(I, 'kbint')
        I.oblige('keyboard_interrupt.stops_manager', z3.BoolVal(len(stops) == 1 and len(stops[0]) == 0))
    elif oc == 2:
        cover(I, 'sysexit')
        I.oblige('system_exit.stops_manager_with_code', z3.BoolVal(len(stops) == 1 and len(stops[0]) == 1 and stops[0][0] is g['EXIT_CODE']))
    if oc in (1, 2):
        # an interrupted handler produced no result: "exactly their non-None results" - nothing is stored or registered for it
        # (in particular not the result of the handler before it, once more)
        I.oblige('interrupted.nothing_collected', z3.And(z3.BoolVal(len(setv) == 0 and len(tasks) == 0), wh == wh0),
                 detail='a handler that ended with KeyboardInterrupt / SystemExit stored %d value(s) and registered %d task(s)' % (len(setv), len(tasks)))


def c04_inv_err(I):
    ev = I.local('event')
    err = I.local('err')
    has_err = z3.BoolVal(False) if isinstance(err, VNone) else (z3.Not(err.isnone) if isinstance(err, VOpt) else z3.BoolVal(True))
    return has_err == I.fz(I.field(ev, 'value'), 'errors')


def c04_post(I, outcome, ctx):
    kind, v = outcome
    ev = ctx['args']['event']
    if kind == 'raise':
        # only SystemExit from stop(code) may leave the dispatcher (C08); an ordinary handler exception never does
        cover(I, 'exit')
        I.oblige('handler_exception_never_escapes', z3.BoolVal(v.cls == 'SystemExit' and I.st.ghost.get('HANDLER_OUTCOME') == 2),
                 detail='escaping %s' % v.cls)
        return
    cover(I, 'return')
    done = log(I, 'DONE')
    cancelled = z3.Select(ctx['pre']['cancelled'][0], ev.t)
    I.oblige('eventDone_called_once', z3.BoolVal(len(done) == 1))
    if done and len(done[0]) == 2:
        e, err = done[0]
        I.oblige('eventDone_for_this_event', e.t == ev.t)
        has_err = z3.BoolVal(False) if isinstance(err, VNone) else (z3.Not(err.isnone) if isinstance(err, VOpt) else z3.BoolVal(True))
        I.oblige('err_passed_iff_some_handler_raised', has_err == I.fz(I.field(ev, 'value'), 'errors'))


def c04_extra(I, a):
    I.assume(z3.Not(I.fz(I.field(a['event'], 'value'), 'errors')), 'requires a fresh Value (fireEvent): errors not set before dispatch')


SPECS.append(disp_spec(
    'C04', 'Manager._dispatcher[results]', c04_post, iteration=c04_iteration, inv=[('err_iff_errors', c04_inv_err)],
    setup_extra=c04_extra, cover_=['return', 'normal', 'generator', 'value', 'none', 'raised', 'kbint', 'sysexit'],
    clause='_dispatcher, per handler: a non-None plain result is stored once; a generator result increments waitingHandlers, sets '
           'promise and registers the task; an exception sets errors, stores the error triple, fires exactly one exception event '
           '(+ one <name>_failure iff requested) and the loop goes on; KeyboardInterrupt/SystemExit map to stop(); _eventDone is '
           'called exactly once with err set iff some handler raised'))


# ============================================================================= Manager._eventDone (C04 success gating, C05 cause walk)
def child_kind(e):
    if isinstance(e, VCons) and e.tag == 'child' and len(e.args) >= 2 and isinstance(e.args[1], VStr) and z3.is_string_value(e.args[1].t):
        return e.args[1].t.as_string()
    return None


def ed_setup(I):
    self = obj(I, 'self', 'Manager')
    event = obj(I, 'event', 'Event')
    err = sym(I, 'err', ERR)
    val = I.field(event, 'value')
    I.assume(z3.And(val.t != core.null(), val.t != event.t))
    I.assume(I.fz(event, 'waitingHandlers') >= 0)
    I.st.uses_any = True
    I.st.ghost['CHAN'] = VAny(z3.Const('channel0', core.AnySort()))
    I.st.ghost['E0'] = event
    I.st.inputs['waitingHandlers'] = I.fz(event, 'waitingHandlers')
    I.st.inputs['value.errors'] = I.fz(val, 'errors')
    I.st.inputs['event.success'] = I.fz(event, 'success')
    I.st.inputs['err_is_none'] = err.isnone
    I.assume(tracked_wf(I), 'requires Tracked: cause present iff effects present')
    I.assume(z3.Implies(z3.Not(err.isnone), I.fz(val, 'errors')),
             'requires err given => value.errors (obligation err_passed_iff_some_handler_raised at the call in _dispatcher)')
    return {'self': self, 'event': event, 'err': err}


def tracked_wf(I):
    """representation invariant of completion tracking: `cause` and `effects` are set and deleted together"""
    x = core.fresh('e', core.RefSort())
    return z3.ForAll([x], z3.Select(I.st.heap['cause'][0], x) == z3.Select(I.st.heap['effects'][0], x))


def ed_entry_hook(I):
    """state when the cause walk starts = after the done/success block: C04 feedback obligations for an effective call"""
    ev = I.st.ghost['E0']
    val = I.field(ev, 'value')
    fired = log(I, 'FIRED')
    done = [e for e in fired if child_kind(e) == 'done']
    succ = [e for e in fired if child_kind(e) == 'success']
    cover(I, 'effective')
    I.oblige('effective_only_when_no_handler_waits', I.fz(ev, 'waitingHandlers') == 0)
    I.oblige('done_event_iff_alert_done', z3.BoolVal(len(done) == 1) == I.fz(ev, 'alert_done'))
    I.oblige('success_at_most_once', z3.BoolVal(len(succ) <= 1))
    I.oblige('success_iff_requested_and_no_handler_raised', z3.BoolVal(len(succ) == 1) == z3.And(I.fz(ev, 'success'), z3.Not(I.fz(val, 'errors'))),
             detail='<name>_success is fired iff requested and no handler of the event raised (value.errors), whoever calls _eventDone')
    I.oblige('only_done_and_success_before_completion', z3.BoolVal(len(fired) == len(done) + len(succ)))
    for e in succ:
        I.oblige('success_event_of_this_event', e.args[0].t == ev.t)
    I.st.ghost['PRE_WALK_FIRED'] = len(fired)


def ed_body_hook(I):
    g = I.st.ghost
    ev = I.local('event')
    g['W_EV'] = ev
    g['W_BASE'] = len(log(I, 'FIRED'))
    c = I.field(ev, 'cause')
    e = I.field(ev, 'effects')
    g['W_CAUSE'] = (c.present, c.val.t)
    g['W_EFF'] = (e.present, e.val.t)
    g['W_OPEN'] = True


def ed_walk_obligations(I, how):
    g = I.st.ghost
    ev = g['W_EV']
    cp, cv = g['W_CAUSE']
    ep, e0 = g['W_EFF']
    fired = log(I, 'FIRED')[g['W_BASE']:]
    comp = [x for x in fired if child_kind(x) == 'complete']
    tracked = z3.And(cp, cv != core.null())
    c1, e1 = I.field(ev, 'cause'), I.field(ev, 'effects')
    if how == 'continue':
        cover(I, 'ascend')
        # the loop goes on only after this event's closure has drained
        I.oblige('walk.ascends_only_at_zero', z3.And(tracked, e0 - 1 <= 0))
        I.oblige('walk.complete_fired_iff_requested', z3.BoolVal(len(comp) == 1) == I.fz(ev, 'complete'),
                 detail='<name>_complete exactly when the counter reaches zero and the event asked for it')
        I.oblige('walk.nothing_else_fired', z3.BoolVal(len(fired) == len(comp)))
        for x in comp:
            I.oblige('walk.complete_event_of_this_event', x.args[0].t == ev.t)
        I.oblige('walk.tracking_attributes_removed', z3.And(z3.Not(c1.present), z3.Not(e1.present)),
                 detail='cause/effects are deleted, so the same closure can never be counted down twice')
        I.oblige('walk.moves_to_cause', I.local('event').t == cv)
    else:
        cover(I, 'stop')
        # the walk ends here: either the event is not tracked (nothing happens) or descendants remain
        I.oblige('walk.stop.no_complete_fired', z3.BoolVal(len(fired) == 0))
        I.oblige('walk.stop.untracked_or_descendants_remain', z3.Or(z3.Not(tracked), e0 - 1 > 0))
        I.oblige('walk.stop.counter_decremented_once', z3.Implies(tracked, z3.And(e1.present, e1.val.t == e0 - 1, c1.present, c1.val.t == cv)))
        I.oblige('walk.stop.untracked_untouched', z3.Implies(z3.Not(tracked), z3.And(c1.present == cp, e1.present == ep)))


def ed_iter_hook(I):
    ed_walk_obligations(I, 'continue')
    I.st.ghost['W_OPEN'] = False


def ed_post(I, outcome, ctx):
    if no_escape(I, outcome):
        return
    g = I.st.ghost
    if g.get('W_OPEN'):
        ed_walk_obligations(I, 'break')
        return
    cover(I, 'waiting')
    ev = ctx['args']['event']
    # not effective: some handler is still suspended: nothing fired, tracking untouched
    I.oblige('waiting.nothing_fired', z3.BoolVal(len(log(I, 'FIRED')) == 0))
    I.oblige('waiting.only_when_handlers_wait', I.fz(ev, 'waitingHandlers') > 0)
    for f in ('cause', 'effects'):
        for o, n in zip(ctx['pre'][f], I.st.heap[f]):
            I.oblige('waiting.frame.' + f, o == n)


def v_value_get(I, o):
    I.st.uses_any = True
    return VAny(core.fn('VALUE_OF', core.RefSort(), core.AnySort())(o.t))


def ed_replay(model, ob):
    if 'success_iff' not in ob['name']:
        return None
    return '''
import sys
from circuits import Component, Event, handler
class hello(Event):
    success = True
    failure = True
seen = []
class App(Component):
    @handler('hello', priority=2)
    def a(self):
        raise RuntimeError('boom')
    @handler('hello', priority=1)
    def b(self):
        yield 1
    def hello_success(self, *a): seen.append('success')
    def hello_failure(self, *a): seen.append('failure')
    def exception(self, *a, **k): pass
app = App()
app.fire(hello())
for _ in range(8): app.tick()
print('feedback events for an event with one raising and one generator handler:', seen)
sys.exit(1 if ('success' in seen and 'failure' in seen) else 0)
'''


M_FIELDS.update({'success_channels': Dyn(Tup(Any)), 'complete_channels': Dyn(Tup(Any))})

SPECS.append(FucSpec(
    'C04', FILE, 'Manager._eventDone', ed_setup, ed_post, name='Manager._eventDone', fields=M_FIELDS, field_alias=ALIAS,
    calls={'event.child': s_child, 'self.fire': s_fire}, classes=EVENT_CLASSES, replay=ed_replay,
    attr_hooks={'event.channels': lambda I: VTuple([I.st.ghost['CHAN']])}, getattr_hooks={'v_value': v_value_get},
    loops={0: LoopSpec(inv=[('tracked_wf', tracked_wf)], modular=True, entry_hook=ed_entry_hook, body_hook=ed_body_hook, iter_hook=ed_iter_hook,
                       frame_fields=['value', 'complete', 'success', 'alert_done', 'errors', 'waitingHandlers'],
                       kinds={'cause': Opt(Ref)})},
    cover=['effective', 'waiting', 'ascend', 'stop'],
    clause='_eventDone: nothing happens while a handler waits; otherwise <name>_done iff alert_done, <name>_success iff requested and '
           'no handler raised; then the cause walk: one decrement per finished closure, <name>_complete exactly when a counter reaches '
           'zero and was requested, tracking attributes deleted, ascend to the cause'))


# the same contract decides C05's clauses about the countdown (every finished event - cancelled ones included - reports to its cause,
# one decrement each, <name>_complete exactly at zero): registered under C05 as well
import copy as _copy
_ed5 = _copy.copy(SPECS[-1])
_ed5.prop = 'C05'
_ed5.clause = ('_eventDone (completion countdown): unless a handler still waits, the event reports to its cause chain - one decrement per '
               'finished closure, <name>_complete exactly when a counter reaches zero and was requested, tracking attributes deleted, '
               'ascend; no path (cancelled, failed, no feedback requested) skips the walk')
SPECS.append(_ed5)
# ... and under C06: "the caller is resumed only after every handler of the awaited event (suspended ones included) has finished" is
# the first clause of this contract - <name>_done, which resumes the caller, is not fired while waitingHandlers > 0
_ed6 = _copy.copy(SPECS[-2])
_ed6.prop = 'C06'
_ed6.clause = ('_eventDone (what resumes a call()/wait() caller): nothing - in particular no <name>_done - is fired while a handler of the '
               'event is still suspended, whether or not another handler raised')
SPECS.append(_ed6)


# ============================================================================= Manager._fire / fireEvent (C02, C03, C05)
F_FIELDS = dict(M_FIELDS)
F_FIELDS.update({'ident': Int, 'channel': Dyn(Any), 'v_event': Ref, 'manager': Ref, 'notify': Any, 'v_parent': Ref, 'handled': Bool, '_value': Any})
F_ALIAS = dict(ALIAS)
F_ALIAS.update({('Value', 'event'): 'v_event', ('Value', 'parent'): 'v_parent'})


def fire_setup(same_thread):
    def setup(I):
        self = obj(I, 'self', 'Manager')
        event = obj(I, 'event', 'Event')
        I.st.uses_any = True
        channel = sym(I, 'channel', Any)
        prio = sym(I, 'priority', Real)
        cur = I.field(self, '_currently_handling')
        I.assume(z3.And(cur.t != event.t, event.t != self.t), 'the event being fired is a new object, not the one being handled')
        I.assume(tracked_wf(I), 'requires Tracked: cause present iff effects present')
        cur_thread = z3.Int('CURRENT_THREAD_IDENT')
        I.st.ghost['CUR_THREAD'] = cur_thread
        ex, fl = I.field(self, '_executing_thread'), I.field(self, '_flushing_thread')
        th = z3.If(ex.t != core.null(), ex.t, fl.t)
        owner = z3.And(th != core.null(), z3.Select(I.st.heap['ident'][0], th) == cur_thread)
        I.assume(owner if same_thread else z3.Not(owner), 'case: fired from the %s thread' % ('loop' if same_thread else 'a foreign'))
        I.st.inputs['current_tracked'] = z3.And(cur.t != core.null(), z3.Select(I.st.heap['cause'][0], cur.t))
        return {'self': self, 'event': event, 'channel': channel, 'priority': prio}
    return setup


def s_queue_append(I, recv, args, kw):
    """contract of _EventQueue.append (verified under C02): the entry goes to the end of the fifo; nothing is dispatched"""
    log(I, 'APPENDS').append(args)
    log(I, 'ORDER').append('append')
    return NONE


def s_reduce(I, recv, args, kw):
    log(I, 'REDUCE').append((recv, args[0]))
    log(I, 'ORDER').append('reduce')
    return NONE


FIRE_CALLS = {'_thread.get_ident': lambda I, r, a, k: VInt(I.st.ghost['CUR_THREAD']), 'self._queue.append': s_queue_append,
              'handling.reduce_time_left': s_reduce}


def fire_post(prop, same_thread):
    def post(I, outcome, ctx):
        if no_escape(I, outcome):
            return
        cover(I, 'return')
        a, pre = ctx['args'], ctx['pre']
        self, event = a['self'], a['event']
        apps = log(I, 'APPENDS')
        cur0 = z3.Select(pre['_currently_handling'][0], self.t)
        is_signal = core.fn('isinst_signal', core.RefSort(), z3.BoolSort())(event.t)
        if prop in ('C02', 'C03'):
            I.oblige('event_appended_exactly_once', z3.BoolVal(len(apps) == 1), detail='nothing lost or duplicated: one queue entry per fire')
            if apps:
                ev, ch, pr = apps[0]
                I.oblige('appended_entry_is_the_fired_event', z3.And(ev.t == event.t, core.any_inject(ch) == a['channel'].t,
                                                                     coerce(pr, Real).t == a['priority'].t))
            # fire never runs a handler: the only calls are the queue append and (foreign thread) the wake-up of the idle wait
            I.oblige('fire_only_appends', z3.BoolVal(len(log(I, 'INVOKED')) == 0 and len(log(I, 'FIRED')) == 0))
        if prop == 'C03' and not same_thread:
            red = log(I, 'REDUCE')
            isge = core.fn('isinst_generate_events', core.RefSort(), z3.BoolSort())(cur0)
            I.oblige('idle_wait_woken_iff_generate_events_is_being_handled', z3.BoolVal(len(red) == 1) == z3.And(cur0 != core.null(), isge),
                     detail='a fire from another thread cuts the time left of the generate_events event being handled to 0')
            for r, t in red:
                cover(I, 'woken')
                I.oblige('time_left_reduced_to_zero', z3.And(r.t == cur0, coerce(t, Real).t == 0))
            I.oblige('event_queued_before_wakeup', z3.BoolVal(log(I, 'ORDER') in (['append'], ['append', 'reduce'])),
                     detail='the loop must find the event when it wakes up')
        if prop == 'C05':
            c1, e1 = I.field(event, 'cause'), I.field(event, 'effects')
            tracked = z3.And(cur0 != core.null(), z3.Select(pre['cause'][0], cur0), z3.Select(pre['cause'][1], cur0) != core.null())
            eff_cur0 = z3.Select(pre['effects'][1], cur0)
            eff_cur1 = z3.Select(I.st.heap['effects'][1], cur0)
            if same_thread:
                link = z3.And(tracked, z3.Not(is_signal))
                I.oblige('tracked_current_links_new_event', z3.Implies(link, z3.And(c1.present, c1.val.t == cur0, e1.present, e1.val.t == 1)),
                         detail='an event fired while a tracked event is handled becomes its effect: cause = current, effects = 1')
                I.oblige('tracked_current_counts_new_event', z3.Implies(link, eff_cur1 == eff_cur0 + 1))
                I.oblige('untracked_current_leaves_event_untracked', z3.Implies(z3.Not(link), z3.And(
                    c1.present == z3.Select(pre['cause'][0], event.t), e1.present == z3.Select(pre['effects'][0], event.t))))
                I.oblige('untracked_current_not_counted', z3.Implies(z3.And(z3.Not(link), cur0 != core.null()), eff_cur1 == eff_cur0))
                cover(I, 'linked')
            I.oblige('preserves_Tracked', tracked_wf(I))
    return post


for prop, same in (('C02', True), ('C05', True), ('C03', False), ('C03', True)):
    SPECS.append(FucSpec(
        prop, FILE, 'Manager._fire', fire_setup(same), fire_post(prop, same), name='Manager._fire[%s]' % ('loop thread' if same else 'foreign thread'),
        fields=F_FIELDS, field_alias=F_ALIAS, calls=FIRE_CALLS, classes=EVENT_CLASSES, cover=['return'],
        clause={'C02': '_fire (loop thread): exactly one queue append of the fired event; no handler is run, nothing else is fired',
                'C05': '_fire (loop thread): the new event is linked to the tracked current event (cause, effects = 1) and counted in it; '
                       'otherwise it stays untracked',
                'C03': '_fire (%s): the event is appended exactly once; from a foreign thread the generate_events event being handled '
                       'gets reduce_time_left(0) after the append' % ('loop thread' if same else 'foreign thread')}[prop]))


def fe_setup(I):
    self = obj(I, 'self', 'Manager')
    event = obj(I, 'event', 'Event')
    I.st.uses_any = True
    root = I.field(self, 'root')
    I.assume(root.t != core.null())
    ch = sym(I, 'ch', Any)
    nchan = I.st.choice(2, 'channels_given')
    I.st.ghost['GIVEN'] = nchan == 0
    return {'self': self, 'event': event, 'channels': VTuple([ch] if nchan == 0 else []), 'kwargs': VCDict({})}


def s_Value(I, recv, args, kw):
    """contract of Value.__init__: a fresh future without result and without errors"""
    v = I.st.fresh_ref('Value')
    for f, x in (('errors', VBool(False)), ('result', VBool(False)), ('promise', VBool(False)), ('handled', VBool(False))):
        I.st.write_field(v.t, f, x)
    I.st.write_field(v.t, 'v_event', args[0])
    I.st.write_field(v.t, 'manager', args[1])
    I.st.write_field(v.t, 'v_parent', v)
    I.st.ghost['NEWVALUE'] = v
    return v


def s_root_fire(I, recv, args, kw):
    log(I, 'ROOTFIRE').append((recv, args, kw))
    return NONE


def fe_post(I, outcome, ctx):
    if no_escape(I, outcome):
        return
    cover(I, 'return')
    a = ctx['args']
    self, event = a['self'], a['event']
    rf = log(I, 'ROOTFIRE')
    nv = I.st.ghost.get('NEWVALUE')
    I.oblige('fresh_value_created', z3.BoolVal(nv is not None))
    if nv is None:
        return
    I.oblige('event_gets_the_fresh_value', I.field(event, 'value').t == nv.t)
    I.oblige('fresh_value_has_no_errors_no_result', z3.And(z3.Not(I.fz(nv, 'errors')), z3.Not(I.fz(nv, 'result'))))
    I.oblige('returns_the_value', outcome[1].t == nv.t)
    I.oblige('queued_once_on_the_root', z3.BoolVal(len(rf) == 1))
    if len(rf) == 1:
        r, args, kw = rf[0]
        I.oblige('root_fire_gets_event', z3.And(r.t == I.field(self, 'root').t, args[0].t == event.t))
        if I.st.ghost['GIVEN']:
            I.oblige('explicit_channels_used', z3.BoolVal(isinstance(args[1], VTuple) and len(args[1].items) == 1
                                                          and args[1].items[0] is a['channels'].items[0]))
        # the feedback events (<name>_done/_success/_failure/_complete) and wait() are addressed to event.channels: the event must
        # carry the channels it was actually queued with
        ec = I.field(event, 'e_channels')
        ec = ec.val if isinstance(ec, VOpt) else ec
        qd = args[1].val if isinstance(args[1], VOpt) else args[1]
        args = [args[0], qd]
        same = isinstance(ec, VTuple) and isinstance(args[1], VTuple) and len(ec.items) == len(args[1].items)
        I.oblige('event_records_the_channels_it_is_queued_with', z3.BoolVal(False) if not same else
                 z3.And([lib.eq(I, x, y) for x, y in zip(ec.items, args[1].items)] + [z3.BoolVal(True)]),
                 detail='event.channels = %r, queued with %r' % (ec, args[1]))


SPECS.append(FucSpec(
    'C04', FILE, 'Manager.fireEvent', fe_setup, fe_post, fields=dict(F_FIELDS, e_channels=Opt(Tup(Any))), field_alias=F_ALIAS,
    calls={'Value': s_Value, 'self.root._fire': s_root_fire}, classes=EVENT_CLASSES | {'Value'}, cover=['return'],
    clause='fireEvent: the event gets a fresh Value (no result, no errors) which is returned, and is handed to the root queue exactly once'))


# ============================================================================= C05: _dispatcher part
def c05_handler_pre(I, ev):
    self = I.local('self')
    cover(I, 'handler_called')
    I.oblige('handler_runs_as_current_event', I.fz(self, '_currently_handling') == ev.t,
             detail='events fired by a handler are linked to the event being handled')


def c05_entry(I):
    """after the tracking block, before any handler runs"""
    ev = I.local('event')
    c, e = I.field(ev, 'cause'), I.field(ev, 'effects')
    comp = I.fz(ev, 'complete')
    I.oblige('complete_request_starts_tracking', z3.Implies(comp, z3.And(c.present, c.val.t != core.null(), e.present, e.val.t == 1)),
             detail='an event asking for completion is its own cause (unless it already has one) and counts itself')
    I.oblige('preserves_Tracked', tracked_wf(I))
    # an event that was linked to the event whose handler fired it (by _fire) stays linked: the dispatcher may make a completion
    # request its own cause only when it has none yet - overwriting the link would cut the event (and everything below it) out of
    # its ancestor's closure, whose <name>_complete would then never fire
    c0 = I.st.ghost.get('CAUSE0')
    if c0 is not None:
        I.oblige('an_existing_causal_link_is_kept', z3.Implies(z3.And(c0.present, c0.val.t != core.null()), z3.And(c.present, c.val.t == c0.val.t)),
                 detail='event.cause set by _fire must survive the tracking block of the dispatcher')


def c05_iteration(I, how):
    """the closure drains only if _eventDone eventually runs for the event: it is skipped while waitingHandlers > 0, so the count
    must go up exactly by the generators registered as tasks in this iteration (processTask takes it down again, C06) - whatever
    the handler did, raise included"""
    g = I.st.ghost
    ev = I.local('event')
    tasks = since(I, 'TASKS')
    wh0, wh = g['ITER_WH0'], I.fz(ev, 'waitingHandlers')
    I.oblige('suspended_handler_count_goes_up_exactly_by_the_tasks_registered', wh == wh0 + len(tasks),
             detail='waitingHandlers = number of live tasks of the event; a surplus count keeps _eventDone (and <name>_complete of every '
                    'ancestor) from ever running')
    oc = g.get('HANDLER_OUTCOME')
    I.oblige('at_most_one_task_and_only_for_a_returned_generator', z3.BoolVal(len(tasks) == 0 or (len(tasks) == 1 and oc == 0)),
             detail='%d task(s) registered after handler outcome %r' % (len(tasks), oc))
    for t in tasks:
        if oc == 0 and isinstance(t, VTuple) and len(t.items) == 3:
            I.oblige('task_is_the_generator_this_handler_returned', z3.And(t.items[0].t == ev.t,
                                                                          core.any_inject(t.items[1]) == g['HANDLER_RESULT'].t))


def c05_post(I, outcome, ctx):
    kind, v = outcome
    if kind == 'raise':
        return
    cover(I, 'return')
    done = log(I, 'DONE')
    ev = ctx['args']['event']
    I.oblige('every_return_path_finishes_the_event', z3.BoolVal(len(done) == 1),
             detail='also a cancelled event must be counted down, otherwise the events that caused it never complete')
    for d in done[:1]:
        I.oblige('finishes_this_event', d[0].t == ev.t)
    I.oblige('handling_restored', I.fz(ctx['args']['self'], '_currently_handling') == I.st.ghost['HANDLING0'],
             detail='re-entrant dispatch gives the event being handled back to the outer handlers')


def c05_extra(I, a):
    I.assume(tracked_wf(I), 'requires Tracked')
    I.st.ghost['HANDLING0'] = I.fz(a['self'], '_currently_handling')
    I.st.ghost['HANDLER_RELY'] = c05_handler_pre
    I.st.ghost['CAUSE0'] = I.field(a['event'], 'cause')


def c05_replay(model, ob):
    if 'every_return_path' not in ob['name']:
        return None
    return '''
import sys
from circuits import Component, Event, handler
class a(Event):
    complete = True
class b(Event): pass
seen = []
class App(Component):
    def a(self):
        e = b(); self.fire(e); e.cancel()
    def a_complete(self, *args): seen.append('a_complete')
app = App()
app.fire(a())
for _ in range(10): app.tick()
print('a fired b and cancelled it before dispatch; a_complete seen:', seen)
sys.exit(1 if not seen else 0)
'''


SPECS.append(disp_spec(
    'C05', 'Manager._dispatcher[tracking]', c05_post, iteration=c05_iteration, setup_extra=c05_extra, cover_=['return', 'handler_called'],
    loop_hooks={'entry': c05_entry}, replay=c05_replay,
    inv=[('tracked_wf', tracked_wf), ('current_is_event', lambda I: I.fz(I.local('self'), '_currently_handling') == I.local('event').t),
         ('saved_handling', lambda I: I.local('handling').t == I.st.ghost['HANDLING0'])],
    clause='_dispatcher: a completion request starts tracking (cause, effects = 1); every handler runs with _currently_handling = '
           'event; every return path, the cancelled one included, finishes the event through _eventDone'))


# ============================================================================= C08: interrupts in handlers map to stop()
def c08_iteration(I, how):
    g = I.st.ghost
    oc = g.get('HANDLER_OUTCOME')
    stops = since(I, 'STOPS')
    if oc == 1:
        cover(I, 'kbint')
        I.oblige('keyboard_interrupt_stops_the_manager', z3.BoolVal(len(stops) == 1 and len(stops[0]) == 0))
    elif oc == 2:
        cover(I, 'sysexit')
        I.oblige('system_exit_stops_the_manager_with_its_code', z3.BoolVal(len(stops) >= 1 and len(stops[0]) >= 1 and stops[0][0] is g['EXIT_CODE']))
        # from the property: "an exit code ... carried by SystemExit propagates to the caller of run()".  The iteration ended normally
        # (we are here), so the SystemExit of the handler was absorbed: allowed only for SystemExit(None)
        code = g['EXIT_CODE']
        I.oblige('exit_code_of_the_handler_propagates', core.any_is_none(code.t),
                 detail='a handler raised SystemExit(code) with a code that is not None but the dispatcher went on normally: the exit '
                        'code never reaches the caller of run() (stop() has no effect on a manager that is not running any more, e.g. '
                        'when the handler itself called stop(code))')
    else:
        I.oblige('no_stop_otherwise', z3.BoolVal(len(stops) == 0))


def c08_post(I, outcome, ctx):
    kind, v = outcome
    g = I.st.ghost
    if kind == 'raise':
        cover(I, 'exit')
        I.oblige('only_SystemExit_leaves_the_dispatcher', z3.BoolVal(v.cls == 'SystemExit' and g.get('HANDLER_OUTCOME') == 2), detail='escaping %s' % v.cls)
        if v.cls == 'SystemExit':
            stops = log(I, 'STOPS')
            I.oblige('exit_code_went_through_stop', z3.BoolVal(bool(stops) and len(stops[-1]) == 1 and stops[-1][0] is g.get('EXIT_CODE')
                                                               and v.args and v.args[0] is g.get('EXIT_CODE')))
        return
    cover(I, 'return')


SPECS.append(disp_spec(
    'C08', 'Manager._dispatcher[interrupts]', c08_post, iteration=c08_iteration, cover_=['return', 'kbint', 'sysexit', 'exit'],
    clause='_dispatcher: KeyboardInterrupt in a handler calls stop(), SystemExit(code) calls stop(code) (whose SystemExit, if any, '
           'is the only exception that leaves the dispatcher, carrying the same code)'))

"""C17 — WebSocket framing: safe, segmentation invariant (stash discipline + locality), exact payloads, ping/pong, close gates.

Functions under contract: WebSocketCodec._parse_messages, _encode_tail, _on_write, _on_close (circuits/protocols/websocket.py).
Frame grammar (spec, RFC 6455, written independently of the code):
  b0 = d[0]: FIN = b0 >= 128, opcode = b0 % 16;  b1 = d[1]: MASK = b1 >= 128, len7 = b1 % 128
  ext = 0 if len7 < 126, 2 if len7 == 126, 8 if len7 == 127;  plen = len7 or the big-endian value of the ext bytes
  hlen = 2 + ext + (4 if MASK);  the frame is complete iff len(d) >= hlen + plen;  payload = d[hlen:hlen+plen] (unmasked with key)
"""
import z3
from pyvc.core import *  # noqa
from pyvc import core, lib
from pyvc.contract import FucSpec, LoopSpec, CustomCheck, add_ob, sym, obj, cover, uf, noop

SPECS = []
FILE = 'circuits/protocols/websocket.py'
S = z3.StringSort
W_FIELDS = {'_buffer': Bytes, '_pending_payload': Bytes, '_pending_type': Opt(Int), '_close_received': Bool, '_close_sent': Bool,
            '_sock': Ref, 'parent': Ref, 'channel': Any}


def byte(d, i):
    return z3.StrToCode(z3.SubString(d, i, 1))


def XOR(a, b):
    return core.fn('py_BitXor', z3.IntSort(), z3.IntSort(), z3.IntSort())(a, b)


def bytes_wf(I, t):
    """bytes are strings over code points 0..255: the range fact is assumed per byte read (lib.str_index)"""
    return None


def grammar(d):
    """spec view of the frame at the front of d (meaningful when enough bytes are there)"""
    b0, b1 = byte(d, 0), byte(d, 1)
    len7 = b1 % 128
    ext = z3.If(len7 < 126, 0, z3.If(len7 == 126, 2, 8))
    be2 = byte(d, 2) * 256 + byte(d, 3)
    be8 = 0
    for k in range(8):
        be8 = be8 * 256 + byte(d, 2 + k)
    plen = z3.If(len7 < 126, len7, z3.If(len7 == 126, be2, be8))
    masked = b1 >= 128
    hlen = 2 + ext + z3.If(masked, 4, 0)
    n = z3.Length(d)
    complete = z3.And(n >= 2, n >= hlen, n >= hlen + plen)
    return dict(fin=b0 >= 128, opcode=b0 % 16, masked=masked, plen=plen, hlen=hlen, complete=complete, key=z3.SubString(d, hlen - 4, 4),
                raw=z3.SubString(d, hlen, plen), total=hlen + plen)


def pm_setup(I):
    self = obj(I, 'self', 'WebSocketCodec')
    I.st.uses_any = True
    data = sym(I, 'data', Bytes)
    bytes_wf(I, data.t)
    bytes_wf(I, I.fz(self, '_buffer'))
    I.st.inputs['_buffer'] = I.fz(self, '_buffer')
    I.st.inputs['_pending_payload'] = I.fz(self, '_pending_payload')
    I.st.inputs['_close_sent'] = I.fz(self, '_close_sent')
    I.st.ghost['READS'] = []
    return {'self': self, 'data': data}


def log(I, n):
    return I.st.ghost.setdefault(n, [])


def s_fire(I, recv, args, kw):
    log(I, 'FIRED').append(args[0])
    return I.st.fresh_ref('Value')


def s_write(I, recv, args, kw):
    log(I, 'WRITTEN').append(args[0])
    return NONE


def TAIL(payload, mask):
    """spec of _encode_tail's result (contract verified below): length bytes (+ key) + (masked) payload"""
    return core.fn('ENCODED_TAIL', S(), z3.BoolSort(), S())(payload, mask)


def s_encode_tail(I, recv, args, kw):
    data, mask = args
    return VStr(TAIL(data.t, mask.t if isinstance(mask, VBool) else z3.BoolVal(False)), True)


def pm_body_hook(I):
    g = I.st.ghost
    self = I.local('self')
    d = I.local('data')
    g['IT'] = dict(d=d.t, buf=I.fz(self, '_buffer'), pend=I.fz(self, '_pending_payload'), ptype=I.field(self, '_pending_type'),
                   nfired=len(log(I, 'FIRED')), nwritten=len(log(I, 'WRITTEN')), msgs=I.local('msgs'),
                   close_sent=I.fz(self, '_close_sent'), close_recv=I.fz(self, '_close_received'))
    g['IT_OPEN'] = True
    g['READS'] = []
    bytes_wf(I, d.t)
    bytes_wf(I, g['IT']['pend'])
    I.assume(z3.Length(d.t) > 0)

    def on_read(I2, v, upto):
        if z3.eq(v.t, d.t):
            g['READS'].append(upto)
    g['ON_BYTES_READ'] = on_read


def msgs_len(v):
    if isinstance(v, VCList):
        return z3.IntVal(len(v.items))
    return v.hi - v.lo


def pm_iteration(I, how, outcome=None):
    g = I.st.ghost
    it = g['IT']
    self = I.local('self')
    d = it['d']
    G = grammar(d)
    msgs0 = it['msgs']
    fired = log(I, 'FIRED')[it['nfired']:]
    written = log(I, 'WRITTEN')[it['nwritten']:]
    buf1, pend1, ptype1 = I.fz(self, '_buffer'), I.fz(self, '_pending_payload'), I.field(self, '_pending_type')
    complete = G['complete']
    if how == 'continue':
        cover(I, 'frame_consumed')
        data1 = I.local('data').t
        msgs1 = I.local('msgs')
        I.oblige('V2.progress.loop_continues_only_after_a_complete_frame', complete)
        I.oblige('V2.progress.consumes_exactly_the_frame', data1 == z3.SubString(d, G['total'], z3.Length(d) - G['total']),
                 detail='header + payload bytes are removed from the front, at least 2 bytes')
        I.oblige('V1.stash_empty_after_a_complete_frame', buf1 == z3.StringVal(''))
        for k, up in enumerate(g['READS']):
            if up is not None:
                I.oblige('V3.locality.read_within_the_frame', up <= G['total'],
                         detail='a complete frame is decoded from its own bytes only (what follows cannot influence it)')
        payload_checks(I, G, it, msgs0, msgs1, fired, written, pend1, ptype1)
    elif how == 'break':
        if fired:
            cover(I, 'close_frame')
            I.oblige('close.only_for_a_complete_final_close_frame', z3.And(complete, G['fin'], G['opcode'] == 8))
            I.oblige('close.flag_set_and_one_close_event', z3.And(I.fz(self, '_close_received'), z3.BoolVal(len(fired) == 1 and fired[0].tag == 'close')))
            I.oblige('close.pending_fragment_untouched', pend1 == it['pend'])
        else:
            cover(I, 'need_more')
            I.oblige('V1.stash.break_only_when_incomplete', z3.Not(complete),
                     detail='the loop stops without consuming only when the frame at the front is not complete yet')
            I.oblige('V1.stash.whole_remainder_kept', buf1 == d)
            I.oblige('V1.stash.state_untouched', z3.And(pend1 == it['pend'], ptype1.isnone == it['ptype'].isnone,
                                                        z3.Or(ptype1.isnone, ptype1.val.t == it['ptype'].val.t),
                                                        I.fz(self, '_close_received') == it['close_recv']))
            I.oblige('V1.stash.no_output', z3.And(z3.BoolVal(len(written) == 0), msgs_len(I.local('msgs')) == msgs_len(msgs0)))
    elif how == 'return':
        cover(I, 'ping_after_close')
        I.oblige('ping_ignored_only_after_close_was_sent', z3.And(complete, G['opcode'] == 9, it['close_sent']))
        I.oblige('nothing_written_after_close', z3.BoolVal(len(written) == 0))
        I.oblige('earlier_messages_not_lost', z3.BoolVal(isinstance(outcome[1], (VList, VCList))),
                 detail='messages decoded earlier in the same read must still be returned (a list, never None)')


def same_type(a, b):
    return z3.And(a.isnone == b.isnone, z3.Or(a.isnone, a.val.t == b.val.t))


def payload_checks(I, G, it, msgs0, msgs1, fired, written, pend1, ptype1):
    """a complete frame was consumed and the loop goes on: data frame or ping/pong"""
    self = I.local('self')
    msg = I.local('msg').t if False else None
    raw = G['raw']
    payload = spec_payload(I, raw, G['masked'], G['key'], G['plen'])
    op, fin = G['opcode'], G['fin']
    is_data = op < 8
    n0, n1 = msgs_len(msgs0), msgs_len(msgs1)
    full = z3.Concat(it['pend'], payload)
    if written:
        cover(I, 'pong')
        I.oblige('ping.answered_only_for_final_ping_frames', z3.And(fin, op == 9, z3.Not(it['close_sent'])))
        I.oblige('ping.one_pong', z3.BoolVal(len(written) == 1))
        w = written[0]
        code_under_test = getattr(w, 't', None)
        same_payload = core.fresh('pong_payload', S())
        I.assume(code_under_test == z3.Concat(z3.StringVal('\x8a'), TAIL(same_payload, I.field(self, '_sock').t == core.null())) if False else True)
        I.oblige('ping.pong_carries_the_ping_payload', w.t == z3.Concat(z3.StrFromCode(z3.IntVal(0x8A)), TAIL(payload, I.field(self, '_sock').t == core.null())),
                 detail='the pong echoes exactly the payload of the ping frame (a pending fragment of a data message is not part of it)')
        I.oblige('ping.pending_fragment_untouched', z3.And(pend1 == it['pend'], n1 == n0))
        I.oblige('ping.pending_type_untouched', same_type(ptype1, it['ptype']),
                 detail='a ping inside a fragmented message must not change the type the reassembled message will be delivered with')
        return
    I.oblige('ping.answered', z3.Implies(z3.And(fin, op == 9, z3.Not(it['close_sent'])), z3.BoolVal(False)), detail='a ping must be answered by a pong')
    # data frames
    I.oblige('data.final_frame_delivers_one_message', z3.Implies(z3.And(fin, is_data), n1 == n0 + 1))
    I.oblige('data.nothing_delivered_otherwise', z3.Implies(z3.Not(z3.And(fin, is_data)), n1 == n0))
    if isinstance(msgs1, VList):
        last = z3.Select(msgs1.arrs[0], msgs1.hi - 1)
        text = z3.Or(op == 1, z3.And(op == 0, z3.Not(it['ptype'].isnone), it['ptype'].val.t == 1))
        dec = core.fn('py_decode_replace', S(), S())(full)
        exp = z3.If(text, core.fn('any_of_str', S(), core.AnySort())(dec), core.fn('any_of_bytes', S(), core.AnySort())(full))
        I.oblige('data.message_is_pending_fragments_plus_payload', z3.Implies(z3.And(fin, is_data), last == exp),
                 detail='type from the first fragment, payload = concatenation of all fragments, exactly')
    I.oblige('data.final_frame_clears_pending', z3.Implies(z3.And(fin, is_data), z3.And(pend1 == z3.StringVal(''), ptype1.isnone)))
    I.oblige('data.fragment_is_appended', z3.Implies(z3.And(z3.Not(fin), is_data), pend1 == full))
    I.oblige('data.type_kept_from_first_fragment', z3.Implies(z3.And(z3.Not(fin), is_data), z3.If(
        op != 0, z3.And(z3.Not(ptype1.isnone), ptype1.val.t == op), z3.And(ptype1.isnone == it['ptype'].isnone, z3.Or(ptype1.isnone, ptype1.val.t == it['ptype'].val.t)))))
    I.oblige('control.final_control_frames_leave_the_pending_message_alone', z3.Implies(z3.And(fin, op >= 8), z3.And(pend1 == it['pend'], n1 == n0)),
             detail='ping/pong/close inside a fragmented message do not disturb it')
    # (a conforming peer never fragments control frames, RFC 6455 5.5: the clause is stated for final control frames, like the one above)
    I.oblige('control.final_control_frames_leave_the_pending_type_alone', z3.Implies(z3.And(fin, op >= 8), same_type(ptype1, it['ptype'])),
             detail='the type of a fragmented message comes from its first fragment; control frames (opcode >= 8) in between must not change it')


def spec_payload(I, raw, masked, key, plen):
    """spec: payload = raw bytes, unmasked element-wise with the key when the MASK bit is set (array level)"""
    if not I.branch(masked, 'spec_masked'):
        return raw
    P = core.fresh('unmasked', z3.ArraySort(z3.IntSort(), z3.IntSort()))
    i = core.fresh('i', z3.IntSort())
    I.assume(z3.ForAll([i], z3.Implies(z3.And(0 <= i, i < plen), z3.Select(P, i) == XOR(z3.Select(lib.B2A(raw), i), byte(key, i % 4)))))
    um = lib.A2B(P, z3.IntVal(0), plen)
    I.assume(z3.Length(um) == plen)
    # extensionality of A2B at the window the code produced (same contents => same bytes)
    m = I.st.ghost.get('UNMASKED_LIST')
    if m is not None:
        j = core.fresh('j', z3.IntSort())
        I.assume(z3.Implies(z3.And(m.hi - m.lo == plen, z3.ForAll([j], z3.Implies(z3.And(0 <= j, j < plen), z3.Select(m.arrs[0], m.lo + j) == z3.Select(P, j)))),
                            lib.A2B(m.arrs[0], m.lo, m.hi) == um), 'A2B is determined by the window contents')
    return um


def pm_iter_hook(I):
    pm_iteration(I, 'continue')
    I.st.ghost['IT_OPEN'] = False


def pm_post(I, outcome, ctx):
    kind, v = outcome
    g = I.st.ghost
    if kind == 'raise':
        cover(I, 'raise')
        I.oblige('safety.no_exception_for_any_bytes', z3.BoolVal(False), detail='escaping %s (e.g. header bytes indexed before they arrived)' % v.cls)
        return
    if g.get('IT_OPEN'):
        G = grammar(g['IT']['d'])
        ping_after_close = z3.And(G['complete'], G['fin'], G['opcode'] == 9, g['IT']['close_sent'])
        if isinstance(v, VNone) or I.branch(ping_after_close, 'ping_after_close'):
            pm_iteration(I, 'return', outcome)
        else:
            pm_iteration(I, 'break')
        return
    cover(I, 'return')
    self = ctx['args']['self']
    if I.st.ghost.get('ENTERED_LOOP') is None:
        # closed connection: nothing is delivered any more
        pass


def pm_entry(I):
    self = I.local('self')
    I.oblige('entry.reads_only_stash_plus_data', I.local('data').t == z3.Concat(I.st.ghost['BUF0'], I.st.ghost['DATA0']),
             detail='V1: the parser sees the earlier reads only through the stash prepended to the new data')
    I.oblige('entry.not_after_close', z3.Not(I.fz(self, '_close_received')), detail='after a close frame no further data messages are delivered')


def pm_setup2(I):
    a = pm_setup(I)
    I.st.ghost['BUF0'] = I.fz(a['self'], '_buffer')
    I.st.ghost['DATA0'] = a['data'].t
    return a


def xor_loop_inv(I):
    """unmask loop: the first k bytes are unmasked, the rest still raw"""
    msg = I.local('msg')
    it = I.local('__iter2')
    k = I.local('__idx2').t
    key = I.local('masking_key').t
    j = core.fresh('j', z3.IntSort())
    orig = it.arrs[1]
    I.st.ghost['UNMASKED_LIST'] = msg
    return z3.And(msg.lo == it.lo, msg.hi == it.hi, z3.ForAll([j], z3.Implies(z3.And(it.lo <= j, j < it.hi), z3.Select(msg.arrs[0], j) == z3.If(
        j < k, XOR(z3.Select(orig, j), byte(key, (j - it.lo) % 4)), z3.Select(orig, j)))))


def pm_replay(model, ob):
    def u(x):
        return lib.unescape(x) if isinstance(x, str) else ''
    buf, data, pend = u(model.get('_buffer')), u(model.get('data')), u(model.get('_pending_payload'))
    name = ob['name']
    which = 'safety' if 'safety' in name else 'ping' if 'ping.pong' in name else 'lost' if 'earlier_messages' in name else 'model'
    return '''
import sys
from circuits.protocols.websocket import WebSocketCodec
def codec(pending=b'', ptype=None):
    c = WebSocketCodec.__new__(WebSocketCodec)
    c._sock=None; c._buffer=bytearray(); c._pending_payload=bytearray(pending); c._pending_type=ptype
    c._close_received=False; c._close_sent=False
    c.out=[]; c.fire=lambda e,*ch: c.out.append(e); c._write=lambda d: c.out.append(bytes(d))
    return c
def unmask(frame):
    n = frame[1] & 0x7f; key = frame[2:6]; body = frame[6:6+n]
    return bytes(b ^ key[i %% 4] for i, b in enumerate(body)) if frame[1] & 0x80 else frame[2:2+n]
which = %r
bad = []
if which == 'safety':
    frame = bytes([0x81, 5]) + b'Hello'
    for cut in range(1, len(frame)):
        c = codec()
        try:
            m1 = c._parse_messages(bytearray(frame[:cut])); m2 = c._parse_messages(bytearray(frame[cut:]))
            if (m1 or []) + (m2 or []) != ['Hello']: bad.append('cut at %%d: got %%r' %% (cut, (m1, m2)))
        except Exception as e:
            bad.append('cut at %%d: %%r' %% (cut, e))
    long = bytes([0x82, 126, 0, 200]) + bytes(200)
    for cut in (2, 3):
        c = codec()
        try:
            c._parse_messages(bytearray(long[:cut])); m = c._parse_messages(bytearray(long[cut:]))
            if m != [bytearray(200)]: bad.append('extended length cut at %%d: %%r' %% (cut, m))
        except Exception as e:
            bad.append('extended length cut at %%d: %%r' %% (cut, e))
elif which == 'ping':
    c = codec()
    c._parse_messages(bytearray(bytes([0x01, 2]) + b'He'))
    c._parse_messages(bytearray(bytes([0x89, 1]) + b'p'))
    pongs = [o for o in c.out if isinstance(o, bytes)]
    if not pongs or unmask(pongs[0]) != b'p': bad.append('pong for ping "p" inside fragment "He" carries %%r' %% ([unmask(p) for p in pongs],))
    m = c._parse_messages(bytearray(bytes([0x80, 3]) + b'llo'))
    if m != ['Hello']: bad.append('fragmented message disturbed by the ping: %%r' %% (m,))
elif which == 'lost':
    c = codec(); c._close_sent = True
    m = c._parse_messages(bytearray(bytes([0x81, 2]) + b'hi' + bytes([0x89, 0])))
    if m != ['hi']: bad.append('text frame followed by a ping after close was sent: returned %%r' %% (m,))
else:
    c = codec(%r.encode('latin-1')); c._buffer = bytearray(%r.encode('latin-1'))
    try:
        c._parse_messages(bytearray(%r.encode('latin-1')))
    except Exception as e:
        bad.append('counter-model input raised %%r' %% (e,))
for b in bad: print(b)
sys.exit(1 if bad else 0)
''' % (which, pend, buf, data)


SPECS.append(FucSpec(
    'C17', FILE, 'WebSocketCodec._parse_messages', pm_setup2, pm_post, fields=W_FIELDS,
    calls={'self.fire': s_fire, 'self._write': s_write, 'self._encode_tail': s_encode_tail, 'close': lambda I, r, a, k: VCons('close', a)},
    loops={0: LoopSpec(inv=[('true', lambda I: z3.BoolVal(True))], modular=True, kinds={'msgs': List(Any)}, entry_hook=pm_entry,
                       body_hook=pm_body_hook, iter_hook=pm_iter_hook, frame_fields=['_sock', 'parent', '_close_sent']),
           2: LoopSpec(inv=[('unmasked_prefix', xor_loop_inv)])},
    cover=['frame_consumed', 'need_more', 'close_frame', 'pong'], replay=pm_replay, opts={'timeout_ms': 40000},
    clause='_parse_messages: no exception for any bytes; stash discipline (only stash+data is read; an incomplete frame is kept whole '
           'and nothing else changes); a complete frame consumes exactly its own bytes and is decoded from them alone; fragments '
           'accumulate with the type of the first; control frames leave a pending message alone; ping -> one pong with the same payload; '
           'close -> flag, one close event, nothing delivered afterwards'))


# ----------------------------------------------------------------------------- _encode_tail
def et_setup(masked):
    def setup(I):
        self = obj(I, 'self', 'WebSocketCodec')
        data = sym(I, 'data', Bytes)
        bytes_wf(I, data.t)
        I.st.inputs['len'] = z3.Length(data.t)
        return {'self': self, 'data': data, 'mask': VBool(masked)}
    return setup


def s_urandom(I, recv, args, kw):
    I.st.trusted_used.add('os.urandom(4): four arbitrary bytes')
    k = core.fresh('masking_key', S())
    I.assume(z3.Length(k) == 4)
    bytes_wf(I, k)
    I.st.ghost['KEY'] = k
    return VStr(k, True)


def enc_len_spec(n, masked):
    """spec: the length bytes of a frame for payload length n"""
    m = 128 if masked else 0
    c = z3.StrFromCode
    small = c(n + m)
    mid = z3.Concat(c(z3.IntVal(126 + m)), c(n / 256), c(n % 256))
    parts = [c(z3.IntVal(127 + m))]
    for k in range(7, -1, -1):
        parts.append(c((n / (256 ** k)) % 256))
    big = z3.Concat(*parts)
    return z3.If(n <= 125, small, z3.If(n <= 65535, mid, big))


def et_post(masked):
    def post(I, outcome, ctx):
        kind, v = outcome
        if kind == 'raise':
            I.oblige('no_escape', z3.BoolVal(False), detail='escaping %s' % v.cls)
            return
        cover(I, 'return')
        data = ctx['args']['data'].t
        n = z3.Length(data)
        I.assume(n < 2 ** 63, 'requires payload length fits the 8-byte length field')
        hdr = enc_len_spec(n, masked)
        t = v.t
        if not masked:
            I.oblige('ensures.length_bytes_then_payload', t == z3.Concat(hdr, data),
                     detail='one of the three length encodings (7 bit / 16 bit / 64 bit big-endian) followed by the payload, exactly')
        else:
            key = I.st.ghost['KEY']
            hl = z3.Length(hdr)
            if I.st.ghost.get('MASKED_ARR') is not None:
                I.assume(z3.Length(lib.A2B(I.st.ghost['MASKED_ARR'], z3.IntVal(0), n)) == n, 'length of A2B(a, 0, n) is n')
            I.oblige('ensures.masked.length_bytes_and_key', z3.And(z3.PrefixOf(z3.Concat(hdr, key), t), z3.Length(t) == hl + 4 + n))
            M = I.st.ghost.get('MASKED_ARR')
            I.oblige('ensures.masked.payload_xor_key', z3.BoolVal(M is not None) if M is None else
                     t == z3.Concat(hdr, key, lib.A2B(M, z3.IntVal(0), n)),
                     detail='tail = length bytes + key + bytes(data[j] ^ key[j % 4] for j)')
    return post


def et_M(I):
    return I.st.ghost['MASKED_ARR']


def et_loop_inv(I):
    """masking loop: tail = (length bytes + key) + the first k masked bytes, where M[j] = data[j] ^ key[j % 4]"""
    tail = I.local('tail').t
    it = I.local('__iter1')
    k = I.local('__idx1').t
    base = I.st.ghost['TAIL_BASE']
    return z3.And(it.lo == 0, tail == z3.Concat(base, lib.A2B(et_M(I), z3.IntVal(0), k)))


def et_loop_entry(I):
    g = I.st.ghost
    g['TAIL_BASE'] = I.local('tail').t
    key = I.local('masking_key').t
    data = I.local('data').t
    M = core.fresh('masked_arr', z3.ArraySort(z3.IntSort(), z3.IntSort()))
    j = core.fresh('j', z3.IntSort())
    I.assume(z3.ForAll([j], z3.Implies(j >= 0, z3.Select(M, j) == XOR(z3.Select(lib.B2A(data), j), byte(key, j % 4)))), 'ghost M = data xor key')
    I.assume(lib.A2B(M, z3.IntVal(0), z3.IntVal(0)) == z3.StringVal(''), 'A2B of an empty window is empty')
    g['MASKED_ARR'] = M


def et_iter_lemma(I):
    """unfold lemma of A2B at the position just written: A2B(a, 0, k+1) = A2B(a, 0, k) ++ chr(a[k])"""
    M = et_M(I)
    k1 = I.local('__idx1').t
    k = k1 - 1
    I.assume(lib.A2B(M, z3.IntVal(0), k1) == z3.Concat(lib.A2B(M, z3.IntVal(0), k), z3.StrFromCode(z3.Select(M, k))), 'A2B unfold')


for masked in (False, True):
    SPECS.append(FucSpec(
        'C17', FILE, 'WebSocketCodec._encode_tail', et_setup(masked), et_post(masked), name='_encode_tail[%s]' % ('masked' if masked else 'unmasked'),
        fields=W_FIELDS, calls={'os.urandom': s_urandom},
        loops={1: LoopSpec(inv=[('masked_prefix', et_loop_inv)], entry_hook=et_loop_entry, iter_hook=et_iter_lemma)}, cover=['return'],
        clause='_encode_tail(data, mask=%s) = length bytes (three encodings, MASK bit)%s + %spayload'
               % (masked, ' + key' if masked else '', 'key-XORed ' if masked else '')))


# ----------------------------------------------------------------------------- xor involution (complete finite check) and round trip
def xor_table(res, opts):
    bad = [(a, k) for a in range(256) for k in range(256) if (a ^ k) ^ k != a or not 0 <= a ^ k <= 255]
    add_ob(res, 'xor8.involution_and_range.all_65536_pairs', not bad, 'exhaustive(complete)', detail='(a^k)^k == a and 0 <= a^k <= 255 for all bytes a, k')


SPECS.append(CustomCheck('C17', 'xor8(lemma)', xor_table, clause='XOR on bytes is an involution: unmask(mask(d, key), key) = d (complete table)'))


def rt_setup(masked):
    def setup(I):
        self = obj(I, 'self', 'WebSocketCodec')
        I.st.uses_any = True
        payload = sym(I, 'payload', Bytes)
        bytes_wf(I, payload.t)
        n = z3.Length(payload.t)
        I.assume(n <= 65535, 'case: 7-bit and 16-bit length forms (the 64-bit form is covered by the bit-vector lemma big_endian64)')
        hdr = enc_len_spec(n, masked)
        first = z3.StrFromCode(z3.IntVal(0x82))
        if masked:
            key = core.fresh('key', S())
            I.assume(z3.Length(key) == 4)
            bytes_wf(I, key)
            body = core.fresh('masked_body', S())
            i = core.fresh('i', z3.IntSort())
            I.assume(z3.Length(body) == n)
            I.assume(z3.ForAll([i], z3.Implies(z3.And(0 <= i, i < n), byte(body, i) == XOR(byte(payload.t, i), byte(key, i % 4)))),
                     'the frame is what _encode_tail(payload, mask=True) produces (its contract)')
            a, k = core.fresh('a', z3.IntSort()), core.fresh('k', z3.IntSort())
            I.assume(z3.ForAll([a, k], z3.Implies(z3.And(0 <= a, a <= 255, 0 <= k, k <= 255), z3.And(XOR(XOR(a, k), k) == a, XOR(a, k) >= 0, XOR(a, k) <= 255))),
                     'lemma xor8 (complete table)')
            frame = z3.Concat(first, hdr, key, body)
        else:
            frame = z3.Concat(first, hdr, payload.t)
        I.assume(z3.And(I.fz(self, '_buffer') == z3.StringVal(''), I.fz(self, '_pending_payload') == z3.StringVal(''),
                        I.field(self, '_pending_type').isnone, z3.Not(I.fz(self, '_close_received'))), 'a fresh decoder')
        I.st.ghost['PAYLOAD'] = payload.t
        I.st.ghost['READS'] = []
        data = VStr(frame, True)
        I.st.ghost['BUF0'] = I.fz(self, '_buffer')
        I.st.ghost['DATA0'] = frame
        I.st.ghost['FRAMELEN'] = z3.Length(frame)
        return {'self': self, 'data': data}
    return setup


def rt_post(I, outcome, ctx):
    kind, v = outcome
    if kind == 'raise':
        I.oblige('no_escape', z3.BoolVal(False), detail='escaping %s' % v.cls)
        return
    cover(I, 'return')


def rt_iter(I):
    """the single binary frame is consumed in the first iteration and yields exactly the payload"""
    msgs = I.local('msgs')
    cover(I, 'decoded')
    I.oblige('roundtrip.one_message', msgs.hi - msgs.lo == I.st.ghost['N0'] + 1)
    I.oblige('roundtrip.payload_recovered_exactly', z3.Select(msgs.arrs[0], msgs.hi - 1) == core.fn('any_of_bytes', S(), core.AnySort())(I.st.ghost['PAYLOAD']),
             detail='decode(encode(d)) = d for every length form' + ' and every masking key')
    I.oblige('roundtrip.nothing_left', I.local('data').t == z3.StringVal(''))


def rt_body(I):
    m = I.local('msgs')
    I.st.ghost['N0'] = msgs_len(m)
    # first iteration: data is the whole frame (the modular context havocs it; pin it to the frame under test)
    I.assume(I.local('data').t == I.st.ghost['DATA0'])
    self = I.local('self')
    I.assume(z3.And(I.fz(self, '_pending_payload') == z3.StringVal(''), I.field(self, '_pending_type').isnone))


for masked in (False,):
    SPECS.append(FucSpec(
        'C17', FILE, 'WebSocketCodec._parse_messages', rt_setup(masked), rt_post, name='roundtrip[%s]' % ('masked' if masked else 'unmasked'),
        fields=W_FIELDS, calls={'self.fire': s_fire, 'self._write': s_write, 'self._encode_tail': s_encode_tail, 'close': lambda I, r, a, k: VCons('close', a)},
        loops={0: LoopSpec(inv=[('true', lambda I: z3.BoolVal(True))], modular=True, kinds={'msgs': List(Any)}, body_hook=rt_body, iter_hook=rt_iter,
                           frame_fields=['_sock', 'parent', '_close_sent']),
               2: LoopSpec(inv=[('unmasked_prefix', xor_loop_inv)])},
        cover=['decoded'],
        clause='round trip: a binary frame built as 0x82 + _encode_tail(d%s) is decoded to exactly d, for all three length encodings%s'
               % (', mask=True' if masked else '', ' and every key' if masked else '')))


# ----------------------------------------------------------------------------- _on_write / _on_close
def ow_setup(I):
    self = obj(I, 'self', 'WebSocketCodec')
    I.assume(I.field(self, '_sock').t == core.null(), 'case: client side codec (no server socket); the server side differs only in the socket filter')
    kind = I.st.choice(2, 'payload_kind')
    data = sym(I, 'data', Str if kind == 0 else Bytes)
    I.st.ghost['KIND'] = kind
    return {'self': self, 'args': VTuple([data])}


def ow_post(I, outcome, ctx):
    kind, v = outcome
    if kind == 'raise':
        I.oblige('no_escape', z3.BoolVal(False), detail='escaping %s' % v.cls)
        return
    cover(I, 'return')
    self = ctx['args']['self']
    written = log(I, 'WRITTEN')
    sent = I.fz(self, '_close_sent')
    I.oblige('nothing_sent_after_close', z3.Implies(sent, z3.BoolVal(len(written) == 0)))
    I.oblige('one_frame_per_message', z3.Implies(z3.Not(sent), z3.BoolVal(len(written) == 1)))
    if written:
        d = ctx['args']['args'].items[0]
        k = I.st.ghost['KIND']
        payload = core.fn('py_encode', S(), S())(d.t) if k == 0 else d.t
        first = 0x81 if k == 0 else 0x82
        I.oblige('frame_is_fin_opcode_tail', written[0].t == z3.Concat(z3.StrFromCode(z3.IntVal(first)), TAIL(payload, z3.BoolVal(True))),
                 detail='FIN + text/binary opcode, then _encode_tail of the (utf-8 encoded) payload')


def s_bytearray(I, recv, args, kw):
    if not args:
        return VStr(b'')
    a = args[0]
    if isinstance(a, VStr) and not a.is_bytes:
        return VStr(core.fn('py_encode', S(), S())(a.t), True)
    return a


SPECS.append(FucSpec(
    'C17', FILE, 'WebSocketCodec._on_write', ow_setup, ow_post, fields=W_FIELDS,
    calls={'self._write': s_write, 'self._encode_tail': s_encode_tail, 'bytearray': s_bytearray}, cover=['return'],
    clause='write handler: nothing after a close was sent; otherwise exactly one frame FIN|opcode(text/binary) + _encode_tail(payload)'))


def oc_setup(I):
    self = obj(I, 'self', 'WebSocketCodec')
    I.assume(I.field(self, '_sock').t == core.null())
    I.assume(I.field(self, 'parent').t != core.null(), 'the codec is registered (has a parent)')
    return {'self': self, 'args': VTuple([])}


def oc_post(I, outcome, ctx):
    kind, v = outcome
    if kind == 'raise':
        I.oblige('no_escape', z3.BoolVal(False), detail='escaping %s' % v.cls)
        return
    cover(I, 'return')
    self, pre = ctx['args']['self'], ctx['pre']
    sent0 = z3.Select(pre['_close_sent'][0], self.t)
    written, fired = log(I, 'WRITTEN'), log(I, 'FIRED')
    I.oblige('close_frame_sent_once', z3.BoolVal(len(written) == 1) == z3.Not(sent0))
    I.oblige('close_sent_recorded', I.fz(self, '_close_sent'))
    for w in written:
        I.oblige('close_frame_bytes', w.t == z3.StringVal('\x88\x00') if False else w.t == z3.Concat(z3.StrFromCode(z3.IntVal(0x88)), z3.StrFromCode(z3.IntVal(0))))
    I.oblige('transport_closed_iff_handshake_complete', z3.BoolVal(len(fired) == 1) == I.fz(self, '_close_received'))


SPECS.append(FucSpec(
    'C17', FILE, 'WebSocketCodec._on_close', oc_setup, oc_post, fields=W_FIELDS,
    calls={'self._write': s_write, 'self.fire': s_fire, 'close': lambda I, r, a, k: VCons('close', a)}, cover=['return'],
    clause='close handler: the close frame 0x88 0x00 is sent exactly once; the transport is closed once both sides have sent close'))


def roundtrip_lemmas(res, opts):
    """lemmas over the contracts of _encode_tail and _parse_messages (decided by z3 in the theories where they are easy)"""
    import time as _t
    t0 = _t.time()
    # 1. 64-bit big-endian: decoding the 8 length bytes the encoder writes gives the length back (bit-vector theory)
    n = z3.BitVec('n', 64)
    dec = z3.BitVecVal(0, 64)
    for k in range(7, -1, -1):
        b = z3.ZeroExt(56, z3.Extract(7, 0, z3.LShR(n, 8 * k)))           # data_length >> (i * 8) & 0xFF
        dec = dec * 256 + b                                                 # payload_length * 256 + data[offset]
    s = z3.Solver()
    s.set('timeout', 60000)
    s.add(dec != n)
    r = s.check()
    add_ob(res, 'big_endian64.decode_of_encode_is_identity', r == z3.unsat, 'z3(bit-vectors)', detail='for all 64-bit lengths', secs=_t.time() - t0)
    t1 = _t.time()
    b1 = z3.BitVec('n16', 16)
    hi, lo = z3.ZeroExt(8, z3.Extract(15, 8, b1)), z3.ZeroExt(8, z3.Extract(7, 0, b1))
    s = z3.Solver()
    s.add(hi * 256 + lo != b1)
    add_ob(res, 'big_endian16.decode_of_encode_is_identity', s.check() == z3.unsat, 'z3(bit-vectors)', detail='for all 16-bit lengths', secs=_t.time() - t1)
    # 2. masked: the decoder's payload[i] = X(raw[i], key[i%4]) composed with the encoder's raw[i] = X(d[i], key[i%4]) gives d[i]
    t2 = _t.time()
    X = z3.Function('xor8', z3.IntSort(), z3.IntSort(), z3.IntSort())
    d, raw, pay = [z3.Array(nm, z3.IntSort(), z3.IntSort()) for nm in ('d', 'raw', 'payload')]
    key = z3.Array('key', z3.IntSort(), z3.IntSort())
    i, a, k, ln = z3.Int('i'), z3.Int('a'), z3.Int('k'), z3.Int('len')
    byte_ = lambda v: z3.And(0 <= v, v <= 255)   # noqa: E731
    s = z3.Solver()
    s.set('timeout', 60000)
    s.add(z3.ForAll([a, k], z3.Implies(z3.And(byte_(a), byte_(k)), X(X(a, k), k) == a)))                   # lemma xor8 (table)
    s.add(z3.ForAll([i], z3.Implies(z3.And(0 <= i, i < ln), z3.And(byte_(z3.Select(d, i)), byte_(z3.Select(key, i % 4))))))
    s.add(z3.ForAll([i], z3.Implies(z3.And(0 <= i, i < ln), z3.Select(raw, i) == X(z3.Select(d, i), z3.Select(key, i % 4)))))     # _encode_tail.ensures
    s.add(z3.ForAll([i], z3.Implies(z3.And(0 <= i, i < ln), z3.Select(pay, i) == X(z3.Select(raw, i), z3.Select(key, i % 4)))))   # _parse_messages spec payload
    j = z3.Int('j')
    s.add(0 <= j, j < ln, z3.Select(pay, j) != z3.Select(d, j))
    add_ob(res, 'masked.decode_of_encode_is_identity', s.check() == z3.unsat, 'z3', detail='for every payload and every masking key', secs=_t.time() - t2)


SPECS.append(CustomCheck('C17', 'roundtrip(lemmas)', roundtrip_lemmas,
                         clause='decode(encode(d)) = d: big-endian length fields are inverse (16 and 64 bit, bit-vector proof); masked payloads '
                                'round-trip by the XOR involution composed with the two contracts'))

"""C15 (response framing) and C14 (any bytes: wait or one error response, tables released) for circuits/web/http.py and
circuits/web/wrappers.py.

Ghost WIRE = the payloads of the write(sock, .) events fired, in order; CLOSED = close(sock) fired.
Spec functions: STATUSLINE(res), HEADERS(res) (opaque header text, bounded elsewhere), HEX(n) = hex(n)[2:],
FLAT(body) = concatenation of the body parts.
"""
import z3
from pyvc.core import *  # noqa
from pyvc import core, lib
from pyvc.contract import FucSpec, LoopSpec, sym, obj, cover, uf, noop

SPECS = []
HTTP = 'circuits/web/http.py'
WRAP = 'circuits/web/wrappers.py'
S = z3.StringSort
CRLF = z3.StringVal('\r\n')
TERMINATOR = z3.StringVal('0\r\n\r\n')

H_FIELDS = {
    'request': Ref, 'sock': Ref, 'chunked': Bool, '_body': Ref, 'done': Bool, 'close': Bool, 'stream': Bool, 'method': Str,
    '_clients': Dict(Ref, Tup(Ref, Ref)), '_buffers': Dict(Ref, Ref), '_encoding': Str, '_server': Ref, 'headers': Ref,
    'G_body_list': List(Bytes), 'G_body_kind': Int, 'protocol': Str, 'r_protocol': Tup(Int, Int), 'encoding': Str, 'server': Ref, '_status': Int,
    'cookie': Ref, 'secure': Bool, 'G_last_chunk': Bytes,      # ghost: the value next(res.body) returned last
}


def log(I, n):
    return I.st.ghost.setdefault(n, [])


def HEX(n):
    return z3.SubString(core.fn('py_hex', z3.IntSort(), S())(n), 2, z3.Length(core.fn('py_hex', z3.IntSort(), S())(n)) - 2)


def ENC(t):
    return core.fn('py_encode', S(), S())(t)


def s_fire(I, recv, args, kw):
    e = args[0]
    log(I, 'FIRED').append(e)
    if isinstance(e, VCons) and e.tag == 'write':
        log(I, 'WIRE').append(e.args[1])
    return I.st.fresh_ref('Value')


def ev(tag):
    return lambda I, r, a, k: VCons(tag, a, k)


EVS = {n: ev(n) for n in ('write', 'close', 'stream', 'response', 'httperror', 'request', 'redirect', 'notfound')}


def no_escape(I, outcome, allowed=()):
    kind, v = outcome
    if kind == 'raise':
        cover(I, 'raise')
        I.oblige('no_escape', z3.BoolVal(v.cls in allowed), detail='escaping %s' % v.cls)
        return True
    return False


class BodyIter(VModel):
    """res.body for streamed responses: an iterator (generator / file) that is truthy"""

    def truthy(self, I):
        return z3.BoolVal(True)

    def getattr(self, I, name):
        if name == 'close':
            return VFunc('close', impl=lambda I2, b, a, k: (log(I2, 'BODY_CLOSED').append(1), NONE)[1])
        raise Unsupported('body.' + name)


def s_next_body(I, recv, args, kw):
    """next(res.body): some str/bytes chunk (possibly empty) or StopIteration"""
    c = I.st.choice(2, 'next_body')
    if c == 1:
        lib.raise_(I, 'StopIteration')
    t = core.fresh('chunk', S())
    log(I, 'CHUNKS').append(t)
    res = I.local('res') if I.frame.has('res') else None
    if isinstance(res, VRef) and 'G_last_chunk' in I.st.fields:
        I.st.write_field(res.t, 'G_last_chunk', VStr(t, True))
    return VStr(t, True)


# ============================================================================= _on_stream
def os_setup(I):
    self = obj(I, 'self', 'HTTP')
    res = obj(I, 'res', 'Response')
    req = I.field(res, 'request')
    I.assume(z3.And(req.t != core.null(), I.field(req, 'sock').t != core.null()))
    kind = I.st.choice(2, 'data_kind')
    if kind == 0:
        data = sym(I, 'data', Bytes)
        I.assume(z3.Length(data.t) > 0, 'requires a data chunk is non-empty (a zero-length chunk would be the chunked terminator); '
                                       'obligation stream.requires.nonempty at the call sites')
    else:
        data = NONE
    I.st.ghost['DATA'] = data
    return {'self': self, 'res': res, 'data': data}


def os_post(I, outcome, ctx):
    if no_escape(I, outcome):
        return
    cover(I, 'return')
    a, pre = ctx['args'], ctx['pre']
    self, res = a['self'], a['res']
    data = I.st.ghost['DATA']
    wire, fired = log(I, 'WIRE'), log(I, 'FIRED')
    sock = I.field(I.field(res, 'request'), 'sock')
    chunked = z3.Select(pre['chunked'][0], res.t)
    closes = [e for e in fired if e.tag == 'close']
    streams = [e for e in fired if e.tag == 'stream']
    if isinstance(data, VNone):
        cover(I, 'end_of_stream')
        I.oblige('end.terminator_iff_chunked', z3.And(z3.BoolVal(len(wire) <= 1), z3.BoolVal(len(wire) == 1) == chunked,
                                                      *[w.t == TERMINATOR for w in wire]))
        I.oblige('end.close_iff_announced', z3.BoolVal(len(closes) == 1) == z3.Select(pre['close'][0], res.t),
                 detail='the connection is closed iff the response announced it')
        I.oblige('end.response_done', I.fz(res, 'done'))
        I.oblige('end.client_entry_released', z3.Not(z3.Select(I.field(self, '_clients').dom, sock.t)))
        I.oblige('end.no_further_stream_event', z3.BoolVal(len(streams) == 0))
    else:
        cover(I, 'chunk')
        I.oblige('chunk.one_write', z3.BoolVal(len(wire) == 1))
        if wire:
            d = data.t
            framed = z3.Concat(ENC(HEX(z3.Length(d))), CRLF, d, CRLF)
            I.oblige('chunk.framing', wire[0].t == z3.If(chunked, framed, d),
                     detail='chunked: hex(len) CRLF data CRLF; otherwise the raw bytes')
        chunks = log(I, 'CHUNKS')
        for s_ in streams:
            nxt = s_.args[1]
            cover(I, 'next')
            # each piece of the body is written exactly once: what is handed on is what the body iterator produced AFTER this
            # piece (or the end marker), never the piece just written
            I.oblige('chunk.follow_up_carries_the_next_piece_of_the_body',
                     z3.BoolVal(True) if isinstance(nxt, VNone) else (z3.BoolVal(False) if not chunks else nxt.t == I.fz(res, 'G_last_chunk')),
                     detail='the stream event fired after a write must carry the value next(res.body) returned last (pieces fetched: %d)' % len(chunks))
            I.oblige('chunk.next_chunk_is_nonempty_or_end', z3.BoolVal(isinstance(nxt, VNone)) if isinstance(nxt, VNone) else z3.Length(nxt.t) > 0,
                     detail='stream.requires.nonempty: empty strings yielded by the body are skipped')
        I.oblige('chunk.at_most_one_follow_up', z3.BoolVal(len(streams) <= 1))
        I.oblige('chunk.not_finished_here', z3.BoolVal(len(closes) == 0))


STREAM_CALLS = dict(EVS)
STREAM_CALLS.update({'self.fire': s_fire, 'next': s_next_body, 'hex': None})
del STREAM_CALLS['hex']


def while_skip_inv(I):
    # the skip loop only ever holds what the body iterator returned last
    d = I.local('data')
    res = I.local('res')
    if isinstance(d, VStr) and 'G_last_chunk' in I.st.fields:
        return d.t == I.fz(res, 'G_last_chunk')
    return z3.BoolVal(True)


SPECS.append(FucSpec(
    'C15', HTTP, 'HTTP._on_stream', os_setup, os_post, fields=H_FIELDS, calls=STREAM_CALLS,
    attr_hooks={'res.body': lambda I: BodyIter()},
    loops={0: LoopSpec(inv=[('data_is_the_piece_fetched_last', while_skip_inv)], kinds={'data': Bytes}, havoc_fields=['G_last_chunk'])}, cover=['return', 'chunk', 'end_of_stream', 'next'],
    clause='_on_stream: a data chunk is written as hex(len) CRLF data CRLF when chunked (raw otherwise) and the next non-empty chunk '
           '(or the end) is scheduled; the end writes the terminator iff chunked, closes iff announced, marks the response done and '
           'releases the client entry'))


# ============================================================================= _on_response
def STATUSLINE(res):
    return core.fn('STATUSLINE', core.RefSort(), S())(res)


def HEADERS(h):
    return core.fn('HEADERS_BYTES', core.RefSort(), S())(h)


def s_bytes(I, recv, args, kw):
    (o,) = args
    if isinstance(o, VRef):
        if o.cls == 'Response':
            return VStr(STATUSLINE(o.t), True)
        return VStr(HEADERS(o.t), True)
    from pyvc.interp import BUILTINS
    return BUILTINS['bytes'](I, args, kw)


def s_prepare(I, recv, args, kw):
    """contract of Response.prepare() (verified below): decides the framing flags; body untouched"""
    log(I, 'PREPARED').append(recv)
    I.st.havoc_field('chunked')
    I.st.havoc_field('close')
    return NONE


class BodyList(VModel):
    """res.body for sized responses: the list of byte strings kept in ghost G_body_list"""

    def __init__(self, res):
        self.res = res


def body_hook(I):
    res = I.local('res')
    kind = I.st.ghost['BODY_KIND']
    if kind == 'stream':
        return BodyIter()
    lst = I.st.read_field(res.t, 'G_body_list')
    I.assume(lst.lo <= lst.hi)
    return lst


def orp_setup(I):
    self = obj(I, 'self', 'HTTP')
    res = obj(I, 'res', 'Response')
    req = I.field(res, 'request')
    I.assume(z3.And(req.t != core.null(), I.field(req, 'sock').t != core.null(), I.field(res, 'headers').t != core.null()))
    k = I.st.choice(2, 'body_kind')
    I.st.ghost['BODY_KIND'] = 'stream' if k == 1 else 'list'
    I.assume(I.fz(res, 'stream') == z3.BoolVal(k == 1), 'Body.__set__: stream flag set exactly for file-like bodies; generator bodies are '
             'streamed when the application sets stream')
    I.st.inputs['method'] = I.fz(req, 'method')
    I.st.inputs['status'] = I.fz(res, '_status')
    I.assume(z3.And(I.fz(res, '_status') >= 100, I.fz(res, '_status') <= 599), 'requires a valid HTTP status (HTTPStatus)')
    return {'self': self, 'res': res}


def bodyless(status):
    return z3.Or(z3.And(status >= 100, status < 200), status == 204, status == 304)


def orp_post(I, outcome, ctx):
    if no_escape(I, outcome):
        return
    cover(I, 'return')
    a, pre = ctx['args'], ctx['pre']
    self, res = a['self'], a['res']
    req = I.field(res, 'request')
    sock = I.field(req, 'sock')
    wire, fired = log(I, 'WIRE'), log(I, 'FIRED')
    closes = [e for e in fired if e.tag == 'close']
    streams = [e for e in fired if e.tag == 'stream']
    head = I.fz(req, 'method') == z3.StringVal('HEAD')
    status = I.fz(res, '_status')
    I.oblige('prepared_first', z3.BoolVal(len(log(I, 'PREPARED')) == 1))
    I.oblige('head_written_first', z3.And(z3.BoolVal(len(wire) >= 1), *([wire[0].t == z3.Concat(STATUSLINE(res.t), HEADERS(I.field(res, 'headers').t))] if wire else [])),
             detail='status line + headers, in one write, before anything else')
    chunked, close_ = I.fz(res, 'chunked'), I.fz(res, 'close')
    if I.st.ghost['BODY_KIND'] == 'list':
        body = lib.flat(I.field(res, 'G_body_list'))
        nobody = z3.Or(head, bodyless(status))
        bw = wire[1:]
        I.oblige('no_body_for_HEAD_1xx_204_304', z3.Implies(nobody, z3.BoolVal(len(bw) == 0)),
                 detail='HEAD, 1xx, 204 and 304 responses carry no body')
        if bw:
            cover(I, 'body')
            framed = z3.Concat(ENC(HEX(z3.Length(body))), CRLF, body, CRLF)
            I.oblige('body_bytes_exact', bw[0].t == z3.If(chunked, framed, body), detail='the body bytes the application produced, framed when chunked')
            I.oblige('chunked_body_terminated_once', z3.And(z3.BoolVal(len(bw) == 1) == z3.Not(chunked), z3.BoolVal(len(bw) <= 2),
                                                            *[w.t == TERMINATOR for w in bw[1:]]))
        else:
            I.oblige('empty_body_writes_nothing', z3.Or(nobody, z3.Length(body) == 0))
        I.oblige('connection_closed_iff_announced', z3.BoolVal(len(closes) == 1) == close_,
                 detail='HEAD included: the connection is closed iff the response announces it')
        I.oblige('response_done', I.fz(res, 'done'))
        I.oblige('client_entry_released', z3.Not(z3.Select(I.field(self, '_clients').dom, sock.t)))
    else:
        cover(I, 'streamed')
        if streams:
            nxt = streams[0].args[1]
            I.oblige('stream.requires.nonempty', z3.BoolVal(True) if isinstance(nxt, VNone) else z3.Length(nxt.t) > 0,
                     detail='the first chunk handed to _on_stream must be non-empty (an empty one is framed as the terminator)')
        nobody = z3.Or(head, bodyless(status))
        I.oblige('streamed_response_continues_unless_bodyless', z3.BoolVal(len(streams) == 1) == z3.Not(nobody))
        I.oblige('bodyless_streamed_response_is_finished', z3.Implies(nobody, z3.And(I.fz(res, 'done'), z3.BoolVal(len(closes) == 1) == close_,
                                                                                    z3.BoolVal(len(wire) == 1))))


def orp_replay(model, ob):
    name = ob['name']
    which = 'empty_chunk' if 'nonempty' in name else 'bodyless' if 'no_body' in name else 'head'
    return '''
import sys, socket, threading, time
from circuits import Component, handler
from circuits.web import Controller, Server
which = %r
def gen():
    yield ''
    yield 'data'
class Root(Controller):
    def index(self):
        if which == 'empty_chunk':
            self.response.stream = True
            self.response.body = gen()
            return self.response
        if which == 'bodyless':
            self.response.status = 204
            return 'must not be sent'
        return 'hello'
srv = Server(('127.0.0.1', 0)) + Root()
t = threading.Thread(target=srv.run, daemon=True); t.start()
for _ in range(100):
    if srv.port: break
    time.sleep(0.05)
time.sleep(0.3)
s = socket.create_connection(('127.0.0.1', srv.port)); s.settimeout(2)
if which == 'head':
    s.sendall(b'HEAD / HTTP/1.1\\r\\nHost: x\\r\\nConnection: close\\r\\n\\r\\n')
else:
    s.sendall(b'GET / HTTP/1.1\\r\\nHost: x\\r\\n\\r\\n')
data = b''; closed = False
try:
    while True:
        c = s.recv(65536)
        if not c: closed = True; break
        data += c
        if len(data) > 20000: break
except socket.timeout:
    pass
import os
head, _, body = data.partition(b'\\r\\n\\r\\n')
print(head.split(b'\\r\\n')[0], 'body bytes:', body[:200], 'closed by server:', closed)
bad = False
if which == 'empty_chunk': bad = body.startswith(b'0\\r\\n\\r\\n') and b'data' in body
if which == 'head': bad = b'Connection: close' in head and not closed
if which == 'bodyless': bad = body != b''
if bad: print('REPRODUCED')
sys.stdout.flush()
os._exit(1 if bad else 0)
''' % which


RESP_CALLS = dict(EVS)
RESP_CALLS.update({'self.fire': s_fire, 'next': s_next_body, 'res.prepare': s_prepare, 'bytes': s_bytes})

SPECS.append(FucSpec(
    'C15', HTTP, 'HTTP._on_response', orp_setup, orp_post, fields=H_FIELDS, calls=RESP_CALLS,
    attr_hooks={'res.body': body_hook, 'res.status': lambda I: VInt(I.fz(I.local('res'), '_status'))},
    loops={0: LoopSpec(inv=[('true', while_skip_inv)], kinds={'data': Bytes})},
    cover=['return', 'body', 'streamed'], replay=orp_replay,
    clause='_on_response: status line + headers first; HEAD/1xx/204/304 carry no body; a sized body is written exactly (hex framing + '
           'one terminator when chunked); close iff announced, response done and client entry released (HEAD included); a streamed '
           'body starts with a non-empty chunk'))


# ============================================================================= Response.prepare
class HeadersModel(VModel):
    """Headers (case-insensitive dict) with concrete names: ghost python dict name -> Value per path"""

    def __init__(self, d):
        self.d = d

    def contains(self, I, item):
        return z3.BoolVal(item.t.as_string().lower() in self.d)

    def setitem(self, I, k, v):
        self.d[k.t.as_string().lower()] = v

    def getitem(self, I, k):
        return self.d[k.t.as_string().lower()]

    def getattr(self, I, name):
        if name == 'setdefault':
            return VFunc(name, impl=lambda I2, b, a, k: self.d.setdefault(a[0].t.as_string().lower(), a[1]))
        if name == 'add_header':
            return VFunc(name, impl=lambda I2, b, a, k: (self.d.__setitem__(a[0].t.as_string().lower(), a[1]), NONE)[1])
        if name == 'get':
            return VFunc(name, impl=lambda I2, b, a, k: self.d.get(a[0].t.as_string().lower(), a[1] if len(a) > 1 else NONE))
        raise Unsupported('headers.' + name)


def pr_setup(I):
    self = obj(I, 'self', 'Response')
    req = I.field(self, 'request')
    I.assume(req.t != core.null())
    hd = {}
    if I.st.choice(2, 'app_set_content_length') == 1:
        hd['content-length'] = VStr(core.fresh('app_cl', S()))
    if I.st.choice(2, 'app_set_connection') == 1:
        hd['connection'] = VStr(core.fresh('app_conn', S()))
    I.st.ghost['HDRS'] = HeadersModel(hd)
    k = I.st.choice(2, 'body_kind')
    I.st.ghost['BODY_KIND'] = 'stream' if k == 1 else 'list'
    I.assume(z3.Not(I.fz(self, 'chunked')), 'a fresh response is not chunked')
    I.st.inputs['protocol'] = I.fz(self, 'protocol')
    I.st.inputs['status'] = I.fz(self, '_status')
    I.st.inputs['method'] = I.fz(req, 'method')
    I.st.inputs['close'] = I.fz(self, 'close')
    return {'self': self}


def pr_body_hook(I):
    self = I.local('self')
    if I.st.ghost['BODY_KIND'] == 'stream':
        return BodyIter()
    lst = I.st.read_field(self.t, 'G_body_list')
    I.assume(lst.lo <= lst.hi)
    return body_items(I, self)


class BodyItem(VModel):
    """one element of a list body as an application may build it: None, a bytes object, or a str (which the server encodes when it
    writes the response).  wire = its bytes on the wire; chars = what len() of the item gives (for str: the number of characters,
    which is smaller than the number of bytes as soon as a non-ASCII character occurs)"""

    def __init__(self, tag, wire, chars):
        self.tag, self.wire, self.chars = tag, wire, chars      # tag: 0 None, 1 bytes, 2 str

    def is_none(self, I):
        return self.tag == 0

    def isinstance_of(self, I, name):
        return z3.And(self.tag == (1 if name in ('bytes', 'bytearray') else 2), z3.BoolVal(name in ('bytes', 'bytearray', 'str')))

    def truthy(self, I):
        return z3.And(self.tag != 0, self.chars > 0)

    def getattr(self, I, name):
        if name == 'encode':
            return VFunc('str.encode', impl=lambda I2, b, a, k: VStr(self.wire, True))
        raise Unsupported('attribute %s of a body item' % name)


class _ItemKind(Kind):
    def sorts(self):
        return [z3.IntSort(), S(), z3.IntSort()]

    def wrap(self, terms):
        return BodyItem(*terms)

    def unwrap(self, value, st=None):
        return [value.tag, value.wire, value.chars]

    def __repr__(self):
        return 'BodyItem'


ITEM = _ItemKind()


def body_items(I, self):
    """the list body seen item by item, linked to the wire view G_body_list used by the framing obligations"""
    g = I.st.ghost
    if 'BODY_ITEMS' not in g:
        wires = I.st.read_field(self.t, 'G_body_list')
        tags = core.fresh('item_tag', z3.ArraySort(z3.IntSort(), z3.IntSort()))
        chars = core.fresh('item_len', z3.ArraySort(z3.IntSort(), z3.IntSort()))
        i = core.fresh('bi', z3.IntSort())
        w, t, c = z3.Select(wires.arrs[0], i), z3.Select(tags, i), z3.Select(chars, i)
        I.assume(z3.ForAll([i], z3.And(0 <= t, t <= 2, z3.Implies(t == 0, w == z3.StringVal('')), z3.Implies(t == 1, c == z3.Length(w)),
                                       z3.Implies(t == 2, z3.And(0 <= c, c <= z3.Length(w))))),
                 'body items: None contributes no bytes; len(bytes) is the byte count; len(str) <= number of encoded bytes')
        g['BODY_ITEMS'] = VList(ITEM, [tags, wires.arrs[0], chars], wires.lo, wires.hi)
    return g['BODY_ITEMS']


def s_len_item(I, recv, args, kw):
    v = lib.unopt(I, args[0])
    if isinstance(v, BodyItem):
        return VInt(v.chars)
    from pyvc.interp import BUILTINS
    return BUILTINS['len'](I, args, kw)


def s_sum_len(I, recv, args, kw):
    """sum(len(part) for part in body) = length of the concatenation of the parts (lemma: List.length_flatten, lemmas/Flat.lean)"""
    I.st.trusted_used.add('sum of the lengths of the body parts = length of their concatenation (Lean lemma Flat.length_flat)')
    self = I.local('self')
    v = args[0]
    from pyvc.interp import _LazyComp
    if isinstance(v, _LazyComp) and isinstance(v.it, VList) and v.it.ek is ITEM:
        # map-sum rule: the sum over the items is the byte length of the body iff, ITEM BY ITEM, the generator counts exactly the
        # items that are not None and counts each of them with its number of bytes on the wire
        i, guard, elt, _ = I.comp_symbolic(v.node, v.it)
        it = v.it
        inr = z3.And(it.lo <= i, i < it.hi)
        tag, wire = z3.Select(it.arrs[0], i), z3.Select(it.arrs[1], i)
        e = lib.unopt(I, elt)
        I.oblige('content_length.counts_exactly_the_parts_that_are_written', z3.ForAll([i], z3.Implies(inr, guard == z3.And(inr, tag != 0))),
                 detail='None items are skipped, every other item is counted')
        I.oblige('content_length.counts_every_part_in_bytes_on_the_wire', z3.ForAll([i], z3.Implies(z3.And(inr, tag != 0), e.t == z3.Length(wire))),
                 detail='a str item is written encoded: it must be counted by its encoded length, not by its number of characters')
    else:
        I.oblige('content_length.sum_is_taken_over_the_body_items', z3.BoolVal(False), detail='sum(%r)' % (v,))
    return VInt(z3.Length(lib.flat(I.st.read_field(self.t, 'G_body_list'))))


def pr_post(I, outcome, ctx):
    if no_escape(I, outcome):
        return
    cover(I, 'return')
    self, pre = ctx['args']['self'], ctx['pre']
    hd = I.st.ghost['HDRS'].d
    req = I.field(self, 'request')
    status = I.fz(self, '_status')
    chunked, close_ = I.fz(self, 'chunked'), I.fz(self, 'close')
    close0 = z3.Select(pre['close'][0], self.t)
    sized = I.st.ghost['BODY_KIND'] == 'list'
    app_cl = I.st.ghost.get('APP_CL')
    if sized:
        cover(I, 'sized')
        body = lib.flat(I.field(self, 'G_body_list'))
        I.oblige('content_length_is_the_body_length', z3.BoolVal('content-length' in hd) if 'content-length' not in hd else
                 hd['content-length'].t == lib.int_to_str(z3.Length(body)), detail='Content-Length = number of body bytes')
        I.oblige('sized_body_is_not_chunked', z3.Not(chunked))
        I.oblige('sized_body_keeps_close_choice', z3.Implies(status != 413, close_ == close0))
    else:
        cover(I, 'unsized')
        has_cl = 'content-length' in hd
        server = I.field(req, 'server')
        can_chunk = z3.And(I.fz(self, 'protocol') == z3.StringVal('HTTP/1.1'), I.fz(req, 'method') != z3.StringVal('HEAD'),
                           server.t != core.null())
        if not has_cl:
            nob = z3.Or(status < 200, status == 204, status == 205, status == 304)
            I.oblige('unsized.bodyless_status_gets_neither', z3.Implies(z3.And(nob, status != 413), z3.And(z3.Not(chunked), close_ == close0)))
            I.oblige('unsized.chunked_xor_close', z3.Implies(z3.And(z3.Not(nob), status != 413), z3.If(can_chunk, chunked, z3.And(close_, z3.Not(chunked)))),
                     detail='without Content-Length the body is delimited by chunked encoding (1.1) or by closing the connection')
            I.oblige('unsized.transfer_encoding_header_iff_chunked', z3.BoolVal('transfer-encoding' in hd) == chunked if False else
                     z3.Implies(chunked, z3.BoolVal('transfer-encoding' in hd)))
    I.oblige('status_413_closes', z3.Implies(status == 413, close_))
    server = I.field(req, 'server')
    if 'connection' in hd and not I.st.ghost.get('APP_CONN'):
        pass
    # Connection header agrees with the close decision (when the server writes it)
    conn = hd.get('connection')
    if conn is not None and isinstance(conn, VStr) and z3.is_string_value(conn.t):
        cv = conn.t.as_string()
        I.oblige('connection_header_agrees_with_close', z3.If(I.fz(self, 'protocol') == z3.StringVal('HTTP/1.1'),
                                                               z3.And(close_, z3.BoolVal(cv == 'close')), z3.And(z3.Not(close_), z3.BoolVal(cv == 'Keep-Alive'))))
    elif conn is None:
        I.oblige('connection_header_written_when_needed', z3.Or(server.t == core.null(), z3.If(I.fz(self, 'protocol') == z3.StringVal('HTTP/1.1'),
                                                                                                z3.Not(close_), close_)),
                 detail='HTTP/1.1: "Connection: close" iff closing; HTTP/1.0: "Connection: Keep-Alive" iff keeping')
    I.oblige('content_type_defaulted', z3.BoolVal('content-type' in hd))


def pr_replay(model, ob):
    if 'content_length' not in ob['name']:
        return None
    return "import sys\nfrom circuits.web import wrappers\nfrom circuits.web.headers import Headers\nclass S:\n    def getpeername(self): return ('127.0.0.1', 1)\n    def getsockname(self): return ('127.0.0.1', 2)\nbad = []\nfor body in (['grüß ', 'dich'], [b'abc', 'é', None, 'x'], 'äöü', b'raw', ['plain'], ['€'] * 3):\n    req = wrappers.Request(S(), 'GET', 'http', '/', (1, 1), '', headers=Headers([('Host', 'localhost:80')]))\n    res = wrappers.Response(req, 'utf-8')\n    res.body = body\n    res.prepare()\n    parts = body if isinstance(body, list) else [body]\n    want = sum(len(s.encode('utf-8')) if isinstance(s, str) else len(s) for s in parts if s is not None)\n    got = res.headers.get('Content-Length')\n    if got is None or int(got) != want:\n        bad.append('body %r: Content-Length %r, bytes written %d' % (body, got, want))\nfor b in bad: print(b)\nsys.exit(1 if bad else 0)\n"


SPECS.append(FucSpec(
    'C15', WRAP, 'Response.prepare', pr_setup, pr_post, fields=H_FIELDS, replay=pr_replay,
    calls={'sum': s_sum_len, 'len': s_len_item, 'str': lambda I, r, a, k: lib.to_str(I, a[0]), 'self.cookie.values': lambda I, r, a, k: VTuple([])},
    attr_hooks={'self.body': pr_body_hook, 'self.headers': lambda I: I.st.ghost['HDRS'], 'self.status': lambda I: VInt(I.fz(I.local('self'), '_status'))},
    cover=['return', 'sized', 'unsized'],
    clause='prepare(): Content-Length = byte length of a sized body, item by item (None skipped, str items by their encoded length) and never chunked; an unsized body is chunked (HTTP/1.1, not HEAD, '
           'server present) or else the connection is closed; bodyless statuses get neither; 413 closes; the Connection header '
           'agrees with the close decision'))


# ============================================================================= C14: _on_disconnect / _on_read
def od_setup(I):
    self = obj(I, 'self', 'HTTP')
    sock = obj(I, 'sock', 'socket')
    I.st.inputs['in_buffers'] = z3.Select(I.field(self, '_buffers').dom, sock.t)
    I.st.inputs['in_clients'] = z3.Select(I.field(self, '_clients').dom, sock.t)
    return {'self': self, 'sock': sock}


def od_post(I, outcome, ctx):
    if no_escape(I, outcome):
        return
    cover(I, 'return')
    self, sock = ctx['args']['self'], ctx['args']['sock']
    I.oblige('request_response_state_released', z3.Not(z3.Select(I.field(self, '_clients').dom, sock.t)))
    I.oblige('parser_state_released', z3.Not(z3.Select(I.field(self, '_buffers').dom, sock.t)),
             detail='once the connection has disconnected no parser state for it is retained')
    for t_ in I.st.ghost.get('AUTO_TABLES', []):
        tv = I.field(self, t_)
        I.oblige('no_state_retained_for_the_connection.' + t_, z3.Not(z3.Select(tv.arr if isinstance(tv, VSet) else tv.dom, sock.t)),
                 detail='HTTP.%s (a table created by the constructor) still has an entry for the disconnected socket' % t_)
    o = obj(I, 'other', 'socket')
    I.assume(o.t != sock.t)
    pre = ctx['pre']
    I.oblige('other_connections_untouched', z3.And(
        z3.Select(I.field(self, '_clients').dom, o.t) == z3.Select(z3.Select(pre['_clients'][0], self.t), o.t),
        z3.Select(I.field(self, '_buffers').dom, o.t) == z3.Select(z3.Select(pre['_buffers'][0], self.t), o.t)))


def od_replay(model, ob):
    return '''
import sys
from circuits.web.http import HTTP
class FakeServer: secure = False
h = HTTP.__new__(HTTP)
h._server = FakeServer(); h._clients = {}; h._buffers = {}; h._encoding = 'utf-8'
h.fire = lambda e, *c: None
s = object()
HTTP._on_read(h, s, b'GET / HTTP/1.1\\r\\nHost: x')     # partial request
HTTP._on_disconnect(h, s)
print('after a partial request and a disconnect: _buffers retains %d parser(s)' % len(h._buffers))
sys.exit(1 if h._buffers else 0)
'''


SPECS.append(FucSpec(
    'C14', HTTP, 'HTTP._on_disconnect', od_setup, od_post, fields=H_FIELDS, cover=['return'], replay=od_replay, opts={'auto_tables': True},
    clause='_on_disconnect(sock): neither request/response nor parser state for the socket is retained; other connections untouched'))


# --- response / stream handlers never create state for a connection that is gone
# "once the connection has disconnected no parser, request or response state for it is retained" - also when the `response` (or a
# `stream`) event of a message is handled AFTER the disconnect of its connection (a peer that sends and hangs up at once): these
# handlers cannot tell, so whatever per-connection entry they create may only be created for a connection that is still known
# (sock in _clients: _on_disconnect has not run).  Stated for every table of the component: the declared ones and whatever the
# constructor creates besides.
def _tables(I, self, heap=None):
    out = []
    for t_ in ['_clients', '_buffers'] + list(I.st.ghost.get('AUTO_TABLES', [])):
        if heap is None:
            tv = I.field(self, t_)
            out.append((t_, tv.arr if isinstance(tv, VSet) else tv.dom))
        else:
            out.append((t_, z3.Select(heap[t_][0], self.t)))
    return out


def gone_post(I, outcome, ctx):
    kind, v = outcome
    if kind == 'raise':
        return      # what may escape is the business of the C15 contract of the same function
    cover(I, 'return')
    self, pre = ctx['args']['self'], ctx['pre']
    known0 = z3.Select(pre['_clients'][0], self.t)
    x = obj(I, 'any_socket', 'socket')
    for (t_, now), (_, before) in zip(_tables(I, self), _tables(I, self, pre)):
        I.oblige('state_created_only_for_a_connection_still_known.' + t_,
                 z3.Implies(z3.And(z3.Select(now, x.t), z3.Not(z3.Select(before, x.t))), z3.Select(known0, x.t)),
                 detail='an entry in HTTP.%s was created for a socket that is not in _clients: if its disconnect was handled before this '
                        'event, nothing ever removes the entry' % t_)


SPECS.append(FucSpec(
    'C14', HTTP, 'HTTP._on_response', orp_setup, gone_post, fields=H_FIELDS, calls=RESP_CALLS, name='HTTP._on_response[state]',
    attr_hooks={'res.body': body_hook, 'res.status': lambda I: VInt(I.fz(I.local('res'), '_status'))},
    loops={0: LoopSpec(inv=[('true', while_skip_inv)], kinds={'data': Bytes})}, cover=['return'], opts={'auto_tables': True},
    replay=lambda model, ob: open(os.path.join(os.path.dirname(os.path.dirname(os.path.abspath(__file__))), 'replay', 'C14_gone.py')).read(),
    clause='_on_response creates per-connection state (in any table of the component) only for a connection that is still known: a '
           'response handled after the disconnect of its connection leaves nothing behind'))
SPECS.append(FucSpec(
    'C14', HTTP, 'HTTP._on_stream', os_setup, gone_post, fields=H_FIELDS, calls=STREAM_CALLS, name='HTTP._on_stream[state]',
    attr_hooks={'res.body': lambda I: BodyIter()},
    loops={0: LoopSpec(inv=[('data_is_the_piece_fetched_last', while_skip_inv)], kinds={'data': Bytes}, havoc_fields=['G_last_chunk'])},
    cover=['return'], opts={'auto_tables': True},
    replay=lambda model, ob: open(os.path.join(os.path.dirname(os.path.dirname(os.path.abspath(__file__))), 'replay', 'C14_gone.py')).read(),
    clause='_on_stream creates per-connection state only for a connection that is still known'))


# --- _on_read: one of {wait, close (TLS hello), one httperror, one redirect, one request}; error paths release the parser
P_FIELDS = dict(H_FIELDS)
P_FIELDS.update({'_clients': Dict(Ref, Tup(RefOf('Request'), RefOf('Response'))), '_buffers': Dict(Ref, RefOf('HttpParser')), 'errno': Opt(Int), 'G_headers_complete': Bool, 'G_message_complete': Bool, 'G_keep_alive': Bool, 'G_version': Tup(Int, Int),
                 'uri': Ref, '_path': Bytes, 'path': Str, 'body': Ref, 'handled': Bool})


def rd_setup(I):
    self = obj(I, 'self', 'HTTP')
    sock = obj(I, 'sock', 'socket')
    data = sym(I, 'data', Bytes)
    srv = I.field(self, '_server')
    I.assume(srv.t != core.null())
    x = core.fresh('x', core.RefSort())
    bv = I.st.heap['_buffers'][1]
    I.assume(z3.ForAll([x], z3.Select(z3.Select(bv, self.t), x) != core.null()), 'rep invariant: _buffers maps sockets to parser objects')
    cv = I.st.heap['_clients']
    I.assume(z3.ForAll([x], z3.And(z3.Select(z3.Select(cv[1], self.t), x) != core.null(), z3.Select(z3.Select(cv[2], self.t), x) != core.null())),
             'rep invariant: _clients maps sockets to (request, response)')
    I.assume(z3.ForAll([x], z3.Select(I.st.heap['uri'][0], x) != core.null()), 'rep invariant: every Request has its parsed URL (Request.__init__)')
    I.st.ghost['REQH'] = None
    I.st.inputs['known_connection'] = z3.Select(I.field(self, '_buffers').dom, sock.t)
    return {'self': self, 'sock': sock, 'data': data}


def s_HttpParser(I, recv, args, kw):
    p = I.st.fresh_ref('HttpParser')
    I.st.ghost['NEW_PARSER'] = p
    return p


def s_execute(I, recv, args, kw):
    """contract of HttpParser.execute (C13): consumes the data, updates the parser state; never raises"""
    log(I, 'EXECUTED').append((recv, args[0]))
    for f in ('errno', 'G_headers_complete', 'G_message_complete', 'G_keep_alive', 'G_version'):
        I.st.havoc_field(f)
    e = I.field(recv, 'errno')
    I.assume(z3.Implies(I.fz(recv, 'G_headers_complete'), e.isnone), 'parser: headers complete => no error recorded before them')
    return VInt(z3.Length(args[0].t))


def pget(name, kind=Str):
    def f(I, recv, args, kw):
        return kind.wrap([core.fn('PARSER_' + name, core.RefSort(), *kind.sorts())(recv.t)]) if len(kind.sorts()) == 1 else kind.fresh(name)
    return f


class ReqHeaders(VModel):
    def getattr(self, I, name):
        if name == 'get':
            def g(I2, b, a, k):
                key = a[0].t.as_string()
                d = I2.st.ghost.setdefault('REQ_HDR_VALUES', {})
                if key not in d:
                    present = core.fresh('has_' + key.replace('-', '_'), z3.BoolSort())
                    val = core.fresh('hdr_' + key.replace('-', '_'), S())
                    d[key] = (present, val)
                present, val = d[key]
                if I2.branch(present, 'hdr_' + key):
                    return VStr(val)
                return a[1] if len(a) > 1 else NONE
            return VFunc('get', impl=g)
        raise Unsupported('headers.' + name)


def s_Request(I, recv, args, kw):
    r = I.st.fresh_ref('Request')
    log(I, 'REQUESTS').append(r)
    I.st.write_field(r.t, 'sock', args[0])
    ver = core.fresh('req_version', z3.IntSort()), core.fresh('req_minor', z3.IntSort())
    I.st.write_field(r.t, 'r_protocol', VTuple([VInt(ver[0]), VInt(ver[1])]))
    u = I.st.fresh_ref('URL')
    I.st.write_field(r.t, 'uri', u)
    return r


def s_Response(I, recv, args, kw):
    r = I.st.fresh_ref('Response')
    I.st.write_field(r.t, 'request', args[0])
    return r


def rd_post(I, outcome, ctx):
    kind, v = outcome
    a, pre = ctx['args'], ctx['pre']
    self, sock = a['self'], a['sock']
    fired = log(I, 'FIRED')
    if kind == 'raise':
        cover(I, 'raise')
        # an exception in the read handler reaches the dispatcher (C04) -> exception event -> _on_exception -> one 500 response;
        # it must come from the declared conversions only
        I.oblige('only_declared_conversion_errors_escape', z3.BoolVal(v.cls == 'ValueError'), detail='escaping %s' % v.cls)
        I.oblige('nothing_dispatched_before_the_error', z3.BoolVal(len([e for e in fired if e.tag == 'request']) == 0))
        return
    cover(I, 'return')
    tags = [e.tag for e in fired]
    I.oblige('at_most_one_outcome_event', z3.BoolVal(len(fired) <= 1), detail='wait | close | one httperror | one redirect | one request')
    I.oblige('never_error_and_request_together', z3.BoolVal(not ('httperror' in tags and 'request' in tags)))
    bufs = I.field(self, '_buffers')
    has_parser = z3.Select(bufs.dom, sock.t)
    if tags == ['httperror']:
        cover(I, 'rejected')
        e = fired[0]
        code = e.args[2]
        if z3.is_int_value(code.t) and code.t.as_long() == 400:
            I.oblige('rejected_message_releases_the_parser', z3.Not(has_parser), detail='a rejected message leaves no parser state behind')
    if tags in (['httperror'], ['redirect']):
        # C15 "on a kept-alive connection each further request is answered correctly": a message that is answered here must not
        # leave its (finished) parser in charge of a connection that stays open - the next request would be fed to it and answered
        # with the old outcome again.  Either the parser is released or the response closes the connection.
        res_ = fired[0].args[1] if len(fired[0].args) > 1 and isinstance(fired[0].args[1], VRef) else None
        closes_ = I.fz(res_, 'close') if res_ is not None else z3.BoolVal(False)
        I.oblige('answered_message_leaves_no_parser_on_a_connection_that_stays_open', z3.Or(z3.Not(has_parser), closes_),
                 detail='%s fired for this message, its parser stays in _buffers[sock] and the response does not close the connection' % tags[0])
    if tags == ['close']:
        cover(I, 'tls_hello')
        I.oblige('tls_hello_releases_everything', z3.And(z3.Not(has_parser), z3.Not(z3.Select(I.field(self, '_clients').dom, sock.t))))
        # from C13 ("parsing does not depend on how the stream is cut") and C14 (a well-formed request is never answered by a bare
        # close): whether bytes are a TLS hello can only be asked of the FIRST bytes of a message, never of a later read of a message
        # whose parser already exists (else a header byte >= 0x80 right after a read boundary would close the connection)
        had_parser = z3.Select(z3.Select(pre['_buffers'][0], self.t), sock.t)
        I.oblige('tls_hello_only_judged_on_the_first_read_of_a_message', z3.Not(had_parser),
                 detail='the connection was closed as "TLS on a plain port" on a read that continued a message already being parsed')
    if tags == ['request']:
        cover(I, 'request')
        I.oblige('dispatched_request_releases_the_parser', z3.Not(has_parser))
        I.oblige('request_registered_for_the_response', z3.Select(I.field(self, '_clients').dom, sock.t))
    if not tags:
        cover(I, 'wait')


def errors_force_close():
    """STRUCTURAL fact read off circuits/web/errors.py on every run: httperror.__init__ executes `self.response.close = True` at the
    top level of its body (unconditionally, before anything that can be skipped) and redirect.__init__ reaches it through
    super().__init__(...) at the top level of its body.  HTTP._on_read relies on it where it answers a message WITHOUT releasing the
    parser (the path-sanitising redirect): the connection is closed, so the stale parser never sees another request."""
    import ast as _ast
    from pyvc import contract as _c
    try:
        mod = _c.ModInfo('circuits/web/errors.py')
        he, _ = mod.find('httperror.__init__')
        rd, _ = mod.find('redirect.__init__')
    except Exception:
        return False
    top_close = any(isinstance(st, _ast.Assign) and _ast.unparse(st.targets[0]) in ('self.response.close', 'response.close')
                    and isinstance(st.value, _ast.Constant) and st.value.value is True for st in he.body)
    top_super = any(isinstance(st, _ast.Expr) and isinstance(st.value, _ast.Call) and _ast.unparse(st.value.func) == 'super().__init__'
                    for st in rd.body)
    return top_close and top_super


def ev_error(tag):
    def f(I, r, a, k):
        if len(a) >= 2 and isinstance(a[1], VRef):
            if errors_force_close():
                I.st.write_field(a[1].t, 'close', VBool(True))
                I.st.notes.append('%s(...): response.close = True (structural fact about errors.py, see errors_force_close)' % tag)
            else:
                fresh = core.fresh('close_after_' + tag, z3.BoolSort())
                I.st.write_field(a[1].t, 'close', VBool(fresh))
        return VCons(tag, a, k)
    return f


READ_CALLS = dict(EVS)
READ_CALLS.update({'httperror': ev_error('httperror'), 'redirect': ev_error('redirect')})
READ_CALLS.update({
    'self.fire': s_fire, 'HttpParser': s_HttpParser, 'is_ssl_handshake': uf('is_ssl_handshake', Bool), 'parser.execute': s_execute,
    'parser.is_headers_complete': lambda I, r, a, k: VBool(I.fz(r, 'G_headers_complete')),
    'parser.is_message_complete': lambda I, r, a, k: VBool(I.fz(r, 'G_message_complete')),
    'parser.should_keep_alive': lambda I, r, a, k: VBool(I.fz(r, 'G_keep_alive')),
    'parser.get_method': pget('method'), 'parser.get_scheme': pget('scheme'), 'parser.get_path': pget('path'),
    'parser.get_version': lambda I, r, a, k: VTuple([VInt(core.fresh('maj', z3.IntSort())), VInt(core.fresh('min', z3.IntSort()))]),
    'parser.get_query_string': pget('qs'), 'parser.get_headers': lambda I, r, a, k: ReqHeaders(), 'parser.recv_body': pget('body', Bytes),
    'wrappers.Request': s_Request, 'wrappers.Response': s_Response, 'BytesIO': lambda I, r, a, k: I.st.fresh_ref('BytesIO'),
    'quote': uf('quote'), 'req.uri.utf8': lambda I, r, a, k: VStr(core.fresh('uri_utf8', S()), True),
    "'HTTP/{:d}.{:d}'.format": lambda I, r, a, k: VStr(core.fresh('proto', S())),
    'min': lambda I, r, a, k: VTuple([VInt(core.fresh('vmaj', z3.IntSort())), VInt(core.fresh('vmin', z3.IntSort()))]),
})


def rd_getattr_protocol(I, o):
    if o.cls == 'Request':
        return I.st.read_field(o.t, 'r_protocol')
    if o.cls == 'HTTP':
        return VTuple([VInt(1), VInt(1)])
    return None


def rd_setattr_protocol(I, o, v):
    """rep invariant of Response (relied on by Response.__str__/prepare, C15): `protocol` is the version text of the status line
    ('HTTP/x.y').  HTTP.protocol / Request.protocol are (major, minor) tuples - storing one of those would put '(1, 1) 505 ...'
    on the wire, which is no HTTP response at all"""
    if o.cls != 'Response':
        return False
    ok = isinstance(v, VStr) and not v.is_bytes
    I.oblige('response_protocol_is_the_version_text_of_the_status_line', z3.BoolVal(ok),
             detail='Response.protocol assigned %r' % (v,))
    if ok:
        return False
    I.st.write_field(o.t, 'protocol', sym(I, 'unknown_protocol_text', Str))
    return True


SPECS.append(FucSpec(
    'C14', HTTP, 'HTTP._on_read', rd_setup, rd_post, fields=P_FIELDS, calls=READ_CALLS,
    getattr_hooks={'protocol': rd_getattr_protocol, 'headers': lambda I, o: ReqHeaders() if o.cls == 'Request' else None},
    setattr_hooks={'protocol': rd_setattr_protocol},
    hasattr_hooks={'getpeercert': lambda I, o: VBool(False)}, cover=['return', 'rejected', 'request', 'wait', 'tls_hello'],
    env={'BAD_FIRST_LINE': VInt(0)},
    clause='_on_read, per call and for every parser outcome: nothing (wait), close (TLS hello on a plain port), one httperror, one redirect '
           'or one request event - never an error and a request together; rejected messages and the TLS hello release the parser; only '
           'the declared conversion error (ValueError from int()) can escape to the dispatcher'))


# ----------------------------------------------------------------------------- C14: the error path ends in exactly one response
# A conversion error inside _on_read (ValueError from int() of Content-Length / port) reaches the dispatcher, which fires
# `exception` (C04: exactly one per raising handler, loop goes on); _on_exception turns the failed `read` into one httperror with a
# fresh 500 response; _on_httperror turns every httperror into exactly one response event (whose bytes are C15's business).
def ex_setup(I):
    self = obj(I, 'self', 'HTTP')
    sock = obj(I, 'sock', 'socket')
    I.assume(isinst_fn('socket', sock.t))
    data = sym(I, 'data', Bytes)
    g = I.st.ghost
    g['FEVENT'] = VCons('read', [sock, data])
    g['EVALUE'] = VExc('ValueError', [VStr('invalid literal for int()')])
    etype, tb = VClass('ValueError'), I.st.fresh_ref('traceback')
    return {'self': self, 'args': VTuple([etype, g['EVALUE'], tb]), 'kwargs': VCDict({'fevent': g['FEVENT'], 'handler': NONE})}


def isinst_fn(name, t):
    return core.fn('isinst_' + name, core.RefSort(), z3.BoolSort())(t)


def ex_post(I, outcome, ctx):
    kind, v = outcome
    if kind == 'raise':
        I.oblige('no_escape', z3.BoolVal(False), detail='escaping %s' % v.cls)
        return
    cover(I, 'return')
    fired = log(I, 'FIRED')
    errs = [e for e in fired if isinstance(e, VCons) and e.tag == 'httperror']
    I.oblige('failed_read_answered_by_exactly_one_httperror', z3.BoolVal(len(errs) == 1 and len(fired) == 1),
             detail='a conversion error while reading a request must end in one error response: fired %r' % (fired,))
    if len(errs) == 1:
        e = errs[0]
        reqs = log(I, 'REQUESTS')
        ok = len(e.args) >= 2 and isinstance(e.args[0], VRef) and isinstance(e.args[1], VRef) and len(reqs) == 1
        I.oblige('error_response_is_for_that_connection', z3.BoolVal(ok) if not ok else z3.And(
            e.args[0].t == reqs[0].t, I.field(reqs[0], 'sock').t == I.st.ghost['FEVENT'].args[0].t, I.field(e.args[1], 'request').t == reqs[0].t))
        st = I.st.ghost.get('RESPONSE_STATUS')
        I.oblige('error_response_is_a_500', z3.BoolVal(st is not None) if st is None else st == 500)


def s_Response_status(I, recv, args, kw):
    r = s_Response(I, recv, args, kw)
    if len(args) >= 3:
        I.st.ghost['RESPONSE_STATUS'] = lib.unopt(I, args[2]).t
    return r


SPECS.append(FucSpec(
    'C14', HTTP, 'HTTP._on_exception', ex_setup, ex_post, name='HTTP._on_exception[failed read]', fields=P_FIELDS,
    calls={'self.fire': s_fire, 'httperror': ev('httperror'), 'wrappers.Request': s_Request, 'wrappers.Response': s_Response_status},
    attr_hooks={'fevent.value.parent.event': lambda I: I.st.ghost['FEVENT']},
    env={'response': VClass('response'), 'request': VClass('request'), 'socket': VClass('socket'), 'HTTPException': VClass('HTTPException')},
    cover=['return'],
    clause='_on_exception for a failed read(sock, data): exactly one httperror carrying a fresh request/500 response pair for that socket'))


def he_setup(I):
    self = obj(I, 'self', 'HTTP')
    req, res = obj(I, 'req', 'Request'), obj(I, 'res', 'Response')
    event = VCons('httperror', [req, res])
    return {'self': self, 'event': event, 'req': req, 'res': res, 'code': sym(I, 'code', Opt(Int)), 'kwargs': VCDict({})}


def he_post(I, outcome, ctx):
    kind, v = outcome
    if kind == 'raise':
        I.oblige('no_escape', z3.BoolVal(False), detail='escaping %s' % v.cls)
        return
    cover(I, 'return')
    fired = log(I, 'FIRED')
    rs = [e for e in fired if isinstance(e, VCons) and e.tag == 'response']
    I.oblige('every_httperror_becomes_exactly_one_response', z3.BoolVal(len(rs) == 1 and len(fired) == 1))
    for e in rs:
        ok = len(e.args) == 1 and isinstance(e.args[0], VRef)
        I.oblige('the_response_sent_is_the_errors_response', z3.BoolVal(ok) if not ok else e.args[0].t == ctx['args']['res'].t)
    I.oblige('body_is_the_rendered_error', z3.BoolVal(len(log(I, 'BODY_SET')) == 1))


def he_body_hook(I, o, v):
    log(I, 'BODY_SET').append((o, v))
    return True


SPECS.append(FucSpec(
    'C14', HTTP, 'HTTP._on_httperror', he_setup, he_post, fields=P_FIELDS,
    calls={'self.fire': s_fire, 'response': ev('response'), 'str': lambda I, r, a, k: VStr(core.fresh('rendered_error', S()))},
    setattr_hooks={'body': he_body_hook}, cover=['return'],
    clause='_on_httperror: the rendered error becomes the body of the given response and exactly one response event is fired for it'))


# C14's guarantee ("for arbitrary bytes: wait or one valid error response, never a request for an incomplete or rejected message")
# rests on the parser honouring the contract _on_read uses it by.  The parser's own contracts (written for C13) are therefore
# obligations of C14 as well: a change inside the parser that breaks one of them is reported under both properties.
import copy as _copy                              # noqa: E402
from contracts import http_parser as _hp         # noqa: E402
from pyvc.contract import CustomCheck as _CC     # noqa: E402
for _s in _hp.SPECS:
    if isinstance(_s, _CC):
        continue
    _c = _copy.copy(_s)
    _c.prop = 'C14'
    SPECS.append(_c)


# C13 names HTTP._on_read (the owner of the per-connection parser) among its functions: how the reads of one message are handed to
# ONE parser, and what is decided before the parser sees them, is part of "parsing is independent of the segmentation"
for _s in list(SPECS):
    if getattr(_s, 'name', '') == 'HTTP._on_read' and _s.prop == 'C14':
        _c = _copy.copy(_s)
        _c.prop = 'C13'
        SPECS.append(_c)
        # ... and under C15 (keep-alive clause: a message answered here leaves no parser behind on a connection that stays open)
        _c = _copy.copy(_s)
        _c.prop = 'C15'
        SPECS.append(_c)


# ----------------------------------------------------------------------------- C14: failures of request / response handlers
# (anchored mechanism "exception handler turns handler errors into responses"): a request whose handler failed is answered by
# exactly one httperror / redirect - once, however many handlers failed - and a failed `response` handler by one fresh 500.
def rf_setup(I):
    self = obj(I, 'self', 'HTTP')
    req, res = obj(I, 'req', 'Request'), obj(I, 'res', 'Response')
    c = I.st.choice(3, 'error_kind')
    cls = ('RedirectException', 'HTTPException', 'KeyError')[c]
    ev_ = VExc(cls, [])
    if c == 0:
        ev_.attrs['urls'] = VCList([VStr(core.fresh('url', S()))])
        ev_.attrs['code'] = VInt(core.fresh('code', z3.IntSort()))
    if c == 1:
        ev_.attrs['code'] = VInt(core.fresh('code', z3.IntSort()))
        ev_.attrs['description'] = VStr(core.fresh('description', S()))
    I.st.ghost['ERR_KIND'] = cls
    I.st.ghost['HANDLED0'] = I.fz(req, 'handled')
    error = VTuple([VClass(cls), ev_, I.st.fresh_ref('traceback')])
    return {'self': self, 'erequest': VCons('request', [req, res]), 'error': error, 'req': req, 'res': res}


def rf_post(I, outcome, ctx):
    kind, v = outcome
    if kind == 'raise':
        I.oblige('no_escape', z3.BoolVal(False), detail='escaping %s' % v.cls)
        return
    cover(I, 'return')
    a = ctx['args']
    fired = log(I, 'FIRED')
    h0 = I.st.ghost['HANDLED0']
    I.oblige('answered_exactly_once_unless_already_handled', z3.BoolVal(len(fired) == 1) == z3.Not(h0),
             detail='a failed request is answered by one error response / redirect; a request already answered is left alone')
    I.oblige('request_marked_handled', I.fz(a['req'], 'handled'))
    for e in fired:
        cover(I, 'answered')
        want = 'redirect' if I.st.ghost['ERR_KIND'] == 'RedirectException' else 'httperror'
        ok = isinstance(e, VCons) and e.tag == want and len(e.args) >= 2 and isinstance(e.args[0], VRef) and isinstance(e.args[1], VRef)
        I.oblige('answer_is_the_%s_for_this_request_and_response' % want, z3.BoolVal(ok) if not ok else
                 z3.And(e.args[0].t == a['req'].t, e.args[1].t == a['res'].t))


SPECS.append(FucSpec(
    'C14', HTTP, 'HTTP._on_request_failure', rf_setup, rf_post, fields=P_FIELDS,
    calls={'self.fire': s_fire, 'httperror': ev('httperror'), 'redirect': ev('redirect')},
    exc_parents={'RedirectException': 'HTTPException', 'HTTPException': 'Exception'},
    env={'RedirectException': VClass('RedirectException'), 'HTTPException': VClass('HTTPException')},
    cover=['return', 'answered'],
    clause='_on_request_failure: a failed request that was not answered yet gets exactly one redirect (RedirectException) or '
           'httperror for its own request/response pair and is marked handled; an answered one gets nothing more'))


def pf_setup(I):
    self = obj(I, 'self', 'HTTP')
    res = obj(I, 'res', 'Response')
    req = I.field(res, 'request')
    I.assume(req.t != core.null())
    I.st.ghost['DONE0'] = I.fz(res, 'done')
    error = VTuple([VClass('KeyError'), VExc('KeyError', []), I.st.fresh_ref('traceback')])
    return {'self': self, 'eresponse': VCons('response', [res]), 'error': error, 'res': res}


def pf_post(I, outcome, ctx):
    kind, v = outcome
    if kind == 'raise':
        I.oblige('no_escape', z3.BoolVal(False), detail='escaping %s' % v.cls)
        return
    cover(I, 'return')
    a = ctx['args']
    fired = log(I, 'FIRED')
    d0 = I.st.ghost['DONE0']
    I.oblige('one_error_response_unless_the_response_was_already_sent', z3.BoolVal(len(fired) == 1) == z3.Not(d0))
    for e in fired:
        cover(I, 'answered')
        ok = isinstance(e, VCons) and e.tag == 'httperror' and len(e.args) >= 2 and isinstance(e.args[1], VRef)
        I.oblige('answer_is_an_httperror_with_a_fresh_response', z3.BoolVal(ok) if not ok else
                 z3.And(e.args[0].t == I.field(a['res'], 'request').t, e.args[1].t != a['res'].t))
        st = I.st.ghost.get('RESPONSE_STATUS')
        I.oblige('fresh_response_is_a_500', z3.BoolVal(st is not None) if st is None else st == 500)


SPECS.append(FucSpec(
    'C14', HTTP, 'HTTP._on_response_failure', pf_setup, pf_post, fields=P_FIELDS,
    calls={'self.fire': s_fire, 'httperror': ev('httperror'), 'wrappers.Response': s_Response_status},
    cover=['return', 'answered'],
    clause='_on_response_failure: a response whose handler failed before it was sent is replaced by exactly one httperror with a '
           'fresh 500 response for the same request; a response already sent is left alone'))

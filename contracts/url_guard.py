"""C16 - circuits/web/url.py URL.abspath (the normalisation behind the HTTP front-end guard `path == sanitised path`; listed as not
decided until round 5).  Containment in the docroot is proved at Static._on_request WITHOUT assuming this guard; this contract adds
the guard's own duty, for every path: the segment list abspath assembles never contains a `..` or `.` segment (loop invariant over
the real loop, any number of segments), so a request path that survives the guard has no parent-directory segment left.
`re.sub` (collapsing slashes) is an uninterpreted function; bytes.split(b'/') is the symbolic segment list of pyvc.lib."""
import z3
from pyvc.core import *  # noqa
from pyvc import core, lib
from pyvc.contract import FucSpec, LoopSpec, sym, obj, cover

SPECS = []
FILE = 'circuits/web/url.py'
S = z3.StringSort
DOTDOT, DOT = z3.StringVal('..'), z3.StringVal('.')


def ab_setup(I):
    self = obj(I, 'self', 'URL')
    I.st.inputs['path'] = I.fz(self, '_path')
    return {'self': self}


def clean(I):
    u = I.local('unsplit')
    if isinstance(u, (VCList, VTuple)):
        return z3.And(*[z3.And(x.t != DOTDOT, x.t != DOT) for x in u.items]) if u.items else z3.BoolVal(True)
    i = core.fresh('i', z3.IntSort())
    el = z3.Select(u.arrs[0], i)
    return z3.ForAll([i], z3.Implies(z3.And(u.lo <= i, i < u.hi), z3.And(el != DOTDOT, el != DOT)))


def window(I):
    u = I.local('unsplit')
    if isinstance(u, (VCList, VTuple)):
        return z3.BoolVal(True)
    return u.lo <= u.hi


def s_join_log(I, recv, args, kw):
    I.st.ghost['JOINED'] = args[0]
    return lib.str_join(I, recv, args[0])


def ab_post(I, outcome, ctx):
    kind, v = outcome
    if kind == 'raise':
        I.oblige('no_escape', z3.BoolVal(False), detail='escaping %s' % v.cls)
        return
    cover(I, 'return')
    u = lib.unopt(I, I.st.ghost.get('JOINED'))
    ok = isinstance(u, VList)
    I.oblige('path_is_assembled_from_the_segment_list', z3.BoolVal(ok))
    if not ok:
        return
    k = core.fresh('k', z3.IntSort())
    I.assume(z3.And(u.lo <= k, k < u.hi))
    seg = z3.Select(u.arrs[0], k)
    I.oblige('no_parent_directory_segment_survives', seg != DOTDOT,
             detail='a `..` segment is left in the normalised path: the front-end guard would let a climbing path through')
    I.oblige('no_current_directory_segment_survives', seg != DOT)


AB_REPLAY = '''
import itertools, sys
from circuits.web.url import parse_url
bad = []
segs = ['..', '.', 'a', '', '...', 'b.', '..a']
for n in range(1, 5):
    for combo in itertools.product(segs, repeat=n):
        path = '/' + '/'.join(combo)
        u = parse_url('http://h' + path).abspath()
        out = u._path if isinstance(u._path, bytes) else u._path.encode()
        if any(p in (b'..', b'.') for p in out.split(b'/')):
            bad.append('%r normalised to %r: a dot segment survives' % (path, out))
for b in bad[:6]: print(b)
sys.exit(1 if bad else 0)
'''

SPECS.append(FucSpec(
    'C16', FILE, 'URL.abspath', ab_setup, ab_post, fields={'_path': Bytes},
    calls={'re.sub': lambda I, r, a, k: VStr(core.fn('collapse_slashes', S(), S())(a[2].t), True), "b'/'.join": s_join_log},
    loops={0: LoopSpec(inv=[('segments_kept_are_never_dot_or_dotdot', clean), ('window', window)], kinds={'unsplit': List(Bytes), 'directory': Bool})},
    cover=['return'], replay=lambda model, ob: AB_REPLAY,
    clause='URL.abspath, for every path: the segment list the result is joined from contains no `..` and no `.` segment (the '
           'normalisation behind the front-end guard; containment itself does not rely on it)'))

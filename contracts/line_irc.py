"""C18 — line protocol segmentation invariance; IRC messages serialise to exactly one line.

Functions under contract: irc/message.py Message._check_args, Message.__str__, Message.__bytes__;
protocols/line.py splitLines, Line._on_read (client and server mode); irc/commands.py (structural);
lemmas/Split.lean (segmentation from the split axiom); bounded: re.split axiom validation, parsemsg round trip.
"""
import ast
import os
import subprocess
import time
import z3
from pyvc.core import *  # noqa
from pyvc import core, lib, contract
from pyvc.contract import FucSpec, LoopSpec, CustomCheck, add_ob, sym, obj, cover, uf, noop

SPECS = []
S = z3.StringSort
CR, LF, SP = z3.StringVal('\r'), z3.StringVal('\n'), z3.StringVal(' ')

MSG_FIELDS = {'args': List(Str), 'prefix': Opt(Str), 'command': Str, 'encoding': Str, 'add_nick': Bool}


def msg_setup(I):
    self = obj(I, 'self', 'Message')
    a = I.field(self, 'args')
    I.assume(a.lo <= a.hi)
    p = I.field(self, 'prefix')
    I.st.inputs['self.args'] = [a.arrs[0], a.lo, a.hi]
    I.st.inputs['self.args.len'] = a.hi - a.lo
    I.st.inputs['self.args[0]'] = z3.Select(a.arrs[0], a.lo)
    I.st.inputs['self.args[1]'] = z3.Select(a.arrs[0], a.lo + 1)
    I.st.inputs['self.args[-1]'] = z3.Select(a.arrs[0], a.hi - 1)
    I.st.inputs['self.prefix'] = [p.isnone, p.val.t]
    I.st.inputs['self.command'] = I.fz(self, 'command')
    return {'self': self}


def no_ctl(t):
    return z3.And(z3.Not(z3.Contains(t, CR)), z3.Not(z3.Contains(t, LF)))


def checked_state(I, self):
    """what a normal return of _check_args guarantees (taken from the property: nothing in the message can start a new
    line, and only the last argument may contain a space)"""
    a = I.field(self, 'args')
    i = core.fresh('ai', z3.IntSort())
    x = z3.Select(a.arrs[0], i)
    p = I.field(self, 'prefix')
    cmd = I.fz(self, 'command')
    return [
        ('args_no_crlf', z3.ForAll([i], z3.Implies(z3.And(a.lo <= i, i < a.hi), no_ctl(x)))),
        ('inner_args_no_space', z3.ForAll([i], z3.Implies(z3.And(a.lo <= i, i < a.hi - 1), z3.Not(z3.Contains(x, SP))))),
        ('prefix_no_crlf', z3.Or(p.isnone, no_ctl(p.val.t))),
        ('command_no_crlf', no_ctl(cmd)),
    ]


def ca_post(I, outcome, ctx):
    kind, v = outcome
    self = ctx['args']['self']
    if kind == 'raise':
        cover(I, 'raise')
        I.oblige('raises_only_Error', z3.BoolVal(v.cls == 'Error'), detail='escaping %s' % v.cls)
        return
    cover(I, 'return')
    for lbl, f in checked_state(I, self):
        I.oblige('ensures.' + lbl, f)
    # frame: the message is not modified
    for fld in ('args', 'prefix', 'command'):
        for o, n in zip(ctx['pre'][fld], I.st.heap[fld]):
            I.oblige('frame.' + fld, o == n)


def msg_replay(model, ob):
    def u(x):
        return lib.unescape(x) if isinstance(x, str) else x
    n = model.get('self.args.len') or 0
    n = max(0, min(int(n), 3))
    args = []
    if n >= 1:
        args = [u(model.get('self.args[0]'))]
    if n >= 3:
        args.append(u(model.get('self.args[1]')))
    if n >= 2:
        args.append(u(model.get('self.args[-1]')))
    pre = model.get('self.prefix') or [True, '']
    prefix = None if pre[0] else u(pre[1])
    cmd = u(model.get('self.command'))
    return '''
import sys
from circuits.protocols.irc.message import Message, Error
args, prefix, cmd = %r, %r, %r
m = Message.__new__(Message)
m.command, m.prefix, m.args, m.encoding, m.add_nick = cmd, prefix, list(args), 'utf-8', False
try:
    s = str(m)
except Error as e:
    print('refused:', e); sys.exit(0)
body = s[:-2]
print('serialised: %%r' %% s)
if not s.endswith('\\r\\n') or '\\r' in body or '\\n' in body:
    print('not exactly one CRLF-terminated line'); sys.exit(1)
sys.exit(0)
''' % (args, prefix, cmd)


SPECS.append(FucSpec(
    'C18', 'circuits/protocols/irc/message.py', 'Message._check_args', msg_setup, ca_post, fields=MSG_FIELDS,
    exc_parents={'Error': 'Exception'}, cover=['return', 'raise'], replay=msg_replay,
    clause='a normal return of _check_args means no CR/LF in any argument, prefix or command and spaces only in the last argument',
))


# ----------------------------------------------------------------------------- parsemsg: exact, per call, for every input
# (until round 5 parsemsg was covered by the bounded round-trip enumeration only.)  The contract pins the result to a spec function of
# the decoded text T, for EVERY byte string: an optional ":prefix " up to the first space; then, if " :" occurs, everything after its
# first occurrence is the trailing argument - verbatim, nothing stripped - and the part before it is cut into words; otherwise the
# whole rest is cut into words; the first word is the command.  str.split() is the uninterpreted word list ws_words (trusted facts).
# The round trip parsemsg(bytes(m)) == m over arbitrarily long argument lists still needs an induction over ' '.join and stays with
# the bounded stand-in; what is proved here is that parsemsg adds or drops nothing on its own.
class ListIter(VModel):
    def __init__(self, lst):
        self.lst = lst

    def getattr(self, I, name):
        raise Unsupported('iterator.' + name)


def pm_setup(I):
    s = sym(I, 's', Bytes)
    return {'s': s}


def s_iter(I, recv, args, kw):
    (v,) = args
    v = lib.unopt(I, v)
    if isinstance(v, VCList):
        v = core.clist_to_sym(v, Str)
    if not isinstance(v, VList):
        raise Unsupported('iter(%r)' % (v,))
    return ListIter(v)


def s_next(I, recv, args, kw):
    it = args[0]
    if not isinstance(it, ListIter):
        raise Unsupported('next(%r)' % (it,))
    l = it.lst
    if I.branch(l.lo < l.hi, 'next_has'):
        x = l.at(l.lo)
        it.lst = VList(l.ek, l.arrs, l.lo + 1, l.hi)
        return x
    if len(args) > 1:
        return args[1]
    lib.raise_(I, 'StopIteration')


def s_list(I, recv, args, kw):
    if args and isinstance(args[0], ListIter):
        l = args[0].lst
        args[0].lst = VList(l.ek, l.arrs, l.hi, l.hi)
        return l
    from pyvc.interp import BUILTINS
    return BUILTINS['list'](I, args, kw)


def pm_post(I, outcome, ctx):
    kind, v = outcome
    s = ctx['args']['s']
    T = core.fn('py_decode_replace', S(), S())(s.t)
    colon = z3.PrefixOf(z3.StringVal(':'), T)
    after = z3.SubString(T, 1, z3.Length(T) - 1)
    sp = z3.IndexOf(after, SP, 0)
    if kind == 'raise':
        cover(I, 'raise')
        I.oblige('raises_only_for_a_prefix_without_anything_after_it', z3.And(z3.BoolVal(v.cls == 'ValueError'), colon, sp < 0),
                 detail='escaping %s' % v.cls)
        return
    cover(I, 'return')
    if not (isinstance(v, VTuple) and len(v.items) == 3):
        I.oblige('returns_prefix_command_args', z3.BoolVal(False))
        return
    pre_, cmd, args = v.items
    praw = z3.If(colon, z3.SubString(after, 0, sp), z3.StringVal(''))
    rest = z3.If(colon, z3.SubString(after, sp + 1, z3.Length(after) - sp - 1), T)
    j = z3.IndexOf(rest, z3.StringVal(' :'), 0)
    head = z3.If(j >= 0, z3.SubString(rest, 0, j), rest)
    trailing = z3.SubString(rest, j + 2, z3.Length(rest) - j - 2)
    warr, wn = lib.ws_words(head)
    total = wn + z3.If(j >= 0, 1, 0)          # words of the head, plus the trailing argument
    I.oblige('prefix_is_the_text_between_the_colon_and_the_first_space', pre_.t == core.fn('parseprefix', S(), S())(praw)
             if isinstance(pre_, VStr) else z3.BoolVal(False))
    # command: the first word (or the trailing argument when there is no word at all), None when there is nothing
    cmd = lib.unopt(I, cmd) if not isinstance(cmd, (VNone, VStr)) else cmd
    if isinstance(cmd, VNone):
        cover(I, 'no_command')
        I.oblige('command_is_none_only_for_an_empty_message', total == 0)
    elif isinstance(cmd, VStr):
        cover(I, 'command')
        first = z3.If(wn > 0, z3.Select(warr, 0), trailing)
        I.oblige('command_is_the_first_word', z3.And(total > 0, cmd.t == first))
    else:
        I.oblige('command_is_the_first_word', z3.BoolVal(False), detail='command is %r' % (cmd,))
    args = lib.unopt(I, args)
    if isinstance(args, VCList):
        args = core.clist_to_sym(args, Str)
    if not isinstance(args, VList):
        I.oblige('arguments_are_the_remaining_words', z3.BoolVal(False), detail='args is %r' % (args,))
        return
    n = args.hi - args.lo
    I.oblige('argument_count_is_the_number_of_remaining_words', n == z3.If(total > 0, total - 1, 0))
    k = core.fresh('k', z3.IntSort())
    I.assume(z3.And(k >= 0, k < n))
    got = z3.Select(args.arrs[0], args.lo + k)
    want = z3.If(k + 1 < wn, z3.Select(warr, k + 1), trailing)
    I.oblige('arguments_are_the_remaining_words_then_the_trailing_text_verbatim', got == want,
             detail='argument k is word k+1 of the part before " :"; the last one, when " :" occurs, is everything after it - nothing '
                    'stripped, nothing split')


PM_REPLAY = '''
import sys
from circuits.protocols.irc.utils import parsemsg
bad = []
def spec(t):
    prefix = ''
    if t[:1] == ':':
        if ' ' not in t[1:]:
            return None
        prefix, t = t[1:].split(' ', 1)
    if ' :' in t:
        head, trailing = t.split(' :', 1)
        words = head.split() + [trailing]
    else:
        words = t.split()
    return prefix, (words[0] if words else None), words[1:]
for wire in (b'PRIVMSG #c :hello world ', b'PRIVMSG #c :hello  ', b':n!u@h PRIVMSG #c : x ', b'PING :a\\r', b' PRIVMSG #c :x', b'PRIVMSG  #c  :x y',
             b':srv 001 nick :Welcome ', b'QUIT', b'', b'JOIN #a\\t', b'PRIVMSG #c ::)', b'PRIVMSG #c :a :b '):
    want = spec(wire.decode('utf-8', 'replace'))
    try:
        p, c, a = parsemsg(wire)
    except ValueError:
        if want is not None: bad.append('%r: ValueError' % wire)
        continue
    if want is None or (c, list(a)) != (want[1], want[2]):
        bad.append('%r parsed as command %r args %r, the wire text says %r' % (wire, c, a, want and want[1:]))
for b in bad: print(b)
sys.exit(1 if bad else 0)
'''

SPECS.append(FucSpec(
    'C18', 'circuits/protocols/irc/utils.py', 'parsemsg', pm_setup, pm_post, fields={},
    calls={'parseprefix': lambda I, r, a, k: VStr(core.fn('parseprefix', S(), S())(a[0].t)),   # uninterpreted pure function of the raw prefix text
           'iter': s_iter, 'next': s_next, 'list': s_list, 'str': lambda I, r, a, k: lib.to_str(I, a[0])},
    exc_parents={'ValueError': 'Exception', 'StopIteration': 'Exception'}, cover=['return', 'raise', 'command', 'no_command'],
    replay=lambda model, ob: PM_REPLAY,
    clause='parsemsg(s), for every byte string: the raw prefix is the text between a leading ":" and the first space; the command is '
           'the first word; the arguments are the remaining words of the part before the first " :" followed by everything after it, '
           'verbatim (ValueError only for a prefix with nothing after it)'))


# ----------------------------------------------------------------------------- Message.__init__: what _check_args gets to see
# _check_args (and with it the one-line guarantee of __str__) inspects the arguments that are TEXT (`isinstance(arg, str)`); the
# guarantee therefore needs the constructor to store text only: bytes arguments are decoded HERE, before the check, never later.
# Verified for every combination of str / bytes / None over up to three positional arguments (the comprehension treats each
# argument on its own), any command, with and without a prefix.
def init_setup(I):
    self = obj(I, 'self', 'Message')
    command = sym(I, 'command', Str)
    n = I.st.choice(4, 'nargs')
    items = []
    for i in range(n):
        k = I.st.choice(3, 'kind%d' % i)
        if k == 0:
            items.append(sym(I, 'arg%d' % i, Str))
        elif k == 1:
            items.append(sym(I, 'arg%d' % i, Bytes))
        else:
            items.append(NONE)
    I.st.ghost['GIVEN'] = items
    b_ = 'Message.__init__: the number of positional arguments is bounded (every str/bytes/None combination of at most 3); their contents are unbounded'
    if b_ not in I.bounded_loops:
        I.bounded_loops.append(b_)
    kw = {}
    if I.st.choice(2, 'with_prefix') == 1:
        kw['prefix'] = sym(I, 'prefix', Str)
    return {'self': self, 'command': command, 'args': VTuple(items), 'kwargs': VCDict(kw)}


def s_decode(I, recv, args, kw):
    I.st.trusted_used.add('bytes.decode(encoding): some text (uninterpreted py_decode) or UnicodeDecodeError')
    I.st.ghost.setdefault('DECODED', []).append(recv)
    return VStr(core.fn('py_decode', S(), S())(recv.t))


def init_post(I, outcome, ctx):
    kind, v = outcome
    if kind == 'raise':
        cover(I, 'raise')
        I.oblige('raises_only_Error', z3.BoolVal(v.cls in ('Error', 'UnicodeDecodeError')), detail='escaping %s' % v.cls)
        return
    cover(I, 'return')
    self = ctx['args']['self']
    given = [g for g in I.st.ghost['GIVEN'] if not isinstance(g, VNone)]
    a = I.st.ghost.get('STORED_ARGS')
    stored = list(a.items) if isinstance(a, (VCList, VTuple)) else []
    I.oblige('arguments_stored_one_by_one_in_order', z3.BoolVal(isinstance(a, (VCList, VTuple)) and len(stored) == len(given)),
             detail='%d arguments given (None dropped), stored: %r' % (len(given), a))
    for i, (g, s_) in enumerate(zip(given, stored)):
        s_ = lib.unopt(I, s_)
        is_text = isinstance(s_, VStr) and not s_.is_bytes
        I.oblige('every_stored_argument_is_text', z3.BoolVal(is_text),
                 detail='argument %d (%s given) is stored as %s: _check_args only inspects text, a bytes argument with CR/LF or a space '
                        'would reach the wire unchecked' % (i, 'bytes' if g.is_bytes else 'str', 'bytes' if isinstance(s_, VStr) else type(s_).__name__))
        if is_text and not g.is_bytes:
            I.oblige('text_arguments_stored_unchanged', s_.t == g.t)
        if is_text and g.is_bytes:
            I.oblige('bytes_arguments_stored_decoded', s_.t == core.fn('py_decode', S(), S())(g.t))
    I.oblige('arguments_checked_at_construction', z3.BoolVal(len(I.st.ghost.get('CHECKED', [])) >= 1),
             detail='_check_args() must run in the constructor')


def s_check_args_logged(I, recv, args, kw):
    I.st.ghost.setdefault('CHECKED', []).append(recv)
    if I.st.choice(2, 'check_args') == 1:
        lib.raise_(I, 'Error', VStr('refused'))
    return NONE


INIT_REPLAY = '''
import sys
from circuits.protocols.irc.message import Message, Error
bad = []
for args in ((b'hi\\r\\nQUIT :x',), ('#c', b'hi\\r\\nQUIT :x'), (b'a b', 'tail'), (b'x\\ny', None, 'z'), ('#c', b'plain')):
    try:
        m = Message('PRIVMSG', *args)
        s = str(m)
    except Error:
        continue
    body = s[:-2]
    if not s.endswith('\\r\\n') or '\\r' in body or '\\n' in body:
        bad.append('Message(PRIVMSG, *%r) serialises to %r: not exactly one CRLF-terminated line' % (args, s))
    if any(not isinstance(a, str) for a in m.args):
        bad.append('Message(PRIVMSG, *%r) stores %r: a non-text argument is never checked' % (args, m.args))
for b in bad: print(b)
sys.exit(1 if bad else 0)
'''
SPECS.append(FucSpec(
    'C18', 'circuits/protocols/irc/message.py', 'Message.__init__', init_setup, init_post, fields=dict(MSG_FIELDS, args=Any, command=Any),
    calls={'self._check_args': s_check_args_logged, 'arg.decode': s_decode, 'str': lambda I, r, a, k: lib.to_str(I, a[0])},
    setattr_hooks={'args': lambda I, o, v: I.st.ghost.__setitem__('STORED_ARGS', v)},
    getattr_hooks={'args': lambda I, o: I.st.ghost.get('STORED_ARGS')},
    exc_parents={'Error': 'Exception', 'UnicodeDecodeError': 'ValueError'}, cover=['return', 'raise'], replay=lambda model, ob: INIT_REPLAY,
    clause='Message(command, *args): every argument is stored as text - str unchanged, bytes decoded, None dropped - in order, and '
           '_check_args runs before the constructor returns (so that no argument escapes the CR/LF and space checks by its type); up to '
           'three arguments of every kind combination'))


def s_check_args(I, recv, args, kw):
    """callee contract of Message._check_args (verified above): raises Error or establishes checked_state; modifies nothing"""
    if I.st.choice(2, 'check_args') == 1:
        lib.raise_(I, 'Error', VStr('refused'))
    for lbl, f in checked_state(I, recv):
        I.assume(f, '_check_args.ensures.' + lbl)
    return NONE


def str_post(I, outcome, ctx):
    kind, v = outcome
    if kind == 'raise':
        cover(I, 'raise')
        I.oblige('raises_only_Error', z3.BoolVal(v.cls == 'Error'), detail='escaping %s' % v.cls)
        return
    cover(I, 'return')
    if not isinstance(v, VStr):
        I.oblige('returns_str', z3.BoolVal(False))
        return
    lib.join_char_lemma(I, CR)
    lib.join_char_lemma(I, LF)
    r = v.t
    n = z3.Length(r)
    body = z3.SubString(r, 0, n - 2)
    I.oblige('ensures.crlf_terminated', z3.SuffixOf(z3.StringVal('\r\n'), r))
    I.oblige('ensures.one_line.no_lf', z3.Not(z3.Contains(body, LF)))
    I.oblige('ensures.one_line.no_cr', z3.Not(z3.Contains(body, CR)))
    # frame: serialising does not change the message
    for fld in ('args', 'prefix', 'command'):
        for o, nw in zip(ctx['pre'][fld], I.st.heap[fld]):
            I.oblige('frame.' + fld, o == nw)


SPECS.append(FucSpec(
    'C18', 'circuits/protocols/irc/message.py', 'Message.__str__', msg_setup, str_post, fields=MSG_FIELDS,
    calls={'self._check_args': s_check_args}, exc_parents={'Error': 'Exception'}, cover=['return', 'raise'], replay=msg_replay,
    clause='for every prefix, command and argument list: str(message) is body + CRLF with no CR/LF in body, or Error is raised',
))


# __bytes__ = str(self).encode(encoding): calls __str__ through str(); encode trusted not to create CR/LF from other characters
def bytes_setup(I):
    return msg_setup(I)


def s_str_of_self(I, recv, args, kw):
    (o,) = args
    if isinstance(o, VRef):
        if I.st.choice(2, 'str_raises') == 1:
            lib.raise_(I, 'Error', VStr('refused'))
        r = core.fresh('str_self', S())
        body = z3.SubString(r, 0, z3.Length(r) - 2)
        I.assume(z3.And(z3.SuffixOf(z3.StringVal('\r\n'), r), z3.Not(z3.Contains(body, LF)), z3.Not(z3.Contains(body, CR))),
                 '__str__.ensures')
        I.st.ghost['STR'] = r
        return VStr(r)
    return lib.to_str(I, o)


def bytes_post(I, outcome, ctx):
    kind, v = outcome
    if kind == 'raise':
        I.oblige('raises_only_Error', z3.BoolVal(v.cls == 'Error'), detail='escaping %s' % v.cls)
        return
    cover(I, 'return')
    enc = core.fn('py_encode', S(), S())
    I.oblige('ensures.bytes_is_encoded_str', v.t == enc(I.st.ghost['STR']))


SPECS.append(FucSpec(
    'C18', 'circuits/protocols/irc/message.py', 'Message.__bytes__', bytes_setup, bytes_post, fields=MSG_FIELDS,
    calls={'str': s_str_of_self}, exc_parents={'Error': 'Exception'}, cover=['return'],
    trusted=['str.encode maps the one-line text to bytes without introducing CR/LF (ASCII-compatible codecs)'],
    clause='bytes(message) is the encoding of str(message) (so the one-line guarantee carries over)',
))


# ----------------------------------------------------------------------------- commands.py: structural
def commands_structural(res, opts):
    mod = contract.ModInfo('circuits/protocols/irc/commands.py')
    n = 0
    for node in mod.tree.body:
        if not isinstance(node, ast.FunctionDef):
            continue
        n += 1
        ok = (len(node.body) == 1 and isinstance(node.body[0], ast.Return) and isinstance(node.body[0].value, ast.Call)
              and ast.unparse(node.body[0].value.func) == 'request' and len(node.body[0].value.args) == 1
              and isinstance(node.body[0].value.args[0], ast.Call) and ast.unparse(node.body[0].value.args[0].func) == 'Message'
              and not node.body[0].value.keywords)
        if ok:
            # arguments are passed through unmodified (names, constants, starred names only)
            for a in node.body[0].value.args[0].args:
                inner = a.value if isinstance(a, ast.Starred) else a
                if not isinstance(inner, (ast.Name, ast.Constant)):
                    ok = False
        add_ob(res, 'commands.%s.builds_only_Message' % node.name, ok, 'ast',
               detail='body is `return request(Message(<names/constants>))`: ' + ast.unparse(node.body[0])[:120])
    add_ob(res, 'commands.nonempty', n > 0, 'ast', detail='%d command constructors found' % n)
    # protocol.py serialises requests through bytes(message) only
    pmod = contract.ModInfo('circuits/protocols/irc/protocol.py')
    fnode, _ = pmod.find('IRC.request')
    src = ast.unparse(fnode)
    add_ob(res, 'protocol.request.writes_bytes_of_message', 'write(bytes(message))' in src, 'ast', detail=src[:300])


SPECS.append(CustomCheck('C18', 'commands(structural)', commands_structural, file='circuits/protocols/irc/commands.py',
                         clause='every IRC command constructor only wraps Message(...) and requests are written as bytes(message)'))


# ----------------------------------------------------------------------------- splitLines / Line._on_read
def split_axiom_result(I, arg):
    """TRUSTED re.split(b'\\r?\\n', x): a non-empty list SPLIT(x) (uninterpreted); see lemmas/Split.lean for how the
    concatenation axiom gives segmentation invariance, and bounded/split_axiom.py for its validation against CPython."""
    I.st.trusted_used.add("re.split(b'\\r?\\n', x) = SPLIT(x): non-empty list, uninterpreted; concatenation axiom "
                          "SPLIT(x++y) = init(SPLIT x) ++ SPLIT(last(SPLIT x) ++ y) (validated exhaustively up to a bound, "
                          "used by lemmas/Split.lean)")
    arr = core.fn('SPLIT_arr', S(), z3.ArraySort(z3.IntSort(), S()))(arg)
    n = core.fn('SPLIT_len', S(), z3.IntSort())(arg)
    I.assume(n >= 1)
    return VList(Bytes, [arr], z3.IntVal(0), n)


def sl_setup(I):
    s = sym(I, 's', Bytes)
    b = sym(I, 'buffer', Bytes)
    return {'s': s, 'buffer': b}


def s_linesep_split(I, recv, args, kw):
    (a,) = args
    I.st.ghost['SPLIT_ARG'] = a.t
    cover(I, 'split')
    return split_axiom_result(I, a.t)


def sl_post(I, outcome, ctx):
    kind, v = outcome
    if kind == 'raise':
        I.oblige('no_escape', z3.BoolVal(False), detail='escaping %s' % v.cls)
        return
    cover(I, 'return')
    s, b = ctx['args']['s'].t, ctx['args']['buffer'].t
    w = z3.Concat(b, s)
    I.oblige('V1.reads_only_stash_plus_data', I.st.ghost['SPLIT_ARG'] == w)
    L = split_axiom_result(I, w)
    lines, rest = v.items
    I.oblige('V1.stash_is_last_piece', rest.t == z3.Select(L.arrs[0], L.hi - 1))
    I.oblige('V1.lines_are_all_but_last.len', lines.hi - lines.lo == L.hi - 1)
    i = core.fresh('li', z3.IntSort())
    I.oblige('V1.lines_are_all_but_last.items', z3.ForAll([i], z3.Implies(
        z3.And(0 <= i, i < L.hi - 1), z3.Select(lines.arrs[0], lines.lo + i) == z3.Select(L.arrs[0], i))))


def linesep_pattern(res, opts):
    mod = contract.ModInfo('circuits/protocols/line.py')
    ok = False
    for node in mod.tree.body:
        if isinstance(node, ast.Assign) and ast.unparse(node.targets[0]) == 'LINESEP':
            ok = ast.unparse(node.value) == "re.compile(b'\\r?\\n')"
            det = ast.unparse(node.value)
    add_ob(res, 'LINESEP.is_optional_CR_then_LF', ok, 'ast', detail=det)


SPECS.append(CustomCheck('C18', 'LINESEP(structural)', linesep_pattern, file='circuits/protocols/line.py',
                         clause="the separator is re.compile(b'\\r?\\n') (LF or CRLF)"))

SPECS.append(FucSpec(
    'C18', 'circuits/protocols/line.py', 'splitLines', sl_setup, sl_post, calls={'LINESEP.split': s_linesep_split},
    cover=['split', 'return'],
    clause='splitLines(s, buffer) = (init(SPLIT(buffer+s)), last(SPLIT(buffer+s))): reads the stash only through stash+data, '
           'keeps exactly the unterminated tail',
))


def _splitter_summary(I, recv, args, kw):
    """contract of the splitter (splitLines, verified above)"""
    data, buf = args
    I.st.ghost.setdefault('SPLITTER_CALLS', []).append((data, buf))
    L = split_axiom_result(I, z3.Concat(lib.unopt(I, buf).t, data.t))
    lines = VList(Bytes, L.arrs, L.lo, L.hi - 1)
    return VTuple([lines, VStr(z3.Select(L.arrs[0], L.hi - 1), True)])


def _fire_summary(I, recv, args, kw):
    ev = args[0]
    ctxs = list(I.comp_ctx)
    I.st.ghost.setdefault('FIRED', []).append((ev, ctxs[-1] if ctxs else None))
    return I.st.fresh_ref('Value') if not I.pure else VRef(core.fresh('val', core.RefSort()), 'Value')


def _line_ctor(I, recv, args, kw):
    return VCons('line', args)


def lr_setup_client(I):
    self = obj(I, 'self', 'Line')
    data = sym(I, 'data', Bytes)
    return {'self': self, 'args': VTuple([data])}


def lr_post_client(I, outcome, ctx):
    kind, v = outcome
    if kind == 'raise':
        I.oblige('no_escape', z3.BoolVal(False), detail='escaping %s' % v.cls)
        return
    cover(I, 'return')
    self = ctx['args']['self']
    data = ctx['args']['args'].items[0]
    old_buf = VStr(z3.Select(ctx['pre']['buffer'][0], self.t), True)
    calls = I.st.ghost.get('SPLITTER_CALLS', [])
    I.oblige('splitter_called_once', z3.BoolVal(len(calls) == 1))
    if len(calls) != 1:
        return
    I.oblige('splitter_gets_data_and_own_stash', z3.And(calls[0][0].t == data.t, calls[0][1].t == old_buf.t))
    L = split_axiom_result(I, z3.Concat(old_buf.t, data.t))
    I.oblige('stash_updated', I.fz(self, 'buffer') == z3.Select(L.arrs[0], L.hi - 1))
    fired = I.st.ghost.get('FIRED', [])
    I.oblige('one_line_event_per_line_in_order', z3.BoolVal(
        len(fired) == 1 and fired[0][1] is not None and isinstance(fired[0][0], VCons) and fired[0][0].tag == 'line'
        and len(fired[0][0].args) == 1))
    if len(fired) == 1 and fired[0][1] is not None:
        i, guard, it = fired[0][1]
        ev = fired[0][0]
        # the comprehension ranges over exactly the lines, and the event carries the i-th line
        I.oblige('line_events_range_over_all_lines', z3.And(it.lo == 0, it.hi == L.hi - 1))
        I.oblige('line_event_carries_the_line', ev.args[0].t == z3.Select(L.arrs[0], i))


LINE_CALLS = {'self.splitter': _splitter_summary, 'self.fire': _fire_summary, 'line': _line_ctor}

SPECS.append(FucSpec(
    'C18', 'circuits/protocols/line.py', 'Line._on_read', lr_setup_client, lr_post_client, name='Line._on_read[client]',
    fields={'buffer': Bytes}, calls=LINE_CALLS, cover=['return'],
    clause='client mode: splitter applied to (data, own stash), stash replaced by the tail, one line event per complete line in order',
))


def lr_setup_server(I):
    self = obj(I, 'self', 'Line')
    sock = obj(I, 'sock', 'socket')
    data = sym(I, 'data', Bytes)
    I.st.ghost['GET'] = []
    I.st.ghost['UPD'] = []
    return {'self': self, 'args': VTuple([sock, data])}


def _getBuffer(I, recv, args, kw):
    (sock,) = args
    I.st.ghost['GET'].append(sock)
    I.st.trusted_used.add('getBuffer(sock)/updateBuffer(sock, b): user callbacks; getBuffer is a pure function of sock')
    return VStr(core.fn('BUF', core.RefSort(), S())(sock.t), True)


def _updateBuffer(I, recv, args, kw):
    I.st.ghost['UPD'].append(tuple(args))
    return NONE


def lr_post_server(I, outcome, ctx):
    kind, v = outcome
    if kind == 'raise':
        I.oblige('no_escape', z3.BoolVal(False), detail='escaping %s' % v.cls)
        return
    cover(I, 'return')
    self = ctx['args']['self']
    sock, data = ctx['args']['args'].items
    get, upd = I.st.ghost['GET'], I.st.ghost['UPD']
    calls = I.st.ghost.get('SPLITTER_CALLS', [])
    I.oblige('isolation.getBuffer_only_for_this_sock', z3.And([z3.BoolVal(len(get) == 1)] + [g.t == sock.t for g in get]))
    I.oblige('isolation.updateBuffer_once_for_this_sock', z3.And([z3.BoolVal(len(upd) == 1)] + [u[0].t == sock.t for u in upd]))
    if len(calls) != 1 or len(upd) != 1:
        I.oblige('splitter_called_once', z3.BoolVal(False))
        return
    stash = core.fn('BUF', core.RefSort(), S())(sock.t)
    I.oblige('splitter_gets_data_and_socks_stash', z3.And(calls[0][0].t == data.t, calls[0][1].t == stash))
    L = split_axiom_result(I, z3.Concat(stash, data.t))
    I.oblige('stash_updated_with_tail', upd[0][1].t == z3.Select(L.arrs[0], L.hi - 1))
    I.oblige('client_mode_stash_untouched', I.fz(self, 'buffer') == z3.Select(ctx['pre']['buffer'][0], self.t))
    fired = I.st.ghost.get('FIRED', [])
    ok = (len(fired) == 1 and fired[0][1] is not None and isinstance(fired[0][0], VCons) and fired[0][0].tag == 'line'
          and len(fired[0][0].args) == 2)
    I.oblige('one_line_event_per_line_in_order', z3.BoolVal(ok))
    if ok:
        i, guard, it = fired[0][1]
        ev = fired[0][0]
        I.oblige('line_events_range_over_all_lines', z3.And(it.lo == 0, it.hi == L.hi - 1))
        I.oblige('line_event_carries_sock_and_line', z3.And(ev.args[0].t == sock.t, ev.args[1].t == z3.Select(L.arrs[0], i)))


SPECS.append(FucSpec(
    'C18', 'circuits/protocols/line.py', 'Line._on_read', lr_setup_server, lr_post_server, name='Line._on_read[server]',
    fields={'buffer': Bytes}, calls=dict(LINE_CALLS, **{'self.getBuffer': _getBuffer, 'self.updateBuffer': _updateBuffer}),
    cover=['return'],
    clause='server mode: only the buffer of the socket the data came from is read and updated (partial lines of different '
           'sockets stay apart); one line event (sock, line) per complete line in order',
))


# ----------------------------------------------------------------------------- Lean lemma + bounded stand-ins
HERE = os.path.dirname(os.path.dirname(os.path.abspath(__file__)))


def lean_check(fname):
    def run(res, opts):
        t0 = time.time()
        path = os.path.join(HERE, 'lemmas', fname)
        src = open(path).read()
        p = subprocess.run(['lean', path], capture_output=True, text=True, timeout=600)
        ok = p.returncode == 0 and 'sorry' not in src and 'error' not in p.stdout
        add_ob(res, 'lean.%s.checks_without_sorry' % fname, ok, 'lean4', detail=(p.stdout + p.stderr)[-400:] or 'accepted',
               secs=time.time() - t0)
        add_ob(res, 'lean.%s.no_axioms_declared' % fname, '\naxiom ' not in src and 'admit' not in src, 'scan',
               detail='mechanical scan for axiom/admit/sorry')
    return run


SPECS.append(CustomCheck('C18', 'Split.lean', lean_check('Split.lean'), file='lemmas/Split.lean',
                         clause='from the split concatenation axiom: feeding any segmentation through the stash discipline proved '
                                'for splitLines / Line._on_read yields the lines and tail of the whole stream'))


def run_bounded(script, label, clause, python='/venv/bin/python'):
    """runs bounded/<script> <tier>; each stdout line that is a JSON object {ob, ok, detail} is one bounded obligation;
    otherwise the exit status decides the single obligation `label` (0 holds, 1 counterexample on the last line)"""
    import json as _json

    def run(res, opts):
        t0 = time.time()
        tier = opts.get('tier', 'quick')
        p = subprocess.run([python, os.path.join(HERE, 'bounded', script), tier], capture_output=True, text=True,
                           timeout=3000, env=dict(os.environ, PYTHONPATH=contract.REPO, VERIF_SEED=str(opts.get('seed', 0))))
        out = p.stdout.strip().splitlines()
        if p.returncode not in (0, 1):
            res.errors.append('bounded %s crashed: %s' % (script, (p.stdout + p.stderr)[-500:]))
            return
        n = 0
        for ln in out:
            if ln.startswith('{'):
                try:
                    d = _json.loads(ln)
                except ValueError:
                    continue
                n += 1
                add_ob(res, d['ob'], bool(d['ok']), 'enumeration(bounded)', detail=d.get('detail', '')[:600], secs=time.time() - t0,
                       model=None if d['ok'] else {'witness': d.get('detail', '')[:600]})
                res.bounded.append('%s %s: %s' % (script, d['ob'], d.get('detail', '')[:200]))
        if n == 0:
            last = out[-1] if out else ''
            add_ob(res, label, p.returncode == 0, 'enumeration(bounded)', detail=last[:600], secs=time.time() - t0,
                   model=None if p.returncode == 0 else {'witness': last[:600]})
            res.bounded.append('%s: %s' % (script, last[:200]))
    return run


SPECS.append(CustomCheck('C18', 'split_axiom(bounded)', run_bounded('split_axiom.py', 'split_axiom_holds_up_to_bound', ''),
                         bounded=True, file='bounded/split_axiom.py',
                         clause='BOUNDED validation of the trusted re.split axiom against CPython'))
SPECS.append(CustomCheck('C18', 'parsemsg_roundtrip(bounded)', run_bounded('parsemsg_roundtrip.py', 'parsemsg_roundtrip_up_to_bound', ''),
                         bounded=True, file='bounded/parsemsg_roundtrip.py',
                         clause='BOUNDED: parsemsg(bytes(m)) gives back prefix, command, args'))

"""Registry: property id -> contract modules (each exports SPECS) and evidence metadata."""
REGISTRY = {
    'C16': {'modules': ['contracts.static'], 'level': 'proof',
            'explanation': 'contracts on get_ranges / Static._on_request / serve_file discharged path-wise by z3/cvc5'},
}

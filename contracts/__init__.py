"""Registry: property id -> contract modules (each exports SPECS) and evidence/manifest metadata (plain data, no z3)."""
REGISTRY = {
    'C16': {
        'modules': ['contracts.static', 'contracts.url_guard'], 'level': 'proof',
        'level_text': 'For all Range headers and lengths, and for all request paths / docroots / mount points, the contracts on '
                      'get_ranges, Static._on_request and serve_file are discharged on every path of the real functions (loop '
                      'invariants, no bound): every range lies inside the entity AND is exactly the RFC 7233 image of its '
                      'byte-range-spec (first-last, first-, -suffix), unsatisfiable specs add nothing; serve_file answers a single range '
                      'with 206, Content-Range bytes a-(b-1)/size, Content-Length b-a and exactly FILE[a:b], no satisfiable range '
                      'with 416, otherwise the whole file; the multipart/byteranges generator yields, for every part in any order or overlap, the '
                      'Content-range line of that part followed by exactly FILE[a:b]; containment in the docroot is proved with os.path as trusted uninterpreted '
                      'functions, so it does not rely on what ".." resolves to.',
        'level_note': 'trusted: os.path.abspath/join/dirname/exists/isfile/isdir, os.stat, open/seek/read, urllib unquote/quote '
                      '(uninterpreted, axioms listed in evidence.trusted_base), int(str)/str.strip/str.split axiomatisation; front-end '
                      'URL sanitising is not assumed.',
        'explanation': 'contracts on get_ranges / Static._on_request / serve_file discharged path-wise by z3/cvc5',
        'not_decided': ['URL.escape (quote/unquote) of the HTTP front-end guard; URL.abspath is under contract at the level of its segment list since round 5 (join/split inverse not proved)'],
    },
    'C18': {
        'modules': ['contracts.line_irc'], 'level': 'proof',
        'level_text': 'For every message state (any prefix, command, argument list) Message.__str__/__bytes__ yield exactly one '
                      'CRLF-terminated line or raise Error; splitLines and Line._on_read obey the stash discipline for every '
                      'input; segmentation invariance then follows by a Lean-checked lemma from the re.split concatenation axiom.'
                      ' Round 5: Message.__init__ stores every argument as text before the check (bytes decoded, up to three arguments of every kind combination); parsemsg is exact per call for every byte string (prefix, command, words, trailing text verbatim).',
        'level_note': 'trusted: re.split axiom (validated only up to a bound against CPython), str.join containment lemma, '
                      'str.encode, str.split() as the uninterpreted word list; parsemsg is proved exact per call, the round trip parsemsg(bytes(m)) has only a bounded stand-in (labelled, not counted as proved).',
        'explanation': 'contracts on Message and the line splitter discharged by z3/cvc5; Lean lemma for all segmentations',
        'not_decided': ['parsemsg(bytes(m)) round trip over arbitrarily long argument lists: bounded enumeration only (parsemsg itself is exact per call: under contract since round 5)'],
    },
    'C20': {
        'modules': ['contracts.auth'], 'level': 'proof',
        'level_text': 'For every header, user table, realm and method: check_auth returns a bool that is True iff the parsed '
                      'credentials verify against the table entry of that user; basic_auth/digest_auth proceed iff it is True; '
                      'digest/basic checkers equal the RFC formulas over uninterpreted hashes; verify_session keeps an id iff the '
                      'fingerprint matches; VirtualHosts honours X-Forwarded-Host only for configured gateways. All paths, no bound.',
        'level_note': 'trusted: md5/sha1/base64/uuid4 as uninterpreted deterministic functions (collision freedom for the <= '
                      'direction), parseAuthorization abstracted by its contract (None | exception | map with username/scheme), '
                      'SimpleCookie and the session store as summaries.',
        'explanation': 'contracts on the authentication / session / virtual host functions discharged by z3',
        'not_decided': ['parse_http_list/parse_keqv_list grammar inside parseAuthorization (abstracted)', 'MD5-sess / auth-int variants'],
    },
    'C11': {
        'modules': ['contracts.sockets'], 'level': 'proof',
        'level_text': 'Ghost byte-conservation invariant accepted ++ flatten(buffer) = offered, proved for every outcome of send '
                      '(accept k of n, each errno class) on every path of write/_write/_on_write/close of Server, Client and File; '
                      'induction over the history of operations is the standard invariant argument (DESIGN 3.1).'
                      ' Round 5: the argument-less close() (whole server, also the reaction to `stopped`) visits the listener and every client and judges each by its own buffer.',
        'level_note': 'trusted: socket.send/os.write contract (n in [0,len], prefix accepted, or OSError with nothing accepted), '
                      'BasePoller operations by their contract (C10), lists of sockets viewed as multisets.',
        'explanation': 'conservation and deferred-close contracts discharged by z3/cvc5',
    },
    'C12': {
        'modules': ['contracts.sockets'], 'level': 'proof',
        'level_text': 'Per-operation contracts: one connect on accept, one read event per non-empty recv with those bytes, exactly one '
                      'disconnect from _close for a connected socket, and the NoResidue invariant (no client/buffer/close-queue/poller '
                      'entry for a socket that is gone) preserved by every handler including late write/close/_on_write.'
                      ' Round 5: the emission contracts of the three pollers (a descriptor reported readable gets its _read event, also next to an error or hang-up bit) are obligations of C12 as well. Client._read (the client endpoint): one recv per readiness event, exactly one read event with exactly the bytes received, empty read closes, errors signalled.',
        'level_note': 'trusted: socket.recv/send/close/shutdown/getpeername contracts; peer behaviour enters only through them; '
                      'poller by its BasePoller contract (C10).',
        'explanation': 'life-cycle and residue contracts discharged by z3/cvc5',
    },
    'C10': {
        'modules': ['contracts.pollers'], 'level': 'proof',
        'level_text': 'BasePoller operations against a multiset model; Mirror invariant (registration tables = ghost kernel interest, '
                      '_map inverse of fileno) re-established by _updateRegistration from any prior state, hence after every operation '
                      'in every order; under Mirror and the kernel contract _process/_generate_events emit exactly the registered-and-'
                      'reported events, addressed to the registering channel. All inputs, no bound.'
                      ' Round 5: Poll/EPoll._generate_events hand every reported (number, mask) pair to _process exactly once (EINTR is a no-op); a report of POLLNVAL / hang-up / error without pending input discards the descriptor, with the flag values read off __init__.',
        'level_note': 'trusted: select.poll/epoll/select and fileno() contracts (kernel readiness itself is not modelled); the three '
                      'pollers are shown to satisfy one abstract BasePoller contract, stream equality of sockets on top follows from C11/C12.',
        'explanation': 'poller contracts discharged by z3',
        'not_decided': ['actual kernel readiness', 'KQueue'],
    },
    'C02': {
        'modules': ['contracts.core_queue', 'contracts.core_dispatch'], 'level': 'proof',
        'level_text': 'Queue representation invariant with a ghost last-popped key: pops of one pass are strictly ascending in '
                      '(priority, fire order) including nested flushes, fired events only reach the fifo, the fifo is moved only '
                      'when the snapshot is exhausted; the dispatcher invokes the sorted handler list in order, once each, and '
                      'leaves the loop at the first handler after which event.stopped is set. Unbounded (loop invariants, rely/guarantee '
                      'for re-entrant handlers).',
        'level_note': 'trusted: heapq.heappush/heappop (multiset + minimum), sorted(..., reverse=True) (descending permutation); '
                      'NaN priorities excluded; one thread.',
        'explanation': 'queue and dispatch-order contracts discharged by z3',
    },
    'C04': {
        'modules': ['contracts.core_dispatch', 'contracts.core_values', 'contracts.core_tasks'], 'level': 'proof',
        'level_text': 'Per-handler case analysis of the dispatcher loop body for an arbitrary iteration (loop invariant), contracts on '
                      '_eventDone, processTask and Value.setValue: results stored once in order, one exception (+ one failure) event per '
                      'raising handler with the loop continuing, success fired iff requested, no handler raised and none is waiting.',
        'level_note': 'trusted: handlers as callbacks with the stated rely; sys.exc_info as three non-None opaque values; generators '
                      'driven by next/send/throw are opaque callbacks.',
        'explanation': 'dispatcher/result contracts discharged by z3',
    },
    'C05': {
        'modules': ['contracts.core_dispatch', 'contracts.core_tasks'], 'level': 'proof',
        'level_text': 'Completion tracking as per-operation contracts: _fire links a new event to the tracked current event and counts it; '
                      'the _eventDone walk decrements once per finished closure, fires <name>_complete exactly when a counter reaches '
                      'zero and was requested, deletes the tracking attributes and ascends; _dispatcher and processTask finish the '
                      'event or leave a waiting handler on every path and run handlers/generator steps as the current event.',
        'level_note': 'safety only: "always eventually fired" is decided as "no path skips the step progress depends on"; '
                      'cardinality of the set of live descendants is carried by the effects counter itself (no set-cardinality proof).',
        'explanation': 'completion-tracking contracts discharged by z3',
        'not_decided': ['liveness of completion', 'global counting invariant effects = 1 + #live children (only per-operation steps)'],
    },
    'C06': {
        'modules': ['contracts.core_tasks', 'contracts.core_dispatch'], 'level': 'proof',
        'level_text': 'processTask (which drives generators through next/send/throw, modelled as callbacks) keeps the bookkeeping '
                      'invariant waitingHandlers = live generator frames on every branch and reschedules the caller whenever the '
                      'callee finishes or fails. The generator bodies of waitEvent (by object and by name) and callEvent are verified '
                      'segment by segment (first segment installs exactly the temporary handlers and yields the wait state; after '
                      'resumption the done handler is removed and CallValue(result of the bound event) is the last yield; callEvent '
                      'fires once and waits for that very object with the caller\'s timeout). The three closures are verified against a '
                      'protocol invariant WInv (countdown installed <=> timeout >= 0 and caller not yet resumed; event handler installed '
                      '<=> not yet bound): exactly one of result / TimeoutError resumes the caller and every temporary handler is removed '
                      'on every path.',
        'level_note': 'rely/guarantee between the segments: what may happen while the generator is suspended is exactly the proved '
                      'guarantees of the closures and of processTask; assumed: user handlers never yield CallValue themselves, wait/call '
                      'generators always have a parent, one channel per wait; liveness (the done event eventually arrives) not decided.',
        'explanation': 'task bookkeeping, wait/call generator bodies and their temporary handlers under contract, discharged by z3',
        'not_decided': ['waits on several channels at once (handlers of all but the last channel are not tracked by the code)',
                        'liveness: that the awaited event is eventually dispatched'],
    },
    'C08': {
        'modules': ['contracts.core_tasks', 'contracts.core_run', 'contracts.core_dispatch'], 'level': 'proof',
        'level_text': 'stop(): no effect when not running, otherwise flag cleared, exactly one stopped event, inline ticks iff no loop '
                      'thread, SystemExit(code) iff a code was given; run(): exactly one started, loop exit implies not running and '
                      'empty queue, fade-out ticks, exit code propagation; KeyboardInterrupt/SystemExit in handlers and generator '
                      'steps map to stop().',
        'level_note': 'partial correctness only (no liveness); stop from a second thread not decided; tick() by its contract.',
        'explanation': 'run/stop contracts discharged by z3',
        'not_decided': ['liveness ("keeps processing until stop")', 'stop() from a second thread'],
    },
    'C09': {
        'modules': ['contracts.core_timers', 'contracts.pollers', 'contracts.pollers_wake', 'contracts.fallback_wake'], 'level': 'proof',
        'level_text': 'Over real-valued time with a non-decreasing clock: a Timer visit fires iff now >= expiry and no unregistration is '
                      'pending, re-arms a persistent timer to now\' + interval (consecutive firings an interval apart), otherwise cuts the '
                      'idle wait to expiry - now; reduce_time_left only lowers; the fallback generator AND the kernel wait of each poller '
                      '(Select/Poll/EPoll._generate_events) block for at most time_left, untimed only when nothing is pending; the poller stops '
                      'the event so that no second blocker runs; decorator priorities put every timer before any blocking handler (with C02).',
        'level_note': 'trusted: time.time non-decreasing, floats as reals, mktime/timetuple, threading.Event, select/poll/epoll block at most '
                      'the time given; C07 for the one-shot unregistration.',
        'explanation': 'timer contracts discharged by z3',
    },
    'C03': {
        'modules': ['contracts.core_timers', 'contracts.core_dispatch', 'contracts.pollers', 'contracts.pollers_wake', 'contracts.fallback_wake'], 'level': 'other',
        'level_text': 'PARTIAL: only the four sequential mechanisms of the wake-up hand-shake are proved as post-conditions (foreign-thread '
                      'branch of _fire, arming block of the dispatcher, reduce_time_left -> resume, clear-before-wait and timeout reads), '
                      'since round 5 including the poller halves as contracts: BasePoller.resume writes the control pipe on EVERY call, the kernel '
                      'wait of Select/Poll/EPoll is the event\'s time_left, the control pipe is part of what the kernel watches. '
                      'That they compose to "nothing lost, loop always wakes" under every interleaving is NOT decided by sequential contracts.',
        'level_note': 'sequential reasoning only; the interleaving quantifier of the property is out of reach of this technique family '
                      '(would need interference-freedom of unlocked writes = protocol model checking).',
        'explanation': 'Contract-based deductive verification is sequential: the check discharges the post-conditions of the four critical '
                       'sections named in the property anchors and can therefore only detect changes that break one of them; the '
                       'composition over thread schedules (no lost wake-up, exactly-once, per-thread FIFO) is not mechanised.',
        'not_decided': ['every statement about interleavings: lost wake-ups, cross-thread exactly-once and per-thread order'],
    },
    'C07': {
        'modules': ['contracts.core_handlers', 'contracts.core_tree'], 'level': 'proof',
        'level_text': 'Forest representation invariant with ghost subtree sets (reflexive, transitive, antisymmetric, child<->parent, '
                      'upward unfolding, root, laminar), each conjunct re-established by register and by the completion of unregister '
                      'for every forest satisfying the quantifier\'s preconditions; exactly one registered/unregistered; queued events '
                      'move to the new root. Induction over histories is the standard invariant argument.',
        'level_note': 'lemma G8 (used by the recursive _updateRoot) is machine-checked in lemmas/Forest.lean from the proved conjuncts; '
                      'assumed: the forest is finite (a rank decreasing towards the parent exists), which also gives termination of the '
                      'recursion; handlers as callbacks; one thread.',
        'explanation': 'forest contracts discharged by z3 (quantified, uninterpreted reference sort)',
    },
    'C01': {
        'modules': ['contracts.core_handlers', 'contracts.core_dispatch'], 'level': 'proof',
        'level_text': 'getHandlers is proved equal to the spec set HSET(root, name, channel) (handlers of components in the ghost '
                      'subtree that are declared for the name / catch-all / global and match the channel) for every forest, by a '
                      'recursive contract with loop invariants; addHandler/removeHandler change exactly the tables of the method and '
                      'mark the root cache stale; every operation that changes the tree or creates a root marks the affected caches '
                      'stale; the dispatcher clears a stale cache before lookup and builds the list from getHandlers, each handler once.',
        'level_note': 'forest lemma G8 is machine-checked (lemmas/Forest.lean) from the Forest conjuncts; assumed: finiteness of the forest '
                      '(rank), hence termination of the recursion; sorted(); multi-channel duplicates outside the statement; cache coherence '
                      'across histories is the invariant argument of DESIGN 3.1 over these per-operation duties.',
        'explanation': 'handler-set contracts discharged by z3 (quantified)',
    },
    'C17': {
        'modules': ['contracts.websocket'], 'level': 'proof',
        'level_text': 'For every byte string: _parse_messages raises nothing, keeps an incomplete frame whole in the stash and changes '
                      'nothing else, decodes a complete frame from its own bytes only (locality, by read tracking) against an '
                      'independently written frame grammar, with fragmentation, ping/pong and close gates; _encode_tail equals the spec '
                      'encoding for the three length forms and masking; decode(encode(d)) = d with the XOR involution proved by the '
                      'complete 256x256 table; segmentation invariance then follows by lemmas/Seg.lean.',
        'level_note': 'trusted: utf-8 decode (uninterpreted total function), os.urandom, str.encode; XOR as uninterpreted function with '
                      'the table-proved involution; the Lean lemma links per-iteration facts to all segmentations.',
        'explanation': 'websocket codec contracts discharged by z3/cvc5',
    },
    'C19': {
        'modules': ['contracts.node'], 'level': 'proof',
        'level_text': 'PARTIAL: add_buffer/__process_packet absorb every byte string; every delimiter-terminated piece of stash + data is '
                      'processed exactly once in order and an unterminated tail that is not (yet) a JSON document is kept whole for the '
                      'next read (the loaders\' JSON error is reported, not swallowed); firewalls: a refused event is never transmitted '
                      '(send) nor dispatched (__process_packet_call), on every path; load_event/load_value are verified for EVERY value '
                      'json.loads can return (dynamic JSON value model): only the declared exceptions escape, and no peer-chosen metadata '
                      'key that the dispatching core reads (set recomputed from the ASTs on every run) is ever set on an event or value. '
                      'Bounded stand-ins (labelled): segmentation of real packet streams, JSON round trip, hostile packet grammar '
                      'against a live loop.'
                      ' Round 5: a call is transmitted and remembered under an id no call in flight on this connection has (representation invariant of the pending table proved at every suspension); the pending table is per connection (structural; defect fixed 10ac3b6).',
        'level_note': 'not decided: "executed exactly once on the peer and the result comes back" (two-party protocol over two loops); '
                      'trusted: JSON itself (json.loads raises only JSONDecodeError/RecursionError; objects are self-delimiting, so a tail '
                      'accepted as a packet is a complete one); load_event/firewall/dump_event by their contracts.',
        'explanation': 'node protocol contracts discharged by z3 + AST obligations; segmentation, serialisation and hostile grammar bounded',
        'not_decided': ['remote execution exactly once with result return (two-party protocol)', 'JSON round trip beyond the bounded grammar'],
    },
    'C15': {
        'modules': ['contracts.http_server', 'contracts.http_headers'], 'level': 'proof',
        'level_text': 'Framing case analysis over symbolic bodies: prepare() sets Content-Length to the byte length of a sized body, '
                      'otherwise chunked xor close, Connection header agreeing; _on_response writes status line + headers then the exact '
                      'body (hex framing and one terminator when chunked), nothing for HEAD/1xx/204/304, closes iff announced and '
                      'releases the client entry; _on_stream frames non-empty chunks and terminates once.'
                      ' Round 5: a message answered from _on_read (httperror, redirect) leaves no parser on a connection that stays open (keep-alive clause); Headers.__str__/__bytes__: one `name: value CRLF` line per header then exactly one empty line.',
        'level_note': 'trusted/opaque: header formatting (Headers.__bytes__, status line) as uninterpreted functions, hex(), str.encode, '
                      'the lemma sum of part lengths = length of concatenation; an independent decoder is expressed as the framing '
                      'equations, not run.',
        'explanation': 'response framing contracts discharged by z3/cvc5',
        'not_decided': ['header VALUES containing CR/LF (header injection is not part of the statement; Headers.__str__ itself is under contract since round 5)', 'keep-alive sequences of several requests (per-request contracts + C14 clean-up + the no-stale-parser obligation of _on_read)'],
    },
    'C14': {
        'modules': ['contracts.http_server'], 'level': 'proof',
        'level_text': 'PARTIAL: per read and for every parser outcome the HTTP component fires nothing, one close, one httperror, one '
                      'redirect or one request (never error and request together); rejected messages, TLS hellos and disconnects '
                      'release the per-connection tables; only declared conversion errors can reach the dispatcher, where '
                      '_on_exception answers a failed read with exactly one httperror carrying a fresh 500 response and _on_httperror '
                      'turns every httperror into exactly one response; the parser contracts of C13 (stash discipline, chunk '
                      'completion signalled only by the terminating chunk) are obligations of C14 as well. Universality over the byte '
                      'language of the grammar functions is bounded (see C13).'
                      ' Round 5: response/stream handlers create per-connection state - in any table of the component, including tables the constructor adds - only for a connection that is still known; _on_disconnect releases every such table.',
        'level_note': 'wrappers.Request/Response constructors as summaries; that the dispatcher fires one exception event per raising '
                      'handler and goes on is C04; bytes of the error response are C15.',
        'explanation': 'per-call outcome, clean-up, error-path and parser contracts discharged by z3/cvc5',
        'not_decided': ['which byte strings the grammar functions reject (bounded, C13)', 'syntactic validity of the error response (C15 framing)'],
    },
    'C13': {
        'modules': ['contracts.http_parser', 'contracts.http_server', 'contracts.http_client'], 'level': 'proof',
        'level_text': 'Stash discipline of HttpParser per phase, for every stash and every new data: the first line and the header block '
                      'are searched in stash + data, an incomplete unit is kept whole without error, a complete one is consumed from the '
                      'front; identity bodies by an additive arithmetic contract; chunked bodies consume a chunk only when size line, '
                      'payload and CRLF are present; across all phases and any number of iterations of execute() the unconsumed bytes stay a '
                      'suffix of stash + data (loop invariant: nothing lost, repeated or reordered); _parse_firstline signals a rejected '
                      'line through errno. The Lean lemma Seg.segmentation_invariant turns the per-step facts into equality '
                      'for all segmentations. Grammar functions are opaque (bounded purity/segmentation stand-in, labelled).'
                      ' Round 5: the client-side handler (protocols/http.py HTTP._on_client_read) is under contract: every read whole and once to the parser, a response event only with a complete header block, the parser kept iff nothing was fired.',
        'level_note': 'trusted: correspondence between the Lean step and the loop body; unicode_escape/urlsplit/regex grammar opaque; '
                      'web/http.py and protocols/http.py callers use the parser through its contract (C14).',
        'explanation': 'parser stash-discipline contracts discharged by z3/cvc5 + Lean lemma; grammar bounded',
        'not_decided': ['request-line/header grammar (opaque functions; bounded stand-in)', 'client-side read-until-close bodies (HTTP._on_client_read itself is under contract since round 5)', 'content-encoding'],
    },
}

"""Registry: property id -> contract modules (each exports SPECS) and evidence/manifest metadata (plain data, no z3)."""
REGISTRY = {
    'C16': {
        'modules': ['contracts.static'], 'level': 'proof',
        'level_text': 'For all Range headers and lengths, and for all request paths / docroots / mount points, the contracts on '
                      'get_ranges and Static._on_request are discharged on every path of the real functions (loop invariants, no bound); '
                      'the path-normalisation functions of os.path are trusted uninterpreted functions, so containment is proved '
                      'without relying on what ".." resolves to.',
        'level_note': 'trusted: os.path.abspath/join/dirname/exists/isfile/isdir, urllib unquote/quote (uninterpreted, axioms listed in '
                      'evidence.trusted_base), int(str)/str.strip/str.split axiomatisation; front-end URL sanitising is not assumed.',
        'explanation': 'contracts on get_ranges / Static._on_request discharged path-wise by z3/cvc5',
        'not_decided': ['multipart/byteranges generator body of serve_file', 'URL.abspath/escape of the HTTP front-end guard'],
    },
}

"""C07 — the component tree stays a consistent forest under register/unregister.

Ghost: G_sub[c] = the set of components in the subtree of c (repr set).  Forest invariant (each conjunct a separate
obligation), over all components:
  refl      x in sub[x]
  trans     y in sub[x] and z in sub[y] => z in sub[x]
  antisym   y in sub[x] and x in sub[y] => x = y                      (acyclic)
  child     c in components[p]  <=>  parent[c] = p and c != p          (parent and child links agree)
  unfold    x in sub[y]  <=>  x = y or (parent[x] != x and parent[x] in sub[y])
  root      x in sub[root[x]] and parent[root[x]] = root[x]            (root is the top of the tree x is in)
  laminar   x in sub[a] and x in sub[b] => a in sub[b] or b in sub[a]  (subtrees nest or are disjoint)
Functions under contract: BaseComponent.register, unregister, _do_prepare_unregister_complete, _updateRoot;
Manager.registerChild, unregisterChild; _EventQueue.drainFrom.
"""
import z3
from pyvc.core import *  # noqa
from pyvc import core, lib
from pyvc.contract import FucSpec, LoopSpec, sym, obj, cover, uf, noop

SPECS = []
COMP = 'circuits/core/components.py'
MGR = 'circuits/core/manager.py'
TREE_FIELDS = {'parent': Ref, 'root': Ref, 'components': Set(Ref), 'G_sub': Set(Ref), '_unregister_pending': Dyn(Bool),
               '_queue': Ref, '_cache_needs_refresh': Bool, '_executing_thread': Ref, 'complete_channels': Dyn(Tup(Ref)),
               'channel': Dyn(Any)}
R = core.RefSort


def H(I, f, heap=None):
    return (heap or I.st.heap)[f][0]


def isC(x):
    """x is a component (ghost universe of the forest); null is not"""
    return z3.And(x != core.null(), core.fn('IS_COMPONENT', R(), z3.BoolSort())(x))


def sub(I, a, x, heap=None):
    return z3.Select(z3.Select(H(I, 'G_sub', heap), a), x)


def par(I, x, heap=None):
    return z3.Select(H(I, 'parent', heap), x)


def root(I, x, heap=None):
    return z3.Select(H(I, 'root', heap), x)


def kids(I, p, c, heap=None):
    return z3.Select(z3.Select(H(I, 'components', heap), p), c)


def forest(I, heap=None):
    x, y, z_ = [core.fresh(n, R()) for n in 'xyz']
    a, b, c, p = [core.fresh(n, R()) for n in 'abcp']
    S = lambda u, v: sub(I, u, v, heap)  # noqa: E731
    P = lambda u: par(I, u, heap)        # noqa: E731
    return [
        ('closed', z3.ForAll([x], z3.Implies(isC(x), z3.And(isC(P(x)), isC(root(I, x, heap)))))),
        ('sub_closed', z3.ForAll([x, y], z3.Implies(z3.And(isC(x), S(x, y)), isC(y)))),
        ('refl', z3.ForAll([x], z3.Implies(isC(x), S(x, x)))),
        ('trans', z3.ForAll([x, y, z_], z3.Implies(z3.And(isC(x), S(x, y), S(y, z_)), S(x, z_)))),
        ('antisym', z3.ForAll([x, y], z3.Implies(z3.And(isC(x), isC(y), S(x, y), S(y, x)), x == y))),
        ('child', z3.ForAll([p, c], z3.Implies(z3.And(isC(p), isC(c)), kids(I, p, c, heap) == z3.And(P(c) == p, c != p)))),
        ('child_closed', z3.ForAll([p, c], z3.Implies(z3.And(isC(p), kids(I, p, c, heap)), isC(c)))),
        ('unfold', z3.ForAll([x, y], z3.Implies(z3.And(isC(x), isC(y)), S(y, x) == z3.Or(x == y, z3.And(P(x) != x, S(y, P(x))))))),
        ('root', z3.ForAll([x], z3.Implies(isC(x), z3.And(S(root(I, x, heap), x), P(root(I, x, heap)) == root(I, x, heap))))),
        ('laminar', z3.ForAll([x, a, b], z3.Implies(z3.And(isC(a), isC(b), S(a, x), S(b, x)), z3.Or(S(b, a), S(a, b))))),
    ]


def assume_forest(I):
    for n, f in forest(I):
        I.assume(f, 'requires Forest.' + n)


def oblige_forest(I, prefix='ensures.Forest.'):
    for n, f in forest(I):
        I.oblige(prefix + n, f)


def pending(I, x, heap=None):
    hp = heap or I.st.heap
    return z3.And(z3.Select(hp['_unregister_pending'][0], x), z3.Select(hp['_unregister_pending'][1], x))


def no_escape(I, outcome, allowed=()):
    kind, v = outcome
    if kind == 'raise':
        cover(I, 'raise')
        I.oblige('no_escape', z3.BoolVal(v.cls in allowed), detail='escaping %s' % v.cls)
        return True
    return False


def log(I, n):
    return I.st.ghost.setdefault(n, [])


# ----------------------------------------------------------------------------- callee contracts
def s_registerChild(I, recv, args, kw):
    """contract of Manager.registerChild(component) (verified below) + ghost graft of the subtree"""
    p, (c,) = recv, args
    log(I, 'REGCHILD').append((p, c))
    if I.st.choice(2, 'unregistrable') == 1:
        lib.raise_(I, 'UnregistrableError')
    comps = H(I, 'components')
    new = z3.Store(comps, p.t, z3.Store(z3.Select(comps, p.t), c.t, True))
    I.st.heap['components'] = [new]
    rt = root(I, p.t)
    I.st.write_field(rt, '_cache_needs_refresh', VBool(True))
    I.st.havoc_field('_executing_thread')
    log(I, 'DRAIN').append((z3.Select(H(I, '_queue'), rt), z3.Select(H(I, '_queue'), c.t)))
    graft(I, p.t, c.t)
    return NONE


def graft(I, p, c):
    """ghost: every ancestor-or-self of p gains the subtree of c"""
    old = H(I, 'G_sub')
    new = core.fresh('G_sub_grafted', old.sort())
    a, x = core.fresh('a', R()), core.fresh('x', R())
    I.assume(z3.ForAll([a, x], z3.Select(z3.Select(new, a), x) ==
                       z3.Or(z3.Select(z3.Select(old, a), x), z3.And(z3.Select(z3.Select(old, a), p), z3.Select(z3.Select(old, c), x)))))
    I.st.heap['G_sub'] = [new]


def prune(I, c):
    """ghost: every proper ancestor of c loses the subtree of c"""
    old = H(I, 'G_sub')
    new = core.fresh('G_sub_pruned', old.sort())
    a, x = core.fresh('a', R()), core.fresh('x', R())
    proper_anc = z3.And(z3.Select(z3.Select(old, a), c), a != c)
    I.assume(z3.ForAll([a, x], z3.Select(z3.Select(new, a), x) ==
                       z3.And(z3.Select(z3.Select(old, a), x), z3.Not(z3.And(proper_anc, z3.Select(z3.Select(old, c), x))))))
    I.st.heap['G_sub'] = [new]


def s_unregisterChild(I, recv, args, kw):
    p, (c,) = recv, args
    log(I, 'UNREGCHILD').append((p, c))
    I.oblige('unregisterChild.requires.is_child', kids(I, p.t, c.t), detail='set.remove raises KeyError otherwise')
    comps = H(I, 'components')
    I.st.heap['components'] = [z3.Store(comps, p.t, z3.Store(z3.Select(comps, p.t), c.t, False))]
    I.st.write_field(root(I, p.t), '_cache_needs_refresh', VBool(True))
    prune(I, c.t)
    return NONE


def s_updateRoot(I, recv, args, kw):
    """contract of BaseComponent._updateRoot(root) (verified below): every component of the subtree of self gets the root"""
    s, (r,) = recv, args
    log(I, 'UPDROOT').append((s, r))
    old = H(I, 'root')
    new = core.fresh('root_updated', old.sort())
    x = core.fresh('x', R())
    I.assume(z3.ForAll([x], z3.Select(new, x) == z3.If(sub(I, s.t, x), r.t, z3.Select(old, x))))
    I.st.heap['root'] = [new]
    return NONE


def s_fire(I, recv, args, kw):
    log(I, 'FIRED').append(args[0])
    return I.st.fresh_ref('Value')


def ev(tag):
    return lambda I, r, a, k: VCons(tag, a)


TREE_CALLS = {'parent.registerChild': s_registerChild, 'self.parent.unregisterChild': s_unregisterChild, 'self._updateRoot': s_updateRoot,
              'self.fire': s_fire, 'registered': ev('registered'), 'unregistered': ev('unregistered'),
              'prepare_unregister': ev('prepare_unregister')}


def pending_hook(I, o):
    return VBool(pending(I, o.t))


# ----------------------------------------------------------------------------- register
def reg_setup(I):
    self = obj(I, 'self', 'Component')
    parent = obj(I, 'parent', 'Component')
    I.assume(z3.And(isC(self.t), isC(parent.t)))
    assume_forest(I)
    I.assume(par(I, self.t) == self.t, 'requires self is fully detached (its own parent)')
    I.assume(z3.Not(pending(I, self.t)), 'requires no unregistration of self is pending')
    I.assume(z3.Not(sub(I, self.t, parent.t)), 'requires the new parent is outside the subtree of self')
    I.assume(root(I, self.t) == self.t, 'a detached component is its own root (Forest.root)')
    return {'self': self, 'parent': parent}


def reg_post(I, outcome, ctx):
    kind, v = outcome
    a, pre = ctx['args'], ctx['pre']
    self, parent = a['self'], a['parent']
    if kind == 'raise':
        cover(I, 'unregistrable')
        I.oblige('raises_only_UnregistrableError', z3.BoolVal(v.cls == 'UnregistrableError'), detail='escaping %s' % v.cls)
        return
    cover(I, 'return')
    oblige_forest(I)
    x = core.fresh('x', R())
    I.oblige('ensures.parent_link', par(I, self.t) == parent.t)
    I.oblige('ensures.child_link', kids(I, parent.t, self.t))
    I.oblige('ensures.whole_subtree_joins_the_tree', z3.ForAll([x], z3.Implies(sub(I, self.t, x, pre), root(I, x) == root(I, parent.t, pre))),
             detail='a subtree registered as a whole stays connected: every member has the new root')
    I.oblige('ensures.subtree_unchanged', z3.ForAll([x], sub(I, self.t, x) == sub(I, self.t, x, pre)))
    I.oblige('ensures.others_keep_their_root', z3.ForAll([x], z3.Implies(z3.And(isC(x), z3.Not(sub(I, self.t, x, pre))), root(I, x) == root(I, x, pre))))
    regs = [e for e in log(I, 'FIRED') if e.tag == 'registered']
    I.oblige('ensures.announced_exactly_once', z3.BoolVal(len(regs) == 1 and len(log(I, 'FIRED')) == 1))
    for e in regs:
        I.oblige('ensures.announcement_names_component_and_parent', z3.And(e.args[0].t == self.t, e.args[1].t == parent.t))
    dr = log(I, 'DRAIN')
    I.oblige('ensures.queued_events_move_to_the_new_root', z3.And(z3.BoolVal(len(dr) == 1), *[z3.And(
        d[0] == z3.Select(H(I, '_queue', pre), root(I, parent.t, pre)), d[1] == z3.Select(H(I, '_queue', pre), self.t)) for d in dr]),
        detail='events queued on the component before registration are handed to the queue of its new root')
    I.oblige('ensures.returns_self', v.t == self.t)


SPECS.append(FucSpec(
    'C07', COMP, 'BaseComponent.register', reg_setup, reg_post, fields=TREE_FIELDS, calls=TREE_CALLS,
    exc_parents={'UnregistrableError': 'Exception'}, cover=['return'],
    clause='register(c, p) with c detached, not pending and p outside c\'s subtree: Forest preserved, c is a child of p, the whole '
           'subtree of c gets p\'s root, other components keep theirs, queued events move to the new root, exactly one registered(c, p)'))


# ----------------------------------------------------------------------------- unregister
def unreg_setup(I):
    self = obj(I, 'self', 'Component')
    I.assume(isC(self.t))
    assume_forest(I)
    return {'self': self}


def unreg_post(I, outcome, ctx):
    if no_escape(I, outcome):
        return
    cover(I, 'return')
    a, pre = ctx['args'], ctx['pre']
    self = a['self']
    noop_ = z3.Or(pending(I, self.t, pre), par(I, self.t, pre) == self.t)
    fired = log(I, 'FIRED')
    pu = [e for e in fired if e.tag == 'prepare_unregister']
    I.oblige('noop_when_pending_or_detached', z3.Implies(noop_, z3.BoolVal(len(fired) == 0)))
    I.oblige('one_prepare_unregister_otherwise', z3.Implies(z3.Not(noop_), z3.BoolVal(len(pu) == 1 and len(fired) == 1)))
    I.oblige('marked_pending', z3.Implies(z3.Not(noop_), pending(I, self.t)))
    for e in pu:
        cc = e.attrs.get('complete_channels')
        I.oblige('completion_reported_to_the_component_itself', z3.BoolVal(isinstance(cc, VTuple) and len(cc.items) == 1) if not isinstance(cc, VTuple)
                 else z3.And(z3.BoolVal(len(cc.items) == 1), cc.items[0].t == self.t))
        I.oblige('prepare_unregister_names_the_component', e.args[0].t == self.t)
    for f in ('parent', 'root', 'components', 'G_sub'):
        for o, n in zip(pre[f], I.st.heap[f]):
            I.oblige('tree_untouched_until_completion.' + f, o == n)
    I.oblige('cache_invalidated', z3.Implies(z3.Not(noop_), z3.Select(H(I, '_cache_needs_refresh'), root(I, self.t))))


SPECS.append(FucSpec(
    'C07', COMP, 'BaseComponent.unregister', unreg_setup, unreg_post, fields=TREE_FIELDS, calls=TREE_CALLS,
    getattr_hooks={'unregister_pending': pending_hook}, cover=['return'],
    clause='unregister(): no effect when pending or detached; otherwise marks pending and fires exactly one prepare_unregister whose '
           'completion is reported to the component itself; the tree is untouched until then'))


# ----------------------------------------------------------------------------- _do_prepare_unregister_complete
def dpu_setup(I):
    self = obj(I, 'self', 'Component')
    I.assume(isC(self.t))
    assume_forest(I)
    I.assume(z3.Select(H(I, '_unregister_pending'), self.t), 'requires an unregistration is pending (attribute present)')
    return {'self': self, 'e': obj(I, 'e', 'Event'), 'value': sym(I, 'value', Any)}


def dpu_post(I, outcome, ctx):
    if no_escape(I, outcome):
        return
    cover(I, 'return')
    a, pre = ctx['args'], ctx['pre']
    self = a['self']
    oblige_forest(I)
    x = core.fresh('x', R())
    I.oblige('ensures.detached', par(I, self.t) == self.t)
    I.oblige('ensures.subtree_stays_connected', z3.ForAll([x], z3.Implies(sub(I, self.t, x, pre), root(I, x) == self.t)),
             detail='a subtree detached as a whole keeps its members and becomes its own tree')
    I.oblige('ensures.subtree_unchanged', z3.ForAll([x], sub(I, self.t, x) == sub(I, self.t, x, pre)))
    p0 = par(I, self.t, pre)
    I.oblige('ensures.gone_from_the_former_tree', z3.Implies(p0 != self.t, z3.Not(sub(I, root(I, self.t, pre), self.t))),
             detail='the former tree no longer contains the component (so it receives nothing further from it, by C01)')
    I.oblige('ensures.others_keep_their_root', z3.ForAll([x], z3.Implies(z3.And(isC(x), z3.Not(sub(I, self.t, x, pre))), root(I, x) == root(I, x, pre))))
    un = [e for e in log(I, 'FIRED') if e.tag == 'unregistered']
    I.oblige('ensures.announced_exactly_once', z3.BoolVal(len(un) == 1 and len(log(I, 'FIRED')) == 1))
    for e in un:
        I.oblige('ensures.announcement_names_component_and_former_parent', z3.And(e.args[0].t == self.t, e.args[1].t == p0))
    I.oblige('ensures.pending_flag_cleared', z3.Not(z3.Select(H(I, '_unregister_pending'), self.t)))


SPECS.append(FucSpec(
    'C07', COMP, 'BaseComponent._do_prepare_unregister_complete', dpu_setup, dpu_post, fields=TREE_FIELDS, calls=TREE_CALLS, cover=['return'],
    clause='completion of an unregistration: Forest preserved, the component is its own parent and the root of its whole subtree, it '
           'is gone from the former tree, others keep their root, exactly one unregistered(c, former parent), flag cleared'))


# ----------------------------------------------------------------------------- _updateRoot (recursive)
def CHILD_OF(y, x):
    """ghost skolem: the child of y whose subtree contains x (for x in sub[y], x != y)"""
    return core.fn('CHILD_TOWARDS', R(), R(), R())(y, x)


def ur_setup(I):
    self = obj(I, 'self', 'Component')
    r = obj(I, 'root', 'Component')
    I.assume(isC(self.t))
    assume_forest(I)
    x = core.fresh('x', R())
    # G8 (consequence of unfold + acyclicity, stated with a skolem function; proved as a lemma obligation below)
    I.st.ghost['ROOT0'] = H(I, 'root')
    return {'self': self, 'root': r}


def g8(I, y):
    x = core.fresh('x', R())
    c = CHILD_OF(y, x)
    return z3.ForAll([x], z3.Implies(z3.And(sub(I, y, x), x != y), z3.And(kids(I, y, c), sub(I, c, x))))


def ur_inv(I):
    self, r = I.local('self'), I.local('root')
    vis = I.local('__visited0').arr
    root0 = I.st.ghost['ROOT0']
    x = core.fresh('x', R())
    done = z3.Or(x == self.t, z3.And(sub(I, self.t, x), z3.Select(vis, CHILD_OF(self.t, x))))
    return z3.ForAll([x], root(I, x) == z3.If(done, r.t, z3.Select(root0, x)))


def s_child_updateRoot(I, recv, args, kw):
    return s_updateRoot(I, recv, args, kw)


def ur_post(I, outcome, ctx):
    if no_escape(I, outcome):
        return
    cover(I, 'return')
    a, pre = ctx['args'], ctx['pre']
    self, r = a['self'], a['root']
    x = core.fresh('x', R())
    I.oblige('ensures.subtree_gets_root', z3.ForAll([x], z3.Implies(sub(I, self.t, x), root(I, x) == r.t)))
    I.oblige('ensures.others_untouched', z3.ForAll([x], z3.Implies(z3.Not(sub(I, self.t, x)), root(I, x) == root(I, x, pre))))
    for f in ('parent', 'components', 'G_sub'):
        for o, n in zip(pre[f], I.st.heap[f]):
            I.oblige('frame.' + f, o == n)


def ur_setup2(I):
    a = ur_setup(I)
    I.assume(g8(I, a['self'].t), 'lemma G8: a non-trivial member of a subtree lies in the subtree of exactly one child (from unfold, antisym, laminar)')
    return a


SPECS.append(FucSpec(
    'C07', COMP, 'BaseComponent._updateRoot', ur_setup2, ur_post, fields=TREE_FIELDS, calls={'c._updateRoot': s_child_updateRoot},
    loops={0: LoopSpec(inv=[('visited_subtrees_done', ur_inv)], havoc_fields=['root'])}, cover=['return'],
    trusted=['lemma G8 (every non-trivial member of sub[y] lies below some child of y) is used as an assumption of this FUC; it is PROVED in '
             'lemmas/Forest.lean from the conjuncts G2 and G4 (themselves obligations of every tree operation) given a rank that decreases '
             'towards the parent: what stays assumed is that the component forest is finite (such a rank exists) and that the Lean '
             'statement is the SMT formula used here; termination of the recursion rests on the same rank and is not proved separately'],
    clause='_updateRoot(r): every component in the subtree of self gets root r, all others keep theirs (recursive contract, loop '
           'invariant over the visited children)'))


# ----------------------------------------------------------------------------- Manager.registerChild / unregisterChild / drainFrom
def rc_setup(I):
    self = obj(I, 'self', 'Manager')
    c = obj(I, 'component', 'Component')
    rt = I.field(self, 'root')
    I.assume(z3.And(rt.t != core.null(), I.field(rt, '_queue').t != core.null()))
    return {'self': self, 'component': c}


def s_drain(I, recv, args, kw):
    log(I, 'DRAIN').append((recv.t, args[0].t))
    return NONE


def rc_post(I, outcome, ctx):
    kind, v = outcome
    a, pre = ctx['args'], ctx['pre']
    self, c = a['self'], a['component']
    rt = z3.Select(pre['root'][0], self.t)
    if kind == 'raise':
        cover(I, 'unregistrable')
        I.oblige('raises_only_UnregistrableError', z3.BoolVal(v.cls == 'UnregistrableError'), detail='escaping %s' % v.cls)
        I.oblige('refused_only_when_both_are_running', z3.And(z3.Select(pre['_executing_thread'][0], c.t) != core.null(),
                                                              z3.Select(pre['_executing_thread'][0], rt) != core.null()))
        for o, n in zip(pre['components'], I.st.heap['components']):
            I.oblige('refusal_changes_nothing', o == n)
        return
    cover(I, 'return')
    x, p = core.fresh('x', R()), core.fresh('p', R())
    I.oblige('child_added', z3.ForAll([p, x], kids(I, p, x) == z3.Or(kids(I, p, x, pre), z3.And(p == self.t, x == c.t))))
    dr = log(I, 'DRAIN')
    I.oblige('queue_drained_into_root', z3.And(z3.BoolVal(len(dr) == 1), *[z3.And(d[0] == z3.Select(pre['_queue'][0], rt),
                                                                                   d[1] == z3.Select(pre['_queue'][0], c.t)) for d in dr]))
    I.oblige('cache_invalidated', z3.Select(H(I, '_cache_needs_refresh'), rt))
    for f in ('parent', 'root'):
        for o, n in zip(pre[f], I.st.heap[f]):
            I.oblige('frame.' + f, o == n)


SPECS.append(FucSpec(
    'C07', MGR, 'Manager.registerChild', rc_setup, rc_post, fields=TREE_FIELDS, calls={'*.drainFrom': s_drain},
    exc_parents={'UnregistrableError': 'Exception'}, cover=['return', 'unregistrable'],
    clause='registerChild(c): c joins self.components, c\'s queued events are drained into the root queue, the root cache is '
           'invalidated; refused (nothing changed) only when both trees are running'))


def uc_setup(I):
    self = obj(I, 'self', 'Manager')
    c = obj(I, 'component', 'Component')
    I.assume(I.field(self, 'root').t != core.null())
    I.assume(kids(I, self.t, c.t), 'requires c is a child (Forest.child at the call site)')
    return {'self': self, 'component': c}


def uc_post(I, outcome, ctx):
    if no_escape(I, outcome):
        return
    cover(I, 'return')
    a, pre = ctx['args'], ctx['pre']
    self, c = a['self'], a['component']
    x, p = core.fresh('x', R()), core.fresh('p', R())
    I.oblige('child_removed', z3.ForAll([p, x], kids(I, p, x) == z3.And(kids(I, p, x, pre), z3.Not(z3.And(p == self.t, x == c.t)))))
    I.oblige('cache_invalidated', z3.Select(H(I, '_cache_needs_refresh'), z3.Select(pre['root'][0], self.t)))


SPECS.append(FucSpec('C07', MGR, 'Manager.unregisterChild', uc_setup, uc_post, fields=TREE_FIELDS, cover=['return'],
                     clause='unregisterChild(c): c leaves self.components (only), the root cache is invalidated'))


from contracts.core_queue import Q_FIELDS, ENTRY, views  # noqa: E402


def df_setup(I):
    q = obj(I, 'self', '_EventQueue')
    o = obj(I, 'other_queue', '_EventQueue')
    I.assume(q.t != o.t)
    f, h = views(I, q)
    f2, h2 = views(I, o)
    I.assume(z3.And(f.lo <= f.hi, f2.lo <= f2.hi, h2.lo <= h2.hi))
    I.st.inputs['other_is_flushing'] = h2.hi > h2.lo
    return {'self': q, 'other_queue': o}


def df_post(I, outcome, ctx):
    kind, v = outcome
    a, pre = ctx['args'], ctx['pre']
    q, o = a['self'], a['other_queue']
    h2 = List(ENTRY).wrap([z3.Select(x, o.t) for x in pre['_priority_queue']])
    if kind == 'raise':
        cover(I, 'assert')
        I.oblige('raises_only_AssertionError_when_other_is_flushing', z3.And(z3.BoolVal(v.cls == 'AssertionError'), h2.hi > h2.lo),
                 detail='escaping %s' % v.cls)
        return
    cover(I, 'return')
    f, _ = views(I, q)
    f0 = List(ENTRY).wrap([z3.Select(x, q.t) for x in pre['_queue']])
    o0 = List(ENTRY).wrap([z3.Select(x, o.t) for x in pre['_queue']])
    of, _ = views(I, o)
    n0, m = f0.hi - f0.lo, o0.hi - o0.lo
    I.oblige('nothing_lost.length', f.hi - f.lo == n0 + m)
    k = core.fresh('k', z3.IntSort())
    I.oblige('own_events_keep_their_place', z3.ForAll([k], z3.Implies(z3.And(0 <= k, k < n0), z3.And(
        *[z3.Select(x, f.lo + k) == z3.Select(y, f0.lo + k) for x, y in zip(f.arrs, f0.arrs)]))))
    I.oblige('drained_events_follow_in_order', z3.ForAll([k], z3.Implies(z3.And(0 <= k, k < m), z3.And(
        *[z3.Select(x, f.lo + n0 + k) == z3.Select(y, o0.lo + k) for x, y in zip(f.arrs, o0.arrs)]))))
    I.oblige('other_queue_emptied', of.hi == of.lo)


SPECS.append(FucSpec('C07', MGR, '_EventQueue.drainFrom', df_setup, df_post, fields=Q_FIELDS, cover=['return', 'assert'],
                     clause='drainFrom(other): the events queued on other are appended, in order, after the own ones and other is emptied '
                            '(refused by assertion while other is in the middle of a flush)'))


# lemma G8 (assumed by the recursive contracts above) is machine-checked: lemmas/Forest.lean derives it from the conjuncts G2
# (reflexive) and G4 (upward unfolding), which the verifier proves for every operation, and a rank that decreases towards the parent
from contracts.line_irc import lean_check as _lean_check      # noqa: E402
from pyvc.contract import CustomCheck as _CustomCheck          # noqa: E402
SPECS.append(_CustomCheck('C07', 'Forest.lean', _lean_check('Forest.lean'), file='lemmas/Forest.lean',
                          clause='lemma G8 (a non-trivial member of sub[y] lies below some child of y) follows from the proved conjuncts '
                                 'G2 and G4 of the Forest invariant and well-foundedness of the parent relation (Lean 4, no sorry)'))


# "a component whose unregistration has completed receives nothing further from its former tree" (C07) rests on the dispatcher
# never using a handler list cached before the tree changed: the cache contract of _dispatcher (written for C01) is an obligation of
# C07 as well.  (Imported lazily: core_handlers imports this module.)
def _register_dispatcher_cache_under_C07():
    import copy
    from contracts import core_handlers as ch
    # ... and so are the invalidation duties at the end of an unregistration and at a registration: the component that becomes
    # its own root again must not keep dispatching from the handler list of its earlier life as a root (a component that was
    # unregistered from IT meanwhile would still receive its events; one that joined it would be cut off)
    for s in list(ch.SPECS):
        if getattr(s, 'name', '') in ('Manager._dispatcher[cache]', '_do_prepare_unregister_complete[cache]', 'register[cache]') \
                and s.prop == 'C01':
            c = copy.copy(s)
            c.prop = 'C07'
            SPECS.append(c)

"""Dynamic model of the values json.loads can return (used by the C19 contracts on load_event / load_value).

A JSON value is a term of the uninterpreted sort Any with a tag (null, bool, int, float, str, list, dict) and uninterpreted
projections.  Every operation the real code performs on such a value branches on the tag and raises what CPython raises for
the other tags (TypeError / KeyError / AttributeError / ValueError), so "what can a hostile packet make this code do" is
explored for every JSON value, not for a grammar of samples.

TRUSTED (listed in the evidence): this table of CPython behaviours for dict/list/str/number/None operands, and that
json.loads raises only ValueError (JSONDecodeError) or RecursionError.
"""
import z3
from pyvc.core import *  # noqa
from pyvc import core, lib

A = core.AnySort
S = z3.StringSort
NULL, BOOL, INT, FLOAT, STR, LIST, DICT = range(7)


def jtag(t):
    return core.fn('json_tag', A(), z3.IntSort())(t)


def jstr(t):
    return core.fn('json_str', A(), S())(t)


def jtruthy(t):
    return core.fn('json_truthy', A(), z3.BoolSort())(t)


def jhas(t, k):
    return core.fn('json_has_key', A(), S(), z3.BoolSort())(t, k)


def jget(t, k):
    return core.fn('json_get', A(), S(), A())(t, k)


def jlen(t):
    return core.fn('json_len', A(), z3.IntSort())(t)


def jkeys(t):
    return core.fn('json_item_keys', A(), z3.ArraySort(z3.IntSort(), S()))(t)


def jvals(t):
    return core.fn('json_item_vals', A(), z3.ArraySort(z3.IntSort(), A()))(t)


def jhashable(t):
    """hash(x) succeeds: scalars, and tuples of hashable elements"""
    return core.fn('json_hashable_as_tuple', A(), z3.BoolSort())(t)


class _JsonKind(Kind):
    def sorts(self):
        return [A()]

    def wrap(self, terms):
        return JsonV(terms[0])

    def unwrap(self, value, st=None):
        if isinstance(value, JsonV):
            return [value.t]
        return [core.any_inject(value)]

    def __repr__(self):
        return 'Json'


Json = _JsonKind()


def trusted(I):
    I.st.trusted_used.add('JSON value model: CPython behaviour of subscript/.items()/dict()/tuple()/hash()/bool()/*args/**kwargs on '
                          'None, bool, int, float, str, list, dict operands; json.loads raises only ValueError or RecursionError; '
                          'JSON object keys are str')


class JsonV(VModel):
    """an arbitrary value produced by json.loads"""

    def __init__(self, t):
        self.t = t

    def __repr__(self):
        return 'Json(%s)' % self.t

    def kind_(self):
        return Json

    def any_term(self):
        return self.t

    def is_(self, *tags):
        return z3.Or([jtag(self.t) == g for g in tags])

    def truthy(self, I):
        return jtruthy(self.t)

    def getitem(self, I, idx):
        trusted(I)
        idx = lib.unopt(I, idx)
        if isinstance(idx, VStr):
            if not I.branch(self.is_(DICT), 'json_is_dict'):
                # list/str: indices must be integers; None/number: not subscriptable
                lib.raise_(I, 'TypeError', VStr('subscript with a str key'))
            if not I.branch(jhas(self.t, idx.t), 'json_has_key'):
                lib.raise_(I, 'KeyError', idx)
            return JsonV(jget(self.t, idx.t))
        raise Unsupported('json subscript with %r' % (idx,))

    def items(self, I):
        """dict.items() of a JSON object: keys are str"""
        n = jlen(self.t)
        I.assume(n >= 0)
        return VList(Tup(Str, Json), [jkeys(self.t), jvals(self.t)], z3.IntVal(0), n)

    def getattr(self, I, name):
        trusted(I)
        if name == 'items':
            if not I.branch(self.is_(DICT), 'json_is_dict'):
                lib.raise_(I, 'AttributeError', VStr('items'))
            return VFunc('json.items', impl=lambda I2, b, a, k: self.items(I2))
        if name in ('startswith', 'endswith', 'lower', 'upper', 'strip', 'split', 'encode'):
            if not I.branch(self.is_(STR), 'json_is_str'):
                lib.raise_(I, 'AttributeError', VStr(name))
            return VFunc(name, bound=VStr(jstr(self.t)))
        raise Unsupported('attribute %s of a JSON value' % name)

    def star(self, I):
        """f(*x)"""
        trusted(I)
        if not I.branch(self.is_(STR, LIST, DICT), 'json_is_iterable'):
            lib.raise_(I, 'TypeError', VStr('argument after * must be an iterable'))
        return [JStar(self)]

    def dstar(self, I):
        """f(**x)"""
        trusted(I)
        if not I.branch(self.is_(DICT), 'json_is_dict'):
            lib.raise_(I, 'TypeError', VStr('argument after ** must be a mapping'))
        return {'**': self}


class JStar(Value):
    def __init__(self, j):
        self.j = j


class JTuple(VModel):
    """tuple(x) of a JSON value"""

    def __init__(self, src):
        self.src = src
        self.t = core.fn('json_tuple', A(), A())(src.t)

    def kind_(self):
        return Json

    def any_term(self):
        return self.t


class JDict(VModel):
    """dict(x): either a copy of a JSON object (str keys) or built from a list of pairs (arbitrary hashable keys)"""

    def __init__(self, src, str_keys, t=None):
        self.src, self.str_keys = src, str_keys
        self.t = t if t is not None else src.t

    def getattr(self, I, name):
        if name == 'items':
            if self.str_keys:
                return VFunc('dict.items', impl=lambda I2, b, a, k: self.src.items(I2))

            def f(I2, b, a, k):
                n = jlen(self.t)
                I2.assume(n >= 0)
                ks = core.fn('json_pair_keys', A(), z3.ArraySort(z3.IntSort(), A()))(self.t)
                return VList(Tup(Json, Json), [ks, jvals(self.t)], z3.IntVal(0), n)
            return VFunc('dict.items', impl=f)
        raise Unsupported('attribute %s of dict(json)' % name)


# ------------------------------------------------------------------ summaries of the builtins applied to JSON values
def s_json_loads(I, recv, args, kw):
    trusted(I)
    c = I.st.choice(3, 'json_loads')
    if c == 1:
        lib.raise_(I, 'JSONDecodeError', VStr('not (yet) a JSON document'))     # a ValueError subclass (exc_parents of the spec)
    if c == 2:
        lib.raise_(I, 'RecursionError', VStr('maximum recursion depth exceeded'))
    j = JsonV(core.fresh('json', A()))
    I.st.ghost['JSON_ROOT'] = j
    I.st.ghost['JSON_TEXT'] = args[0]
    return j


def s_bool(I, recv, args, kw):
    (x,) = args
    if isinstance(x, JsonV):
        return VBool(jtruthy(x.t))
    return VBool(lib.truthy(I, x))


def s_tuple(I, recv, args, kw):
    (x,) = args
    if isinstance(x, JsonV):
        trusted(I)
        if not I.branch(x.is_(STR, LIST, DICT), 'json_is_iterable'):
            lib.raise_(I, 'TypeError', VStr('object is not iterable'))
        return JTuple(x)
    raise Unsupported('tuple(%r)' % (x,))


def s_hash(I, recv, args, kw):
    (x,) = args
    if isinstance(x, JTuple):
        trusted(I)
        if not I.branch(jhashable(x.src.t), 'json_elements_hashable'):
            lib.raise_(I, 'TypeError', VStr('unhashable type'))
        I.st.ghost.setdefault('HASHED', []).append(x)
        return VInt(core.fresh('hash', z3.IntSort()))
    raise Unsupported('hash(%r)' % (x,))


def s_dict(I, recv, args, kw):
    if not args:
        return VCDict({})
    (x,) = args
    if not isinstance(x, JsonV):
        raise Unsupported('dict(%r)' % (x,))
    trusted(I)
    if I.branch(x.is_(DICT), 'json_is_dict'):
        return JDict(x, True)
    if I.branch(x.is_(LIST, STR), 'json_is_sequence'):
        # a sequence of 2-sequences with hashable first elements, or TypeError / ValueError
        c = I.st.choice(3, 'dict_of_pairs')
        if c == 1:
            lib.raise_(I, 'TypeError', VStr('cannot convert dictionary update sequence element'))
        if c == 2:
            lib.raise_(I, 'ValueError', VStr('dictionary update sequence element has the wrong length'))
        return JDict(x, False, core.fn('json_dict_of_pairs', A(), A())(x.t))
    lib.raise_(I, 'TypeError', VStr('object is not iterable'))


class StrSet(VModel):
    """a concrete set of str (e.g. META_EXCLUDE as imported from the real module on this run)"""

    def __init__(self, strings):
        self.strings = sorted(strings)

    def member(self, s):
        return z3.Or([s == z3.StringVal(x) for x in self.strings]) if self.strings else z3.BoolVal(False)

    def contains(self, I, item):
        item = lib.unopt(I, item)
        if isinstance(item, VStr):
            return self.member(item.t)
        if isinstance(item, JsonV):
            # keys of a dict are hashable; a non-str key is not a member of a set of str
            return z3.And(item.is_(STR), self.member(jstr(item.t)))
        raise Unsupported('%r in set of str' % (item,))


def key_str(I, k):
    """the str behind an attribute-name operand (raises TypeError for a non-str JSON key)"""
    k = lib.unopt(I, k)
    if isinstance(k, VStr):
        return k.t
    if isinstance(k, JsonV):
        if not I.branch(k.is_(STR), 'json_is_str'):
            lib.raise_(I, 'TypeError', VStr('attribute name must be string'))
        return jstr(k.t)
    raise Unsupported('attribute name %r' % (k,))

"""C13 (client side) - circuits/protocols/http.py HTTP._on_client_read: "the same holds for responses received by the HTTP client".

The client owns ONE HttpParser per response.  Segmentation invariance of the response stream is the parser's (contracts.http_parser)
plus three duties of this handler, for every read and every parser state:
  * every read is handed to the current parser, whole and exactly once (so the parser sees the concatenation of the reads);
  * a `response` event is fired only when the parser has at least the complete header block (status, version and headers of the
    event are then functions of the stream, not of where it was cut), and at most one per read;
  * the parser - i.e. the stash of an unfinished message - is kept iff no response was fired, and replaced by a fresh one iff one was.
The parser's accessor methods are summaries of its state (trusted getters); execute() is the contract of contracts.http_parser.
"""
import z3
from pyvc.core import *  # noqa
from pyvc import core, lib
from pyvc.contract import FucSpec, sym, obj, cover

SPECS = []
FILE = 'circuits/protocols/http.py'
FIELDS = {
    '_parser': RefOf('HttpParser'), '_encoding': Str,
    'G_headers_complete': Bool, 'G_message_complete': Bool, 'G_upgrade': Bool, '_clen': Opt(Int), 'G_status': Int, 'G_fresh': Bool,
    'headers': Any, 'status': Int, 'version': Any, 'body': Ref,
}


def log(I, n):
    return I.st.ghost.setdefault(n, [])


def cr_setup(I):
    self = obj(I, 'self', 'HTTP')
    data = sym(I, 'data', Bytes)
    p = I.field(self, '_parser')
    I.assume(z3.And(p.t != core.null(), p.t != self.t), 'rep invariant: the component always has a parser (__init__, replaced after a response)')
    I.st.ghost['P0'] = p
    return {'self': self, 'data': data}


def s_execute(I, recv, args, kw):
    """contract of HttpParser.execute (contracts.http_parser): consumes the data into the parser state; the flags only go up, and a
    complete message or an upgrade implies a complete header block"""
    log(I, 'EXECUTED').append((recv, list(args)))
    hc0 = I.fz(recv, 'G_headers_complete')
    for f in ('G_headers_complete', 'G_message_complete', 'G_upgrade', '_clen', 'G_status', 'G_fresh'):
        I.st.havoc_field(f)
    hc, mc, up = I.fz(recv, 'G_headers_complete'), I.fz(recv, 'G_message_complete'), I.fz(recv, 'G_upgrade')
    I.assume(z3.And(z3.Implies(mc, hc), z3.Implies(up, hc), z3.Implies(hc0, hc)), 'HttpParser: message complete / upgrade => headers complete')
    I.assume(z3.Not(I.fz(recv, 'G_fresh')))
    I.st.trusted_used.add('HttpParser accessors (is_message_complete, is_headers_complete, is_upgrade, get_status_code, get_version, '
                          'get_headers, recv_body) return the state execute() left; the status code is known from the first line on, '
                          'the header map only once the header block is complete')
    return VInt(z3.Length(args[0].t))


def flag(name):
    return lambda I, r, a, k: VBool(I.fz(r, name))


def s_HttpParser(I, recv, args, kw):
    p = I.st.fresh_ref('HttpParser')
    I.st.write_field(p.t, 'G_fresh', VBool(True))
    for f in ('G_headers_complete', 'G_message_complete', 'G_upgrade'):
        I.st.write_field(p.t, f, VBool(False))
    log(I, 'NEW_PARSERS').append(p)
    return p


def s_ResponseObject(I, recv, args, kw):
    r = I.st.fresh_ref('ResponseObject')
    b = I.st.fresh_ref('BytesIO')
    I.st.write_field(r.t, 'body', b)
    log(I, 'RESPONSES').append((r, list(args)))
    return r


def s_fire(I, recv, args, kw):
    log(I, 'FIRED').append(args[0])
    return I.st.fresh_ref('Value')


def s_body_write(I, recv, args, kw):
    log(I, 'BODY').append(args[0])
    return VInt(0)


def cr_post(I, outcome, ctx):
    kind, v = outcome
    if kind == 'raise':
        I.oblige('no_escape', z3.BoolVal(False), detail='escaping %s' % v.cls)
        return
    cover(I, 'return')
    self, data = ctx['args']['self'], ctx['args']['data']
    p0 = I.st.ghost['P0']
    ex = log(I, 'EXECUTED')
    I.oblige('every_read_goes_to_the_parser_exactly_once', z3.BoolVal(len(ex) == 1), detail='%d execute() calls' % len(ex))
    for recv, a in ex:
        I.oblige('the_read_goes_to_the_parser_of_this_connection', recv.t == p0.t)
        I.oblige('the_whole_read_is_handed_over', z3.And(a[0].t == data.t, coerce(a[1], Int).t == z3.Length(data.t)) if len(a) == 2 else z3.BoolVal(False))
    fired = [e for e in log(I, 'FIRED') if isinstance(e, VCons) and e.tag == 'response']
    I.oblige('at_most_one_response_per_read', z3.BoolVal(len(fired) <= 1 and len(fired) == len(log(I, 'FIRED'))))
    now = I.field(self, '_parser')
    hc, mc, up = I.fz(p0, 'G_headers_complete'), I.fz(p0, 'G_message_complete'), I.fz(p0, 'G_upgrade')
    if fired:
        cover(I, 'response')
        I.oblige('response_only_with_a_complete_header_block', hc,
                 detail='a response event before the header block is complete carries headers that depend on where the stream was cut, '
                        'and the rest of the block is fed to the next parser')
        I.oblige('a_fresh_parser_takes_over_after_a_response', z3.And(now.t != p0.t, I.fz(now, 'G_fresh')))
        rs = log(I, 'RESPONSES')
        ok = len(rs) == 1 and fired[0].args and isinstance(fired[0].args[0], VRef)
        I.oblige('the_event_carries_the_response_built_from_this_parser', fired[0].args[0].t == rs[0][0].t if ok else z3.BoolVal(False))
    else:
        cover(I, 'wait')
        I.oblige('an_unfinished_message_keeps_its_parser', now.t == p0.t, detail='the parser holds the stash of the unfinished message')
        I.oblige('a_complete_message_is_reported', z3.Not(mc), detail='the parser reports a complete message but no response was fired')


CALLS = {
    'self._parser.execute': s_execute, 'self._parser.is_message_complete': flag('G_message_complete'),
    'self._parser.is_headers_complete': flag('G_headers_complete'), 'self._parser.is_upgrade': flag('G_upgrade'),
    'self._parser.get_status_code': lambda I, r, a, k: VInt(I.fz(r, 'G_status')),
    'self._parser.get_version': lambda I, r, a, k: VTuple([VInt(core.fresh('maj', z3.IntSort())), VInt(core.fresh('min', z3.IntSort()))]),
    'self._parser.get_headers': lambda I, r, a, k: VAny(core.fresh('headers', core.AnySort())),
    'self._parser.recv_body': lambda I, r, a, k: VStr(core.fresh('body', z3.StringSort()), True),
    'ResponseObject': s_ResponseObject, 'HttpParser': s_HttpParser, 'self.fire': s_fire, 'response': lambda I, r, a, k: VCons('response', a, k),
    'res.body.write': s_body_write, 'res.body.seek': lambda I, r, a, k: VInt(0),
}

SPECS.append(FucSpec(
    'C13', FILE, 'HTTP._on_client_read', cr_setup, cr_post, name='client HTTP._on_client_read', fields=FIELDS, calls=CALLS,
    classes={'HttpParser', 'ResponseObject'}, cover=['return', 'response', 'wait'],
    clause='client side: every read goes whole and once to the connection\'s parser; a response event only with a complete header block, '
           'at most one per read; the parser (the stash of an unfinished message) is kept iff no response was fired and replaced by a '
           'fresh one iff one was'))

"""C03 / C09 - the wake-up half of the pollers: BasePoller.resume and BasePoller._on_generate_events under contract.

(Until round 5 these two were covered by textual checks of the source - `"os.write(self._ctrl_send, b'\\x00')" in src` - which a
harmless refactoring trips and a conditional wake-up passes.)
  * resume(): EVERY call writes one non-empty payload to the control pipe / socket the poller waits on.  C03's "fire() returning implies
    the loop dispatches that event without needing any timeout to expire" rests on it: reduce_time_left(0) calls resume() while the
    loop may be anywhere between reading time_left and entering the kernel wait, so a resume() that decides by some flag whether a
    wake-up is "needed" loses the wake-up whenever the flag is set a moment later.  Attributes of the poller the contract does not know
    are arbitrary values (opts auto_attrs): a conditional wake-up has a path that writes nothing.
  * _on_generate_events(event): stops the event (so the fallback generator, sorted behind the poller, does not block a second time for
    up to time_left) and hands it to _generate_events exactly once.
"""
import z3
from pyvc.core import *  # noqa
from pyvc import core, lib
from pyvc.contract import FucSpec, obj, cover

SPECS = []
FILE = 'circuits/core/pollers.py'
W_FIELDS = {'_ctrl_send': Ref, '_ctrl_recv': Ref, '_read': Bag(Ref), '_write': Bag(Ref), '_targets': Dict(Ref, Any), '_time_left': Real}


def log(I, n):
    return I.st.ghost.setdefault(n, [])


def rs_setup(I):
    self = obj(I, 'self', 'BasePoller')
    c = I.field(self, '_ctrl_send')
    I.assume(z3.And(c.t != core.null(), c.t != self.t), 'rep invariant: the control connection exists (__init__)')
    return {'self': self}


def s_ctrl_send(I, recv, args, kw):
    log(I, 'WAKE').append((recv, args[0] if args else None))
    return VInt(1)


def s_os_write(I, recv, args, kw):
    log(I, 'WAKE').append((args[0], args[1] if len(args) > 1 else None))
    return VInt(1)


def rs_post(I, outcome, ctx):
    kind, v = outcome
    if kind == 'raise':
        I.oblige('no_escape', z3.BoolVal(False), detail='escaping %s' % v.cls)
        return
    cover(I, 'return')
    self = ctx['args']['self']
    wake = log(I, 'WAKE')
    I.oblige('every_resume_wakes_the_kernel_wait', z3.BoolVal(len(wake) >= 1),
             detail='resume() returned without writing to the control pipe: a fire() from another thread that lands between the loop '
                    'reading time_left and entering select/poll/epoll is not noticed until a timeout expires (for ever without one)')
    for tgt, payload in wake:
        tgt = lib.unopt(I, tgt)
        I.oblige('the_wake_up_goes_to_the_control_connection', tgt.t == I.field(self, '_ctrl_send').t if isinstance(tgt, VRef) else z3.BoolVal(False))
        I.oblige('the_wake_up_is_not_empty', z3.Length(payload.t) >= 1 if isinstance(payload, VStr) else z3.BoolVal(False),
                 detail='an empty write wakes nobody')


RS_REPLAY = '''
import os, sys, select
from circuits.core import pollers
bad = []
for kind in ('Select', 'Poll', 'EPoll'):
    p = getattr(pollers, kind)()
    for state in range(3):
        # whatever state the poller is in (fresh, after a visit, after a resume that was consumed) a resume() must make the
        # control connection readable
        if state == 1:
            p._read_ctrl() if select.select([p._ctrl_recv], [], [], 0)[0] else None
        p.resume()
        if not select.select([p._ctrl_recv], [], [], 0)[0]:
            bad.append('%s: resume() #%d left the control connection unreadable: the kernel wait would not be interrupted' % (kind, state))
        else:
            p._read_ctrl()
for b in bad: print(b)
sys.exit(1 if bad else 0)
'''

for prop in ('C03', 'C09'):
    SPECS.append(FucSpec(
        prop, FILE, 'BasePoller.resume', rs_setup, rs_post, fields=W_FIELDS,
        calls={'self._ctrl_send.send': s_ctrl_send, 'os.write': s_os_write}, classes={'socket'}, opts={'auto_attrs': True},
        cover=['return'], replay=lambda model, ob: RS_REPLAY,
        clause='BasePoller.resume(): every call writes a non-empty payload to the control connection the kernel wait listens on - '
               'unconditionally, whatever else the poller knows about its own state'))


def og_setup(I):
    self = obj(I, 'self', 'BasePoller')
    event = obj(I, 'event', 'generate_events')
    return {'self': self, 'event': event}


def og_post(I, outcome, ctx):
    kind, v = outcome
    if kind == 'raise':
        I.oblige('no_escape', z3.BoolVal(False), detail='escaping %s' % v.cls)
        return
    cover(I, 'return')
    event = ctx['args']['event']
    seq = log(I, 'SEQ')
    gens = [a for k, a in seq if k == 'generate']
    I.oblige('one_kernel_visit_per_generate_events', z3.BoolVal(len(gens) == 1), detail='%d _generate_events calls' % len(gens))
    for a in gens:
        I.oblige('the_visit_gets_this_event', a[0].t == event.t if a and isinstance(a[0], VRef) else z3.BoolVal(False))
    stops = [a for k, a in seq if k == 'stop']
    I.oblige('the_event_is_stopped_for_the_blockers_behind', z3.BoolVal(len(stops) >= 1),
             detail='without event.stop() the fallback generator (priority -100) runs after the poller and may sleep up to time_left again')


for prop in ('C03', 'C09'):
    SPECS.append(FucSpec(
        prop, FILE, 'BasePoller._on_generate_events', og_setup, og_post, fields=W_FIELDS,
        calls={'event.stop': lambda I, r, a, k: (log(I, 'SEQ').append(('stop', [r])), NONE)[1],
               'self._generate_events': lambda I, r, a, k: (log(I, 'SEQ').append(('generate', list(a))), NONE)[1]},
        opts={'auto_attrs': True}, cover=['return'],
        clause='BasePoller._on_generate_events: the generate_events event is stopped (no second blocker behind the poller) and handed to '
               '_generate_events exactly once'))

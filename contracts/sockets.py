"""C11 (byte conservation, deferred close) and C12 (connection life cycle, no residue) for
circuits/net/sockets.py Server and Client and circuits/io/file.py File.

Ghost state: G_accepted[sock] = bytes the OS has taken (appended only by the trusted send contract),
G_closed[sock]; P_read/P_write[poller] = the BasePoller registration sets (contract of C10).
flat(buffer) = concatenation of the queued payloads.
"""
import ast
import z3
from pyvc.core import *  # noqa
from pyvc import core, lib
from pyvc.contract import FucSpec, LoopSpec, sym, obj, cover, uf, noop

SPECS = []
S = z3.StringSort

SRV_FIELDS = {
    '_clients': Bag(Ref), '_buffers': Dict(Ref, List(Bytes), default=True), '_closeq': Bag(Ref), '_poller': Ref, '_sock': Ref,
    '_Server__starttls': Set(Ref), '_bufsize': Int,
    'P_read': Set(Ref), 'P_write': Set(Ref), 'G_accepted': Bytes, 'G_closed': Bool,
}
EVENTS = ['read', 'write', 'error', 'disconnect', 'connect', 'close', 'closed', 'disconnected', 'connected', 'ready', 'eof']


def ev_ctor(tag):
    def f(I, recv, args, kw):
        return VCons(tag, args)
    return f


def s_fire(I, recv, args, kw):
    I.st.ghost.setdefault('FIRED', []).append(args[0])
    return I.st.fresh_ref('Value')


def fired(I, tag):
    return [e for e in I.st.ghost.get('FIRED', []) if isinstance(e, VCons) and e.tag == tag]


# ----------------------------------------------------------------------------- trusted: socket
def s_send(I, recv, args, kw):
    """TRUSTED socket.send(data): returns n with 0 <= n <= len(data) and the OS has taken data[:n], or raises
    OSError(errno) having taken nothing.  Requires the socket not to be closed."""
    I.st.trusted_used.add('socket.send / os.write: returns n in [0,len(data)] having accepted exactly data[:n], or raises '
                          'OSError(errno) having accepted nothing')
    (data,) = args
    I.st.ghost.setdefault('SENDS', []).append(recv)
    I.oblige('send.requires.not_closed', z3.Not(I.fz(recv, 'G_closed')), detail='nothing is written after the endpoint has closed')
    if I.st.choice(2, 'send') == 0:
        n = core.fresh('nsent', z3.IntSort())
        I.assume(z3.And(0 <= n, n <= z3.Length(data.t)))
        acc = I.fz(recv, 'G_accepted')
        I.assume(z3.Concat(z3.SubString(data.t, 0, n), z3.SubString(data.t, n, z3.Length(data.t) - n)) == data.t)
        I.st.write_field(recv.t, 'G_accepted', VStr(z3.Concat(acc, z3.SubString(data.t, 0, n)), True))
        I.st.inputs['send.n'] = n
        return VInt(n)
    errno = core.fresh('errno', z3.IntSort())
    I.st.inputs['send.errno'] = errno
    I.st.ghost['SEND_ERRNO'] = errno
    lib.raise_(I, 'OSError', VInt(errno))


def s_sock_close(I, recv, args, kw):
    I.st.ghost['SOCK_CLOSE_ATTEMPTED'] = I.st.ghost.get('SOCK_CLOSE_ATTEMPTED', 0) + 1
    if I.st.choice(2, 'sockclose') == 1:
        lib.raise_(I, 'OSError', VInt(core.fresh('errno', z3.IntSort())))
    I.st.write_field(recv.t, 'G_closed', VBool(True))
    return NONE


def s_sock_shutdown(I, recv, args, kw):
    if I.st.choice(2, 'shutdown') == 1:
        lib.raise_(I, 'OSError', VInt(core.fresh('errno', z3.IntSort())))
    return NONE


def s_recv(I, recv, args, kw):
    I.st.trusted_used.add('socket.recv: returns some bytes (possibly empty = peer closed) or raises OSError(errno)')
    if I.st.choice(2, 'recv') == 1:
        errno = core.fresh('errno', z3.IntSort())
        I.st.ghost['RECV_ERRNO'] = errno
        lib.raise_(I, 'OSError', VInt(errno))
    d = core.fresh('recvd', S())
    I.st.ghost['RECVD'] = d
    return VStr(d, True)


# ----------------------------------------------------------------------------- BasePoller contract (see contracts/pollers.py)
def poller_of(I):
    return I.field(I.local('self'), '_poller')


def s_isWriting(I, recv, args, kw):
    return VBool(z3.Select(I.field(recv, 'P_write').arr, args[0].t))


def s_isReading(I, recv, args, kw):
    return VBool(z3.Select(I.field(recv, 'P_read').arr, args[0].t))


def _pset(I, recv, fld, fd, val):
    cur = I.field(recv, fld)
    I.st.write_field(recv.t, fld, VSet(Ref, z3.Store(cur.arr, fd.t, val)))


def _requires_open(I, fd, op):
    """precondition of every registration change at Poll/EPoll (C10): the descriptor's number is read through fileno() at that moment,
    and a closed socket reports -1, so the kernel registration and the number -> descriptor map entry of the real number would
    survive (state retained for a connection that is gone, C12).  Discharged at the call sites in sockets.py / file.py."""
    if 'G_closed' in I.st.fields and isinstance(fd, VRef) and op == 'discard' and I.spec.prop == 'C12':
        owner = I.local('self')
        closed = I.fz(owner, 'G_closed') if getattr(owner, 'cls', None) in ('Client', 'File') else I.fz(fd, 'G_closed')   # endpoints keep the ghost on themselves
        I.oblige('poller.%s.requires.descriptor_not_yet_closed' % op, z3.Not(closed),
                 detail='the poller must be told to forget a descriptor BEFORE it is closed (fileno() of a closed socket is -1)')


def s_addWriter(I, recv, args, kw):
    src, fd = args
    _requires_open(I, fd, 'addWriter')
    # precondition of BasePoller.addWriter (C10): the registration lists are multisets without duplicates only if callers do not
    # register a descriptor twice for the same role (a duplicate would survive one removeWriter and keep producing events)
    I.oblige('poller.addWriter.requires.not_already_writing', z3.Not(z3.Select(I.field(recv, 'P_write').arr, fd.t)),
             detail='addWriter for a descriptor that is already registered for writing')
    I.st.ghost.setdefault('POLLER_OPS', []).append(('addWriter', fd))
    _pset(I, recv, 'P_write', fd, True)
    return NONE


def s_addReader(I, recv, args, kw):
    src, fd = args
    _requires_open(I, fd, 'addReader')
    I.oblige('poller.addReader.requires.not_already_reading', z3.Not(z3.Select(I.field(recv, 'P_read').arr, fd.t)),
             detail='addReader for a descriptor that is already registered for reading')
    I.st.ghost.setdefault('POLLER_OPS', []).append(('addReader', fd))
    _pset(I, recv, 'P_read', fd, True)
    return NONE


def s_removeWriter(I, recv, args, kw):
    (fd,) = args
    _requires_open(I, fd, 'removeWriter')
    I.oblige('removeWriter.requires.is_writing', z3.Select(I.field(recv, 'P_write').arr, fd.t),
             detail='BasePoller.removeWriter raises ValueError for a descriptor that is not registered')
    _pset(I, recv, 'P_write', fd, False)
    return NONE


def s_removeReader(I, recv, args, kw):
    (fd,) = args
    _requires_open(I, fd, 'removeReader')
    _pset(I, recv, 'P_read', fd, False)
    return NONE


def s_discard(I, recv, args, kw):
    (fd,) = args
    _requires_open(I, fd, 'discard')
    _pset(I, recv, 'P_read', fd, False)
    _pset(I, recv, 'P_write', fd, False)
    return NONE


POLLER_CALLS = {'self._poller.isWriting': s_isWriting, 'self._poller.isReading': s_isReading, 'self._poller.addWriter': s_addWriter,
                'self._poller.addReader': s_addReader, 'self._poller.removeWriter': s_removeWriter,
                'self._poller.removeReader': s_removeReader, 'self._poller.discard': s_discard}
BASE_CALLS = dict(POLLER_CALLS)
BASE_CALLS.update({e: ev_ctor(e) for e in EVENTS})
BASE_CALLS.update({'self.fire': s_fire, 'sock.send': s_send, 'sock.recv': s_recv, 'sock.close': s_sock_close,
                   'sock.shutdown': s_sock_shutdown, 'sock.setblocking': noop})


# ----------------------------------------------------------------------------- Server: views
def srv_objs(I):
    self = obj(I, 'self', 'Server')
    sock = obj(I, 'sock', 'socket')
    poller = I.field(self, '_poller')
    I.assume(poller.t != core.null(), 'requires a poller is attached (handlers run after ready)')
    I.assume(z3.And(poller.t != self.t, poller.t != sock.t, sock.t != self.t))
    cl = I.field(self, '_clients')
    x = core.fresh('x', core.RefSort())
    I.assume(z3.ForAll([x], z3.And(z3.Select(cl.arr, x) >= 0, z3.Select(cl.arr, x) <= 1)), 'rep invariant: _clients has no duplicates')
    cq = I.field(self, '_closeq')
    I.assume(z3.ForAll([x], z3.And(z3.Select(cq.arr, x) >= 0, z3.Select(cq.arr, x) <= 1)), 'rep invariant: _closeq has no duplicates')
    I.assume(z3.Select(cl.arr, core.null()) == 0)
    I.assume(z3.Implies(z3.Or(z3.Select(cl.arr, sock.t) > 0, sock.t == I.field(self, '_sock').t), z3.Not(I.fz(sock, 'G_closed'))),
             'rep invariant: connected sockets and the listener are open (only _close closes them, and it forgets them)')
    b = buf_of(I, self, sock)
    I.assume(b.lo <= b.hi)
    I.st.inputs['buffer.len'] = b.hi - b.lo
    I.st.inputs['sock_in_clients'] = z3.Select(cl.arr, sock.t) > 0
    I.st.inputs['sock_in_buffers'] = z3.Select(I.field(self, '_buffers').dom, sock.t)
    return self, sock


def buf_of(I, self, sock, heap=None):
    """the deque queued for sock (value stored in the dict, whether or not the key is present)"""
    d = I.field(self, '_buffers') if heap is None else heap_dict(I, heap, self)
    return lib.dict_get_slot(I, d, sock)[1]


def heap_dict(I, heap, self):
    k = SRV_FIELDS['_buffers']
    return k.wrap([z3.Select(a, self.t) for a in heap['_buffers']])


def pending(I, self, sock, heap=None):
    """bytes queued for sock: flat(buffer) if the key is present, else nothing"""
    d = I.field(self, '_buffers') if heap is None else heap_dict(I, heap, self)
    b = lib.dict_get_slot(I, d, sock)[1]
    I.assume(z3.Implies(b.hi <= b.lo, lib.flat(b) == z3.StringVal('')))
    return z3.If(z3.Select(d.dom, sock.t), lib.flat(b), z3.StringVal(''))


def accepted(I, sock, heap=None):
    if heap is None:
        return I.fz(sock, 'G_accepted')
    return z3.Select(heap['G_accepted'][0], sock.t)


def in_clients(I, self, sock, heap=None):
    arr = I.field(self, '_clients').arr if heap is None else z3.Select(heap['_clients'][0], self.t)
    return z3.Select(arr, sock.t) > 0


def clean(I, self, s):
    """no server or poller state is retained for s"""
    p = I.field(self, '_poller')
    return [
        ('not_in_clients', z3.Not(in_clients(I, self, s))),
        ('no_buffer', z3.Not(z3.Select(I.field(self, '_buffers').dom, s.t))),
        ('not_in_closeq', z3.Select(I.field(self, '_closeq').arr, s.t) <= 0),
        ('not_reading', z3.Not(z3.Select(I.field(p, 'P_read').arr, s.t))),
        ('not_writing', z3.Not(z3.Select(I.field(p, 'P_write').arr, s.t))),
        ('not_in_starttls', z3.Not(z3.Select(I.field(self, '_Server__starttls').arr, s.t))),
    ]


def clean_all(I, self, s):
    return z3.And([f for _, f in clean(I, self, s)])


def flat_wf(I, b):
    """unfold facts of flat on the current window (sound: definition of concatenation)"""
    lib.flat_axioms(I, b, b, b.lo - 1)


# ----------------------------------------------------------------------------- Server.write
def srv_write_setup(I):
    self, sock = srv_objs(I)
    data = sym(I, 'data', Bytes)
    return {'self': self, 'sock': sock, 'data': data}


def no_escape(I, outcome, allowed=()):
    kind, v = outcome
    if kind == 'raise':
        cover(I, 'raise')
        I.oblige('no_escape', z3.BoolVal(v.cls in allowed), detail='escaping %s' % v.cls)
        return True
    return False


def c11_write_post(I, outcome, ctx):
    if no_escape(I, outcome):
        return
    cover(I, 'return')
    a = ctx['args']
    self, sock, data = a['self'], a['sock'], a['data']
    pre = ctx['pre']
    connected = in_clients(I, self, sock, pre)
    # data offered to a connected socket is queued behind what was queued, nothing is sent or dropped
    I.oblige('conserve.queued_in_order', z3.Implies(connected, pending(I, self, sock) == z3.Concat(pending(I, self, sock, pre), data.t)))
    I.oblige('conserve.nothing_sent', accepted(I, sock) == accepted(I, sock, pre))
    p = I.field(self, '_poller')
    I.oblige('writer_interest_on', z3.Implies(connected, z3.Select(I.field(p, 'P_write').arr, sock.t)))


def c12_residue_post(extra=None):
    """NoResidue: a socket the server does not know (not connected, not the listener) and that is clean stays clean"""
    def post(I, outcome, ctx):
        if no_escape(I, outcome):
            return
        cover(I, 'return')
        a = ctx['args']
        self, sock = a['self'], a['sock']
        for lbl, f in clean(I, self, sock):
            I.oblige('no_residue.' + lbl, f)
        if extra:
            extra(I, outcome, ctx)
    return post


def gone_setup(base):
    """precondition for the NoResidue obligations: sock is neither connected nor the listening socket, and clean"""
    def setup(I):
        a = base(I)
        self, sock = a['self'], a['sock']
        I.assume(clean_all(I, self, sock), 'requires Clean(sock) (established by _close, see Server._close)')
        I.assume(sock.t != I.field(self, '_sock').t, 'sock is not the listening socket')
        I.st.inputs['late'] = z3.BoolVal(True)
        return a
    return setup


def any_setup(base):
    """NoResidue as an invariant step for an ARBITRARY socket (connected or not): requires the invariant for sock at entry"""
    def setup(I):
        a = base(I)
        self, sock = a['self'], a['sock']
        I.assume(sock.t != I.field(self, '_sock').t, 'sock is not the listening socket')
        I.assume(z3.Implies(z3.Not(in_clients(I, self, sock)), clean_all(I, self, sock)), 'requires NoResidue(sock): gone => Clean')
        return a
    return setup


def c12_any_post(I, outcome, ctx):
    """NoResidue preserved: whatever the handler did (including closing the connection on a fatal error half-way through), a socket
    that is not (or no longer) connected afterwards has no buffer, close-queue, STARTTLS or poller entry"""
    if no_escape(I, outcome):
        return
    cover(I, 'return')
    a = ctx['args']
    self, sock = a['self'], a['sock']
    gone = z3.Not(in_clients(I, self, sock))
    if I.st.feasible(z3.And(gone, in_clients(I, self, sock, ctx['pre']))):
        cover(I, 'disconnected_here')
    for lbl, f in clean(I, self, sock):
        I.oblige('no_residue_once_disconnected.' + lbl, z3.Implies(gone, f))


def live_replay(op_lines, what):
    def replay(model, ob):
        return '''
import errno, sys
from collections import defaultdict, deque
from circuits.net.sockets import TCPServer
class FakePoller:
    def __init__(self): self._read=[]; self._write=[]
    def isWriting(self, fd): return fd in self._write
    def isReading(self, fd): return fd in self._read
    def addWriter(self, src, fd): self._write.append(fd)
    def removeWriter(self, fd): self._write.remove(fd)
    def addReader(self, src, fd): self._read.append(fd)
    def removeReader(self, fd): self._read.remove(fd)
    def discard(self, fd):
        if fd in self._read: self._read.remove(fd)
        if fd in self._write: self._write.remove(fd)
class FakeSock:
    def send(self, d): raise OSError(errno.ECONNRESET, 'reset')
    def recv(self, n): raise OSError(errno.ECONNRESET, 'reset')
    def shutdown(self, how): pass
    def close(self): pass
srv = TCPServer.__new__(TCPServer)
srv._clients=[]; srv._closeq=[]; srv._buffers=defaultdict(deque); srv._poller=FakePoller(); srv._sock=FakeSock()
srv._Server__starttls=set(); srv._bufsize=4096
fired=[]
srv.fire = lambda e,*c: fired.append(e) or e
s = FakeSock()
srv._clients.append(s); srv._poller.addReader(srv, s)
%s
print('events:', [e.name for e in fired])
res = []
if s not in srv._clients:
    if s in srv._buffers: res.append('_buffers retains the socket')
    if s in srv._poller._write or s in srv._poller._read: res.append('poller retains the socket')
    if s in srv._closeq: res.append('_closeq retains the socket')
for r in res: print('%s:', r)
sys.exit(1 if res else 0)
''' % (op_lines, what)
    return replay


def late_replay(op):
    def replay(model, ob):
        return '''
import sys
from collections import defaultdict, deque
from circuits.net.sockets import TCPServer
class FakePoller:
    def __init__(self): self._read=[]; self._write=[]
    def isWriting(self, fd): return fd in self._write
    def addWriter(self, src, fd): self._write.append(fd)
    def removeWriter(self, fd): self._write.remove(fd)
    def addReader(self, src, fd): self._read.append(fd)
    def discard(self, fd):
        if fd in self._read: self._read.remove(fd)
        if fd in self._write: self._write.remove(fd)
class FakeSock:
    def send(self, d): return len(d)
    def shutdown(self, how): pass
    def close(self): pass
srv = TCPServer.__new__(TCPServer)
srv._clients=[]; srv._closeq=[]; srv._buffers=defaultdict(deque); srv._poller=FakePoller(); srv._sock=FakeSock()
srv._Server__starttls=set()
fired=[]
srv.fire = lambda e,*c: fired.append(e)
s = FakeSock()            # a socket whose connection is already gone
%s
res = []
if s in srv._buffers: res.append('_buffers retains the socket')
if s in srv._poller._write or s in srv._poller._read: res.append('poller retains the socket')
if s in srv._closeq: res.append('_closeq retains the socket')
for r in res: print('after late %s:', r)
sys.exit(1 if res else 0)
''' % (op, op.split('(')[0])
    return replay


SPECS.append(FucSpec('C11', 'circuits/net/sockets.py', 'Server.write', srv_write_setup, c11_write_post, fields=SRV_FIELDS,
                     calls=BASE_CALLS, cover=['return'],
                     clause='write(sock, data) queues data behind what is queued, sends nothing, turns writer interest on'))
SPECS.append(FucSpec('C12', 'circuits/net/sockets.py', 'Server.write', gone_setup(srv_write_setup), c12_residue_post(),
                     fields=SRV_FIELDS, calls=BASE_CALLS, cover=['return'], name='Server.write[late]',
                     replay=late_replay('srv.write(s, b"late")'),
                     clause='a write addressed to a socket that is already gone leaves no buffer or poller entry behind'))


# ----------------------------------------------------------------------------- Server._close (contract + summary)
def srv_close_setup(I):
    self, sock = srv_objs(I)
    return {'self': self, 'sock': sock}


def c12_close_post(I, outcome, ctx):
    if no_escape(I, outcome):
        return
    cover(I, 'return')
    a = ctx['args']
    self, sock, pre = a['self'], a['sock'], ctx['pre']
    was_client = in_clients(I, self, sock, pre)
    was_listener = sock.t == z3.Select(pre['_sock'][0], self.t)
    known = z3.Or(was_client, was_listener)
    nd = len(fired(I, 'disconnect'))
    I.oblige('disconnect_at_most_once', z3.BoolVal(nd <= 1))
    I.oblige('disconnect_iff_known', z3.BoolVal(nd == 1) == known, detail='exactly one disconnect for a connected socket, none otherwise')
    for e in fired(I, 'disconnect'):
        I.oblige('disconnect_names_sock', e.args[0].t == sock.t)
    for lbl, f in clean(I, self, sock):
        I.oblige('clean_after_close.' + lbl, z3.Implies(known, f))
    I.oblige('no_send', z3.BoolVal(len(I.st.ghost.get('SENDS', [])) == 0))
    I.oblige('socket_closed', z3.Implies(known, z3.BoolVal(I.st.ghost.get('SOCK_CLOSE_ATTEMPTED', 0) >= 1)),
             detail='_close of a connected socket must close the descriptor')
    I.oblige('only_disconnect_fired', z3.BoolVal(len(I.st.ghost.get('FIRED', [])) == nd))
    # frame: other sockets keep their state
    o = obj(I, 'other', 'socket')
    I.assume(o.t != sock.t)
    I.oblige('frame.other_clients', in_clients(I, self, o) == in_clients(I, self, o, pre))
    I.oblige('frame.other_pending', pending(I, self, o) == pending(I, self, o, pre))


SPECS.append(FucSpec('C12', 'circuits/net/sockets.py', 'Server._close', srv_close_setup, c12_close_post, fields=SRV_FIELDS,
                     calls=BASE_CALLS, cover=['return'],
                     clause='_close(sock): exactly one disconnect(sock) iff sock was connected (or the listener); afterwards no '
                            'client, buffer, close-queue or poller entry for sock; nothing sent; other sockets untouched'))


def s_srv_close_summary(I, recv, args, kw):
    """contract of Server._close (verified above) used at its call sites"""
    (sock,) = args
    self = recv
    I.st.ghost.setdefault('CLOSE_CALLS', []).append(sock)
    sock = lib.unopt(I, sock)
    if isinstance(sock, VNone):
        return NONE
    known = z3.Or(in_clients(I, self, sock), sock.t == I.field(self, '_sock').t)
    if not I.branch(known, 'close_known'):
        return NONE
    was_listener = sock.t == I.field(self, '_sock').t
    p = I.field(self, '_poller')
    _pset(I, p, 'P_read', sock, False)
    _pset(I, p, 'P_write', sock, False)
    d = I.field(self, '_buffers')
    I.st.write_field(self.t, '_buffers', VDict(d.kk, d.vk, z3.Store(d.dom, sock.t, False), d.vals, None, d.default))
    cl = I.field(self, '_clients')
    I.st.write_field(self.t, '_clients', VBag(Ref, z3.Store(cl.arr, sock.t, 0)))
    if I.branch(was_listener, 'was_listener'):
        I.st.write_field(self.t, '_sock', NONE)
    st = I.field(self, '_Server__starttls')
    I.st.write_field(self.t, '_Server__starttls', VSet(Ref, z3.Store(st.arr, sock.t, False)))
    cq = I.field(self, '_closeq')
    I.st.write_field(self.t, '_closeq', VBag(Ref, z3.Store(cq.arr, sock.t, 0)))   # clean_after_close.not_in_closeq (proved on _close)
    I.st.write_field(sock.t, 'G_closed', VBool(True))
    I.st.ghost.setdefault('FIRED', []).append(VCons('disconnect', [sock]))
    return NONE


# ----------------------------------------------------------------------------- Server._write
def srv__write_setup(I):
    self, sock = srv_objs(I)
    data = sym(I, 'data', Bytes)
    I.assume(z3.Implies(in_clients(I, self, sock), z3.Not(I.fz(sock, 'G_closed'))), 'rep invariant: connected sockets are open')
    return {'self': self, 'sock': sock, 'data': data}


TRANSIENT = None


def transient(I, errno):
    import errno as E
    return z3.Or(errno == E.EINTR, errno == E.EWOULDBLOCK, errno == E.ENOBUFS, errno == E.EAGAIN)


def c11__write_post(I, outcome, ctx):
    if no_escape(I, outcome):
        return
    cover(I, 'return')
    a = ctx['args']
    self, sock, data, pre = a['self'], a['sock'], a['data'], ctx['pre']
    connected = in_clients(I, self, sock, pre)
    total_before = z3.Concat(accepted(I, sock, pre), data.t, pending(I, self, sock, pre))
    total_after = z3.Concat(accepted(I, sock), pending(I, self, sock))
    errno = I.st.ghost.get('SEND_ERRNO')
    if errno is None:
        cover(I, 'sent_or_skipped')
        I.oblige('conserve.partial_or_full_send', z3.Implies(connected, total_after == total_before),
                 detail='accepted ++ queued is unchanged: the unsent tail goes back to the front')
        I.oblige('not_connected_sends_nothing', z3.Implies(z3.Not(connected), accepted(I, sock) == accepted(I, sock, pre)))
    else:
        cover(I, 'send_error')
        I.oblige('conserve.transient_refusal_requeues', z3.Implies(transient(I, errno), total_after == total_before),
                 detail='EAGAIN/EWOULDBLOCK/EINTR/ENOBUFS must lose nothing')
        sig = len(fired(I, 'error')) + len(fired(I, 'disconnect'))
        I.oblige('fatal_error_is_signalled', z3.Implies(z3.Not(transient(I, errno)), z3.BoolVal(sig >= 1)))
        I.oblige('accepted_is_prefix', accepted(I, sock) == accepted(I, sock, pre))


def _write_replay(cls_setup):
    def replay(model, ob):
        import errno as E
        err = model.get('send.errno')
        if not isinstance(err, int) or err not in (E.EAGAIN, E.EINTR, E.ENOBUFS, E.EWOULDBLOCK):
            err = E.EAGAIN
        return '''
import sys, errno
from collections import defaultdict, deque
%s
script = [OSError(%d, 'transient'), 5, 5]
sent = []
class FakeSock:
    def send(self, d):
        r = script.pop(0)
        if isinstance(r, Exception): raise r
        sent.append(bytes(d[:r])); return r
    def write(self, d): return self.send(d)
    def fileno(self): return 7
    def shutdown(self, how): pass
    def close(self): pass
ep, s, on_write = make(FakeSock())
ep_write = ep.write
(ep_write(s, b'hello') if NEEDS_SOCK else ep_write(b'hello'))
(ep_write(s, b'world') if NEEDS_SOCK else ep_write(b'world'))
for _ in range(3):
    on_write(s)
got = b''.join(sent)
print('send script: transient errno %d, then accept; bytes handed to the OS: %%r' %% got)
if got != b'helloworld':
    print('payload lost, repeated or reordered'); sys.exit(1)
sys.exit(0)
''' % (cls_setup, err, err)
    return replay


SRV_MAKE = '''
from circuits.net.sockets import TCPServer
NEEDS_SOCK = True
class FakePoller:
    def __init__(self): self._write=[]
    def isWriting(self, fd): return fd in self._write
    def addWriter(self, src, fd): self._write.append(fd)
    def removeWriter(self, fd): self._write.remove(fd)
    def discard(self, fd):
        if fd in self._write: self._write.remove(fd)
def make(s):
    srv = TCPServer.__new__(TCPServer)
    srv._clients=[s]; srv._closeq=[]; srv._buffers=defaultdict(deque); srv._poller=FakePoller(); srv._sock=object()
    srv._Server__starttls=set(); srv.fire = lambda e,*c: None
    return srv, s, srv._on_write
'''

SPECS.append(FucSpec('C11', 'circuits/net/sockets.py', 'Server._write', srv__write_setup, c11__write_post, fields=SRV_FIELDS,
                     calls=dict(BASE_CALLS, **{'self._close': s_srv_close_summary}), cover=['sent_or_skipped', 'send_error'],
                     replay=_write_replay(SRV_MAKE),
                     clause='_write: every outcome of send (accept k of n, transient errno, fatal errno) keeps accepted ++ queued '
                            'intact; fatal errors are signalled'))


def s_srv__write_summary(I, recv, args, kw):
    """contract of Server._write (verified above)"""
    sock, data = args
    self = recv
    if not I.branch(in_clients(I, self, sock), 'write_connected'):
        return NONE
    c = I.st.choice(3, '_write')
    before = z3.Concat(accepted(I, sock), data.t, pending(I, self, sock))
    if c == 2:
        # fatal: error + _close
        I.st.ghost.setdefault('FIRED', []).append(VCons('error', [sock]))
        return s_srv_close_summary(I, self, [sock], {})
    # conserve: havoc accepted and the buffer of sock, keeping accepted ++ pending
    d = I.field(self, '_buffers')
    nb = List(Bytes).fresh('buf_after_write')
    I.assume(nb.lo <= nb.hi)
    flat_wf(I, nb)
    nd = lib.dict_store(d, sock, nb)
    nd.loc = None
    nacc = core.fresh('acc_after_write', S())
    if c == 0:
        # some bytes were taken: accepted grows, queue holds the rest
        I.assume(z3.PrefixOf(accepted(I, sock), nacc))
    else:
        I.assume(nacc == accepted(I, sock))
    I.st.write_field(self.t, '_buffers', nd)
    I.st.write_field(sock.t, 'G_accepted', VStr(nacc, True))
    I.assume(z3.Concat(nacc, pending(I, self, sock)) == before, '_write.ensures.conserve')
    return NONE


# ----------------------------------------------------------------------------- Server._on_write
def srv_on_write_setup(I):
    self, sock = srv_objs(I)
    I.assume(z3.Implies(in_clients(I, self, sock), z3.Not(I.fz(sock, 'G_closed'))))
    return {'self': self, 'sock': sock}


def c11_on_write_post(I, outcome, ctx):
    if no_escape(I, outcome):
        return
    cover(I, 'return')
    a = ctx['args']
    self, sock, pre = a['self'], a['sock'], ctx['pre']
    connected = in_clients(I, self, sock, pre)
    still = in_clients(I, self, sock)
    before = z3.Concat(accepted(I, sock, pre), pending(I, self, sock, pre))
    after = z3.Concat(accepted(I, sock), pending(I, self, sock))
    I.oblige('conserve.while_connected', z3.Implies(z3.And(connected, still), after == before))
    I.oblige('accepted_only_grows', z3.PrefixOf(accepted(I, sock, pre), accepted(I, sock)))
    closes = I.st.ghost.get('CLOSE_CALLS', [])
    err = len(fired(I, 'error')) > 0
    if closes and not err:
        cover(I, 'deferred_close')
        # a requested close takes effect only once everything queued has been handed over
        I.oblige('close_waits_for_buffer', z3.Implies(connected, before == accepted(I, sock)),
                 detail='_close is reached only after all queued bytes were accepted')


SPECS.append(FucSpec('C11', 'circuits/net/sockets.py', 'Server._on_write', srv_on_write_setup, c11_on_write_post,
                     fields=SRV_FIELDS, calls=dict(BASE_CALLS, **{'self._write': s_srv__write_summary, 'self._close': s_srv_close_summary}),
                     cover=['return', 'deferred_close'],
                     clause='_on_write: one payload per event; accepted ++ queued unchanged; a deferred close happens only when the '
                            'queue has drained'))
SPECS.append(FucSpec('C12', 'circuits/net/sockets.py', 'Server._on_write', gone_setup(srv_on_write_setup), c12_residue_post(),
                     fields=SRV_FIELDS, calls=dict(BASE_CALLS, **{'self._write': s_srv__write_summary, 'self._close': s_srv_close_summary}),
                     cover=['return'], name='Server._on_write[late]', replay=late_replay('srv._on_write(s)'),
                     clause='a late writability event for a socket that is gone leaves nothing behind'))
SPECS.append(FucSpec('C12', 'circuits/net/sockets.py', 'Server._on_write', any_setup(srv_on_write_setup), c12_any_post,
                     fields=SRV_FIELDS, calls=dict(BASE_CALLS, **{'self._write': s_srv__write_summary, 'self._close': s_srv_close_summary}),
                     cover=['return', 'disconnected_here'], name='Server._on_write[any socket]',
                     replay=live_replay("srv.write(s, b'hello')\nsrv._on_write(s)      # send fails fatally: error + _close inside _write",
                                        'after a fatal send error in _on_write'),
                     clause='NoResidue preserved by _on_write for every socket: also when _write closes the connection on a fatal '
                            'send error nothing is re-created for it'))


# ----------------------------------------------------------------------------- Server.close(sock)
def srv_close_handler_setup(I):
    self, sock = srv_objs(I)
    return {'self': self, 'sock': sock}


def c11_close_post(I, outcome, ctx):
    if no_escape(I, outcome):
        return
    cover(I, 'return')
    a = ctx['args']
    self, sock, pre = a['self'], a['sock'], ctx['pre']
    closes = I.st.ghost.get('CLOSE_CALLS', [])
    nonempty = pending(I, self, sock, pre) != z3.StringVal('')
    b0 = lib.dict_get_slot(I, heap_dict(I, pre, self), sock)[1]
    has_items = z3.And(z3.Select(heap_dict(I, pre, self).dom, sock.t), b0.hi > b0.lo)
    I.oblige('close_deferred_while_buffered', z3.Implies(has_items, z3.BoolVal(len(closes) == 0)),
             detail='close with queued data only marks the socket; _close is not called')
    I.oblige('close_deferred_marks_closeq', z3.Implies(z3.And(has_items, in_clients(I, self, sock, pre)),
                                                      z3.Select(I.field(self, '_closeq').arr, sock.t) > 0))
    I.oblige('close_keeps_queued_bytes', z3.Implies(has_items, pending(I, self, sock) == pending(I, self, sock, pre)))
    I.oblige('close_sends_nothing', accepted(I, sock) == accepted(I, sock, pre))
    I.oblige('close_with_nothing_queued_closes_now', z3.Implies(z3.Not(has_items), z3.BoolVal(len(closes) == 1)),
             detail='close(sock) with an empty buffer must close the connection at once (nothing will drain later and trigger it)')


SPECS.append(FucSpec('C11', 'circuits/net/sockets.py', 'Server.close', srv_close_handler_setup, c11_close_post, fields=SRV_FIELDS,
                     calls=dict(BASE_CALLS, **{'self._close': s_srv_close_summary}), cover=['return'],
                     clause='close(sock) while data is queued defers: no _close, socket marked, queue untouched'))
SPECS.append(FucSpec('C12', 'circuits/net/sockets.py', 'Server.close', gone_setup(srv_close_handler_setup), c12_residue_post(),
                     fields=SRV_FIELDS, calls=dict(BASE_CALLS, **{'self._close': s_srv_close_summary}), cover=['return'],
                     name='Server.close[late]', replay=late_replay('srv.close(s)'),
                     clause='a close addressed to a socket that is already gone leaves no buffer or close-queue entry behind'))
SPECS.append(FucSpec('C12', 'circuits/net/sockets.py', 'Server.close', any_setup(srv_close_handler_setup), c12_any_post,
                     fields=SRV_FIELDS, calls=dict(BASE_CALLS, **{'self._close': s_srv_close_summary}), cover=['return', 'disconnected_here'],
                     name='Server.close[any socket]', replay=live_replay('srv.close(s)', 'after close(sock)'),
                     clause='NoResidue preserved by close(sock) for every socket'))


# ----------------------------------------------------------------------------- Server.close() - the whole server
# "a close requested while data is still buffered takes effect only after all of it has been written" holds for the argument-less
# form too (also reached through the `stopped` event): every connection is judged by ITS OWN buffer.  Verified per iteration of the
# loop over the listener and the clients (modular: an arbitrary element, an arbitrary state satisfying the representation invariants).
def srv_close_all_setup(I):
    self, sock = srv_objs(I)
    I.st.ghost['WITNESS'] = sock
    return {'self': self, 'sock': NONE}


def _loop_var(I):
    for n in ast.walk(I.fnode):
        if isinstance(n, ast.For) and isinstance(n.target, ast.Name):
            return I.local(n.target.id)
    raise core.Unsupported('no for loop with a simple target in Server.close')


def close_all_body(I):
    I.st.ghost['CLOSE_CALLS'] = []
    I.st.ghost['ITER_PRE'] = I.st.snapshot()
    x = lib.unopt(I, _loop_var(I))
    self = I.local('self')
    b = buf_of(I, self, x)
    I.assume(b.lo <= b.hi)
    y = core.fresh('y', core.RefSort())
    for f in ('_clients', '_closeq'):
        a_ = I.field(self, f).arr
        I.assume(z3.ForAll([y], z3.And(z3.Select(a_, y) >= 0, z3.Select(a_, y) <= 1)), 'rep invariant: %s has no duplicates' % f)
    I.st.ghost['ITER_PRE'] = I.st.snapshot()


def close_all_iter(I):
    self = I.local('self')
    x = lib.unopt(I, _loop_var(I))
    pre = I.st.ghost['ITER_PRE']
    closes = I.st.ghost.get('CLOSE_CALLS', [])
    b0 = lib.dict_get_slot(I, heap_dict(I, pre, self), x)[1]
    has_items = z3.And(z3.Select(heap_dict(I, pre, self).dom, x.t), b0.hi > b0.lo)
    cover(I, 'iteration')
    I.oblige('each_connection_judged_by_its_own_buffer.deferred_while_buffered',
             z3.Implies(has_items, z3.BoolVal(len(closes) == 0)),
             detail='close() with data still queued for this connection must not close it now (%d _close calls in the iteration)' % len(closes))
    I.oblige('each_connection_judged_by_its_own_buffer.marked_for_closing',
             z3.Implies(z3.And(has_items, in_clients(I, self, x, pre)), z3.Select(I.field(self, '_closeq').arr, x.t) > 0))
    I.oblige('each_connection_judged_by_its_own_buffer.queued_bytes_kept', z3.Implies(has_items, pending(I, self, x) == pending(I, self, x, pre)))
    I.oblige('each_connection_judged_by_its_own_buffer.drained_connection_closed_now',
             z3.Implies(z3.Not(has_items), z3.BoolVal(len(closes) == 1 and closes[0] is not None) if len(closes) != 1 else
                        lib.unopt(I, closes[0]).t == x.t),
             detail='a connection with nothing queued is closed at once, and it is THIS connection that is closed')
    I.oblige('close_sends_nothing', accepted(I, x) == accepted(I, x, pre))


def close_all_entry(I):
    """the loop runs over the listener and every client"""
    it = I.frame.env.get('__iter0')
    self = I.local('self')
    w = I.st.ghost['WITNESS']
    cl0 = I.field(self, '_clients')
    if isinstance(it, VBag):
        I.oblige('every_connection_is_visited', z3.Implies(z3.Select(cl0.arr, w.t) > 0, z3.Select(it.arr, w.t) > 0))
    elif isinstance(it, VSet):
        I.oblige('every_connection_is_visited', z3.Implies(z3.Select(cl0.arr, w.t) > 0, z3.Select(it.arr, w.t)))


def close_all_post(I, outcome, ctx):
    if no_escape(I, outcome):
        return
    cover(I, 'return')
    fired = [e for e in I.st.ghost.get('FIRED', []) if isinstance(e, VCons) and e.tag == 'closed']
    I.oblige('closed_announced_once', z3.BoolVal(len(fired) == 1), detail='%d closed events' % len(fired))


SPECS.append(FucSpec('C11', 'circuits/net/sockets.py', 'Server.close', srv_close_all_setup, close_all_post, fields=SRV_FIELDS,
                     calls=dict(BASE_CALLS, **{'self._close': s_srv_close_summary}), cover=['return', 'iteration'],
                     name='Server.close[whole server]',
                     loops={0: LoopSpec(inv=[('true', lambda I: z3.BoolVal(True))], modular=True, entry_hook=close_all_entry,
                                        body_hook=close_all_body, iter_hook=close_all_iter,
                                        havoc_fields=['_buffers', '_clients', '_closeq', '_sock', '_Server__starttls', 'P_read', 'P_write', 'G_closed'])},
                     clause='close() without a socket (also the reaction to `stopped`): the listener and every connection are visited and '
                            'each is judged by its own buffer - data queued: not closed now, marked, queue untouched; nothing queued: '
                            'closed at once'))


# ----------------------------------------------------------------------------- Server._read / _on_accept_done / _on_disconnect
def s_srv_close_handler_summary(I, recv, args, kw):
    """contract of Server.close(sock) at the call in _read (deferred or immediate close); recorded for the post"""
    I.st.ghost.setdefault('CLOSE_HANDLER_CALLS', []).append(args[0] if args else NONE)
    return NONE


def c12_read_post(I, outcome, ctx):
    if no_escape(I, outcome):
        return
    cover(I, 'return')
    a = ctx['args']
    self, sock, pre = a['self'], a['sock'], ctx['pre']
    connected = in_clients(I, self, sock, pre)
    reads = fired(I, 'read')
    g = I.st.ghost
    allfired = g.get('FIRED', [])
    I.oblige('unknown_socket_ignored', z3.Implies(z3.Not(connected), z3.BoolVal(len(allfired) == 0 and not g.get('CLOSE_CALLS')
                                                                                 and not g.get('CLOSE_HANDLER_CALLS'))))
    if 'RECVD' in g:
        d = g['RECVD']
        if reads:
            cover(I, 'data')
            I.oblige('one_read_event_with_the_bytes', z3.And(z3.BoolVal(len(reads) == 1 and len(allfired) == 1),
                                                             reads[0].args[0].t == sock.t, reads[0].args[1].t == d))
            I.oblige('read_event_only_for_nonempty', z3.Length(d) > 0)
        else:
            cover(I, 'eof')
            I.oblige('no_event_only_on_eof', z3.Length(d) == 0)
            ch = g.get('CLOSE_HANDLER_CALLS', [])
            I.oblige('eof_closes_the_socket', z3.And(z3.BoolVal(len(ch) == 1), *[c.t == sock.t for c in ch if isinstance(c, VRef)]))
    elif 'RECV_ERRNO' in g:
        import errno as E
        cover(I, 'recv_error')
        e = g['RECV_ERRNO']
        errs = fired(I, 'error')
        cl = g.get('CLOSE_CALLS', [])
        I.oblige('recv_error_signalled_and_closed', z3.Implies(e != E.EWOULDBLOCK, z3.BoolVal(len(errs) == 1 and len(cl) == 1)))
        I.oblige('would_block_is_silent', z3.Implies(e == E.EWOULDBLOCK, z3.BoolVal(len(allfired) == 0 and len(cl) == 0)))
    I.oblige('no_read_for_unknown', z3.Implies(z3.Not(connected), z3.BoolVal(len(reads) == 0)))


def srv_read_setup(I):
    self, sock = srv_objs(I)
    return {'self': self, 'sock': sock}


SPECS.append(FucSpec('C12', 'circuits/net/sockets.py', 'Server._read', srv_read_setup, c12_read_post, fields=SRV_FIELDS,
                     calls=dict(BASE_CALLS, **{'self._close': s_srv_close_summary, 'self.close': s_srv_close_handler_summary}),
                     cover=['data', 'eof', 'recv_error'],
                     clause='_read: one recv; data => exactly one read(sock, data) with those bytes; empty => close(sock); error => '
                            'error + _close; sockets that are not connected are ignored'))
SPECS.append(FucSpec('C12', 'circuits/net/sockets.py', 'Server._read', any_setup(srv_read_setup), c12_any_post, fields=SRV_FIELDS,
                     calls=dict(BASE_CALLS, **{'self._close': s_srv_close_summary, 'self.close': s_srv_close_handler_summary}),
                     cover=['return', 'disconnected_here'], name='Server._read[any socket]',
                     replay=live_replay('srv._read(s)      # recv fails fatally: error + _close', 'after a fatal recv error in _read'),
                     clause='NoResidue preserved by _read for every socket (fatal recv error closes the connection)'))


def srv_accept_setup(I):
    self, sock = srv_objs(I)
    I.assume(z3.Not(in_clients(I, self, sock)), 'the accepted socket is new')
    I.assume(clean_all(I, self, sock), 'the accepted socket is a fresh object: nothing is registered for it (and NoResidue keeps gone sockets clean)')
    return {'self': self, 'sock': sock}


def s_getpeername(I, recv, args, kw):
    if I.st.choice(2, 'getpeername') == 1:
        lib.raise_(I, 'OSError', VInt(107))
    return VTuple([VStr(core.fresh('host', S())), VInt(core.fresh('port', z3.IntSort()))])


def c12_accept_post(I, outcome, ctx):
    if no_escape(I, outcome):
        return
    cover(I, 'return')
    a = ctx['args']
    self, sock, pre = a['self'], a['sock'], ctx['pre']
    conns = fired(I, 'connect')
    he = I.st.ghost.get('HANDSHAKE_ERR', [])
    I.oblige('connect_once_or_handshake_error', z3.BoolVal((len(conns) == 1 and not he) or (len(conns) == 0 and len(he) == 1)))
    for c in conns:
        I.oblige('connect_names_sock', c.args[0].t == sock.t)
    if conns:
        cover(I, 'connected')
        I.oblige('client_registered', z3.Select(I.field(self, '_clients').arr, sock.t) == 1)
        p = I.field(self, '_poller')
        I.oblige('reader_registered', z3.Select(I.field(p, 'P_read').arr, sock.t))


def s_handshake_error(I, recv, args, kw):
    I.st.ghost.setdefault('HANDSHAKE_ERR', []).append(args[0])
    return NONE


SPECS.append(FucSpec('C12', 'circuits/net/sockets.py', 'Server._on_accept_done', srv_accept_setup, c12_accept_post, fields=SRV_FIELDS,
                     calls=dict(BASE_CALLS, **{'sock.getpeername': s_getpeername, 'self._on_handshake_error': s_handshake_error}),
                     cover=['connected'],
                     clause='_on_accept_done: the socket becomes a client with read interest and exactly one connect(sock, ...) is '
                            'fired (or the failure path is taken)'))

SPECS.append(FucSpec('C12', 'circuits/net/sockets.py', 'Server._on_disconnect', srv_close_setup,
                     lambda I, o, c: (no_escape(I, o) or (cover(I, 'return'), I.oblige(
                         'delegates_to__close', z3.BoolVal(len(I.st.ghost.get('CLOSE_CALLS', [])) == 1)))),
                     fields=SRV_FIELDS, calls=dict(BASE_CALLS, **{'self._close': s_srv_close_summary}), cover=['return'],
                     clause='_on_disconnect(sock) is exactly _close(sock)'))


# ============================================================================= Client and File endpoints
EP_FIELDS = {
    '_buffer': List(Bytes), '_closeflag': Bool, '_connected': Bool, '_sock': Ref, '_ssock': Ref, 'secure': Bool, '_poller': Ref,
    '_bufsize': Int, '_fd': Ref, '_encoding': Str, '_mode': Str,
    'P_read': Set(Ref), 'P_write': Set(Ref), 'G_accepted': Bytes, 'G_closed': Bool,
}


def ep_send(I, recv, args, kw):
    """trusted send/ssl write/os.write for single-connection endpoints: the accepted bytes are recorded on the endpoint"""
    I.st.trusted_used.add('socket.send / SSLSocket.write / os.write: returns n in [0,len(data)] having accepted exactly data[:n], '
                          'or raises OSError(errno) having accepted nothing')
    data = args[-1]
    self = I.local('self')
    I.st.ghost.setdefault('SENDS', []).append(recv)
    I.oblige('send.requires.not_closed', z3.Not(I.fz(self, 'G_closed')), detail='nothing is written after the endpoint has closed')
    if I.st.choice(2, 'send') == 0:
        n = core.fresh('nsent', z3.IntSort())
        I.assume(z3.And(0 <= n, n <= z3.Length(data.t)))
        I.assume(z3.Concat(z3.SubString(data.t, 0, n), z3.SubString(data.t, n, z3.Length(data.t) - n)) == data.t)
        acc = I.fz(self, 'G_accepted')
        I.st.write_field(self.t, 'G_accepted', VStr(z3.Concat(acc, z3.SubString(data.t, 0, n)), True))
        return VInt(n)
    errno = core.fresh('errno', z3.IntSort())
    I.st.inputs['send.errno'] = errno
    I.st.ghost['SEND_ERRNO'] = errno
    lib.raise_(I, 'OSError', VInt(errno))


def ep_handle_close(I, recv, args, kw):
    """socket/file object close(): marks the endpoint closed"""
    I.st.ghost['HANDLE_CLOSE_ATTEMPTED'] = I.st.ghost.get('HANDLE_CLOSE_ATTEMPTED', 0) + 1
    if I.st.choice(2, 'sockclose') == 1:
        lib.raise_(I, 'OSError', VInt(core.fresh('errno', z3.IntSort())))
    I.st.write_field(I.local('self').t, 'G_closed', VBool(True))
    return NONE


def ep_objs(kind):
    def f(I):
        self = obj(I, 'self', kind)
        p = I.field(self, '_poller')
        I.assume(p.t != core.null(), 'requires a poller is attached')
        h = I.field(self, '_fd' if kind == 'File' else '_sock')
        I.assume(z3.And(h.t != core.null(), h.t != self.t, p.t != self.t, p.t != h.t))
        b = I.field(self, '_buffer')
        I.assume(b.lo <= b.hi)
        I.st.inputs['buffer.len'] = b.hi - b.lo
        if kind == 'Client':
            I.assume(z3.Implies(I.fz(self, '_connected'), z3.Not(I.fz(self, 'G_closed'))), 'rep invariant: connected => open')
            I.assume(z3.Implies(z3.Not(I.fz(self, '_connected')), b.hi == b.lo), 'rep invariant: nothing queued when not connected')
        return self
    return f


def ep_pending(I, self, heap=None):
    if heap is None:
        b = I.field(self, '_buffer')
    else:
        b = List(Bytes).wrap([z3.Select(a, self.t) for a in heap['_buffer']])
    I.assume(z3.Implies(b.hi <= b.lo, lib.flat(b) == z3.StringVal('')))
    return lib.flat(b)


def ep_acc(I, self, heap=None):
    return I.fz(self, 'G_accepted') if heap is None else z3.Select(heap['G_accepted'][0], self.t)


def ep_calls(kind):
    c = dict(POLLER_CALLS)
    c.update({e: ev_ctor(e) for e in EVENTS})
    c.update({'self.fire': s_fire, 'self._sock.send': ep_send, 'self._ssock.write': ep_send, 'fd_write': ep_send,
              'self._fd.fileno': lambda I, r, a, k: VInt(core.fresh('fileno', z3.IntSort())),
              'self._sock.shutdown': s_sock_shutdown, 'self._sock.close': ep_handle_close, 'self._fd.close': ep_handle_close})
    return c


def ep_closed_hook(I, o):
    return VBool(I.fz(o, 'G_closed'))


def ep_close_summary(I, recv, args, kw):
    """contract of Client._close / File._close (verified below)"""
    self = recv
    I.st.ghost.setdefault('CLOSE_CALLS', []).append(self)
    kind = self.cls
    live = I.fz(self, '_connected') if kind == 'Client' else z3.Not(I.fz(self, 'G_closed'))
    if not I.branch(live, 'close_live'):
        return NONE
    h = I.field(self, '_fd' if kind == 'File' else '_sock')
    p = I.field(self, '_poller')
    _pset(I, p, 'P_read', h, False)
    _pset(I, p, 'P_write', h, False)
    b = I.field(self, '_buffer')
    I.st.write_field(self.t, '_buffer', VList(Bytes, b.arrs, b.lo, b.lo))
    I.st.write_field(self.t, '_closeflag', VBool(False))
    I.st.write_field(self.t, '_connected', VBool(False))
    I.st.write_field(self.t, 'G_closed', VBool(True))
    I.st.ghost.setdefault('FIRED', []).append(VCons('disconnected' if kind == 'Client' else 'closed', []))
    return NONE


def ep__write_post(kind):
    def post(I, outcome, ctx):
        if no_escape(I, outcome):
            return
        cover(I, 'return')
        self, data, pre = ctx['args']['self'], ctx['args']['data'], ctx['pre']
        wire = I.st.ghost.get('WIRE', data.t)
        before = z3.Concat(ep_acc(I, self, pre), wire, ep_pending(I, self, pre))
        after = z3.Concat(ep_acc(I, self), ep_pending(I, self))
        errno = I.st.ghost.get('SEND_ERRNO')
        if errno is None:
            cover(I, 'sent')
            I.oblige('conserve.partial_or_full_send', after == before)
        else:
            cover(I, 'send_error')
            I.oblige('conserve.transient_refusal_requeues', z3.Implies(transient(I, errno), after == before),
                     detail='EAGAIN/EWOULDBLOCK/EINTR/ENOBUFS must lose nothing')
            sig = len(fired(I, 'error')) + len(fired(I, 'disconnected')) + len(fired(I, 'closed'))
            I.oblige('fatal_error_is_signalled', z3.Implies(z3.Not(transient(I, errno)), z3.BoolVal(sig >= 1)))
            I.oblige('accepted_is_prefix', ep_acc(I, self) == ep_acc(I, self, pre))
    return post


def ep__write_setup(kind, text=False):
    def setup(I):
        self = ep_objs(kind)(I)
        data = sym(I, 'data', Str if text else Bytes)
        if text:
            # a str payload written to a File opened in text mode; on the wire it is its encoding
            I.st.ghost['WIRE'] = core.fn('py_encode', S(), S())(data.t)
        I.assume(z3.Not(I.fz(self, 'G_closed')), 'requires endpoint open (callers: __on_write with a non-empty buffer)')
        if kind == 'Client':
            I.assume(I.fz(self, '_connected'))
        return {'self': self, 'data': data}
    return setup


CLIENT_MAKE = '''
from circuits.net.sockets import TCPClient
NEEDS_SOCK = False
class FakePoller:
    def __init__(self): self._write=[]
    def isWriting(self, fd): return fd in self._write
    def addWriter(self, src, fd): self._write.append(fd)
    def removeWriter(self, fd): self._write.remove(fd)
    def discard(self, fd):
        if fd in self._write: self._write.remove(fd)
def make(s):
    c = TCPClient.__new__(TCPClient)
    c._sock=s; c._ssock=None; c.secure=False; c._poller=FakePoller(); c._buffer=deque(); c._closeflag=False; c._connected=True
    c.fire = lambda e,*ch: None
    return c, s, c._Client__on_write
'''
FILE_MAKE = '''
import os
from circuits.io import file as F
NEEDS_SOCK = False
class FakePoller:
    def __init__(self): self._write=[]
    def isWriting(self, fd): return fd in self._write
    def addWriter(self, src, fd): self._write.append(fd)
    def removeWriter(self, fd): self._write.remove(fd)
    def discard(self, fd):
        if fd in self._write: self._write.remove(fd)
def make(s):
    s.closed = False
    F.fd_write = lambda fileno, d: s.send(d)
    f = F.File.__new__(F.File)
    f._fd=s; f._poller=FakePoller(); f._buffer=deque(); f._closeflag=False; f._encoding='utf-8'; f._mode='w'
    f.fire = lambda e,*ch: None
    return f, s, f._File__on_write
'''


def ep_write_post(I, outcome, ctx):
    if no_escape(I, outcome):
        return
    cover(I, 'return')
    self, data, pre = ctx['args']['self'], ctx['args']['data'], ctx['pre']
    I.oblige('conserve.queued_in_order', ep_pending(I, self) == z3.Concat(ep_pending(I, self, pre), data.t))
    I.oblige('conserve.nothing_sent', ep_acc(I, self) == ep_acc(I, self, pre))
    kind = self.cls
    h = I.field(self, '_fd' if kind == 'File' else '_sock')
    I.oblige('writer_interest_on', z3.Select(I.field(I.field(self, '_poller'), 'P_write').arr, h.t))


def ep_write_setup(kind):
    def setup(I):
        self = ep_objs(kind)(I)
        return {'self': self, 'data': sym(I, 'data', Bytes)}
    return setup


def ep_on_write_setup(kind):
    def setup(I):
        self = ep_objs(kind)(I)
        b = I.field(self, '_buffer')
        I.assume(z3.Implies(b.hi > b.lo, z3.Not(I.fz(self, 'G_closed'))), 'rep invariant: data queued => endpoint open')
        return {'self': self, 'sock': obj(I, 'sock', 'socket')}
    return setup


def ep__write_summary(I, recv, args, kw):
    """contract of Client._write / File._write (verified)"""
    (data,) = args
    self = recv
    c = I.st.choice(3, '_write')
    before = z3.Concat(ep_acc(I, self), data.t, ep_pending(I, self))
    if c == 2:
        I.st.ghost.setdefault('FIRED', []).append(VCons('error', []))
        if I.st.choice(2, 'fatal_closes') == 0:
            ep_close_summary(I, self, [], {})
        return NONE
    nb = List(Bytes).fresh('buf_after_write')
    I.assume(nb.lo <= nb.hi)
    flat_wf(I, nb)
    nacc = core.fresh('acc_after_write', S())
    if c == 0:
        I.assume(z3.PrefixOf(ep_acc(I, self), nacc))
    else:
        I.assume(nacc == ep_acc(I, self))
    I.st.write_field(self.t, '_buffer', nb)
    I.st.write_field(self.t, 'G_accepted', VStr(nacc, True))
    I.assume(z3.Concat(nacc, ep_pending(I, self)) == before, '_write.ensures.conserve')
    return NONE


def ep_on_write_post(I, outcome, ctx):
    if no_escape(I, outcome):
        return
    cover(I, 'return')
    self, pre = ctx['args']['self'], ctx['pre']
    before = z3.Concat(ep_acc(I, self, pre), ep_pending(I, self, pre))
    after = z3.Concat(ep_acc(I, self), ep_pending(I, self))
    closes = I.st.ghost.get('CLOSE_CALLS', [])
    err = len(fired(I, 'error')) > 0
    if not closes and not err:
        I.oblige('conserve.while_open', after == before)
    I.oblige('accepted_only_grows', z3.PrefixOf(ep_acc(I, self, pre), ep_acc(I, self)))
    if closes and not err:
        cover(I, 'deferred_close')
        I.oblige('close_waits_for_buffer', before == ep_acc(I, self), detail='_close is reached only after all queued bytes were accepted')


def ep_close_handler_post(I, outcome, ctx):
    if no_escape(I, outcome):
        return
    cover(I, 'return')
    self, pre = ctx['args']['self'], ctx['pre']
    b0 = List(Bytes).wrap([z3.Select(a, self.t) for a in pre['_buffer']])
    closes = I.st.ghost.get('CLOSE_CALLS', [])
    I.oblige('close_deferred_while_buffered', z3.Implies(b0.hi > b0.lo, z3.BoolVal(len(closes) == 0)))
    I.oblige('close_deferred_sets_flag', z3.Implies(b0.hi > b0.lo, I.fz(self, '_closeflag')))
    I.oblige('close_keeps_queued_bytes', z3.Implies(b0.hi > b0.lo, ep_pending(I, self) == ep_pending(I, self, pre)))
    I.oblige('close_sends_nothing', ep_acc(I, self) == ep_acc(I, self, pre))
    # "close waits for the buffer" - and does not wait for anything else: with nothing queued the endpoint is closed at once
    I.oblige('close_with_nothing_queued_closes_now', z3.Implies(b0.hi == b0.lo, z3.BoolVal(len(closes) == 1)),
             detail='close() with an empty buffer must close the endpoint (otherwise it stays open for ever: nothing will drain later)')


def ep__close_post(kind):
    ev = 'disconnected' if kind == 'Client' else 'closed'

    def post(I, outcome, ctx):
        if no_escape(I, outcome):
            return
        cover(I, 'return')
        self, pre = ctx['args']['self'], ctx['pre']
        if kind == 'Client':
            live = z3.Select(pre['_connected'][0], self.t)
        else:
            live = z3.Not(z3.Select(pre['G_closed'][0], self.t))
        n = len(fired(I, ev))
        I.oblige('%s_at_most_once' % ev, z3.BoolVal(n <= 1))
        I.oblige('%s_iff_was_live' % ev, z3.BoolVal(n == 1) == live, detail='exactly one %s per connected/open endpoint' % ev)
        I.oblige('only_that_event', z3.BoolVal(len(I.st.ghost.get('FIRED', [])) == n))
        I.oblige('no_send', z3.BoolVal(len(I.st.ghost.get('SENDS', [])) == 0))
        h = I.field(self, '_fd' if kind == 'File' else '_sock')
        p = I.field(self, '_poller')
        I.oblige('poller_released', z3.Implies(live, z3.And(z3.Not(z3.Select(I.field(p, 'P_read').arr, h.t)),
                                                            z3.Not(z3.Select(I.field(p, 'P_write').arr, h.t)))))
        b = I.field(self, '_buffer')
        I.oblige('buffer_cleared', z3.Implies(live, b.hi == b.lo))
        closed_ok = I.st.ghost.get('HANDLE_CLOSE_ATTEMPTED', 0)
        I.oblige('descriptor_closed', z3.Implies(live, z3.BoolVal(closed_ok >= 1)),
                 detail='a live endpoint that is closed must close its descriptor (close() of the socket / file object is attempted once)')
        I.oblige('close_request_forgotten', z3.Implies(live, z3.Not(I.fz(self, '_closeflag'))),
                 detail='a pending close request does not survive the close (a re-opened endpoint would close itself after its first write)')
        if kind == 'Client':
            I.oblige('not_connected_afterwards', z3.Not(I.fz(self, '_connected')),
                     detail='so a second _close fires nothing: one disconnected per connected')
    return post


def file_text_replay(model, ob):
    return '''
import sys
from collections import deque
from circuits.io import file as F
class FakePoller:
    def __init__(self): self._write=[]
    def isWriting(self, fd): return fd in self._write
    def addWriter(self, src, fd): self._write.append(fd)
    def removeWriter(self, fd): self._write.remove(fd)
    def discard(self, fd):
        if fd in self._write: self._write.remove(fd)
class FD:
    closed = False
    def fileno(self): return 7
    def close(self): self.closed = True
bad = []
for text in ('h\\xe9llo w\\xf6rld', '\\u20ac\\u20ac\\u20ac\\u20ac', 'plain ascii'):
    raw = text.encode('utf-8')
    for k in range(0, len(raw) + 1):
        got = []
        script = [k]
        def fd_write(fileno, d):
            n = script.pop(0) if script else len(d)
            n = min(n, len(d)); got.append(bytes(d[:n])); return n
        F.fd_write = fd_write
        f = F.File.__new__(F.File)
        f._fd=FD(); f._poller=FakePoller(); f._buffer=deque(); f._closeflag=False; f._encoding='utf-8'; f._mode='w'
        f.fire = lambda e,*ch: None
        f.write(text)
        for _ in range(len(raw) + 3):
            f._File__on_write(f._fd)
        if b''.join(got) != raw:
            bad.append('text %r, first write accepts %d of %d bytes: descriptor received %r' % (text, k, len(raw), b''.join(got)))
for b in bad[:4]: print(b)
sys.exit(1 if bad else 0)
'''


for kind, file_, make in (('Client', 'circuits/net/sockets.py', CLIENT_MAKE), ('File', 'circuits/io/file.py', FILE_MAKE)):
    calls = ep_calls(kind)
    hooks = {'closed': ep_closed_hook} if kind == 'File' else {}
    mk = dict(fields=EP_FIELDS, getattr_hooks=hooks, subclass_of_closed=())
    SPECS.append(FucSpec('C11', file_, kind + '._write', ep__write_setup(kind), ep__write_post(kind),
                         calls=dict(calls, **{'self._close': ep_close_summary}), cover=['sent', 'send_error'],
                         replay=_write_replay(make),
                         clause='%s._write: every outcome of send keeps accepted ++ queued intact; fatal errors are signalled' % kind, **mk))
    if kind == 'File':
        SPECS.append(FucSpec('C11', file_, 'File._write', ep__write_setup(kind, text=True), ep__write_post(kind), name='File._write[text payload]',
                             calls=dict(calls, **{'self._close': ep_close_summary}), cover=['sent', 'send_error'],
                             replay=file_text_replay,
                             clause='File._write with a str payload (text mode): what reaches the descriptor plus what is re-queued is '
                                    'exactly the ENCODED payload, for every partial write and every errno', **mk))
    SPECS.append(FucSpec('C11', file_, kind + '.write', ep_write_setup(kind), ep_write_post, calls=calls, cover=['return'],
                         clause='%s.write queues data behind what is queued, sends nothing, turns writer interest on' % kind, **mk))
    SPECS.append(FucSpec('C11', file_, kind + '.__on_write', ep_on_write_setup(kind), ep_on_write_post,
                         calls=dict(calls, **{'self._write': ep__write_summary, 'self._close': ep_close_summary}),
                         cover=['return', 'deferred_close'],
                         clause='%s.__on_write: one payload per event, conservation, deferred close only when drained' % kind, **mk))
    SPECS.append(FucSpec('C11', file_, kind + '.close', lambda I, k=kind: {'self': ep_objs(k)(I)}, ep_close_handler_post,
                         calls=dict(calls, **{'self._close': ep_close_summary}), cover=['return'],
                         clause='%s.close while data is queued defers' % kind, **mk))
    SPECS.append(FucSpec('C12' if kind == 'Client' else 'C11', file_, kind + '._close', lambda I, k=kind: {'self': ep_objs(k)(I)},
                         ep__close_post(kind), calls=calls, cover=['return'],
                         clause='%s._close: exactly one %s per live endpoint, poller and buffer released, nothing sent'
                                % (kind, 'disconnected' if kind == 'Client' else 'closed'), **mk))


# ----------------------------------------------------------------------------- Server._accept: one hand-over per accepted connection
# "connect exactly once": _on_accept_done (above) fires the one connect for the socket it is given; _accept must give it every
# accepted connection exactly once, and nothing when accept() refused.  The TLS branch (secure servers: handshake generator) is
# outside the statement and not decided here: the contract assumes a plain-text server.
ACC_FIELDS = dict(SRV_FIELDS, secure=Bool)


def acc_setup(I):
    self = obj(I, 'self', 'Server')
    I.assume(z3.Not(I.fz(self, 'secure')), 'plain-text server (the TLS handshake path is not decided)')
    I.st.ghost['ACCEPTED'] = []
    I.st.ghost['HANDED'] = []
    return {'self': self}


def s_sock_accept(I, recv, args, kw):
    """TRUSTED socket.accept(): a new connected socket and its address, or OSError(errno) with no connection taken"""
    I.st.trusted_used.add('socket.accept returns (new socket, address) or raises OSError(errno) having accepted nothing')
    if I.st.choice(2, 'accept') == 0:
        ns = I.st.fresh_ref('socket')
        I.st.ghost['ACCEPTED'].append(ns)
        return VTuple([ns, VTuple([VStr(core.fresh('host', S())), VInt(core.fresh('port', z3.IntSort()))])])
    errno = core.fresh('accept_errno', z3.IntSort())
    I.st.inputs['accept.errno'] = errno
    I.st.ghost['ACCEPT_ERRNO'] = errno
    lib.raise_(I, 'OSError', VInt(errno))


def s_accept_done(I, recv, args, kw):
    I.st.ghost['HANDED'].append(args[0])
    return NONE


def acc_post(I, outcome, ctx):
    import errno as E
    kind, v = outcome
    g = I.st.ghost
    acc, handed = g['ACCEPTED'], g['HANDED']
    if kind == 'raise':
        cover(I, 'refused_hard')
        en = g.get('ACCEPT_ERRNO')
        I.oblige('only_an_unexpected_accept_error_escapes', z3.BoolVal(v.cls == 'OSError' and en is not None and not acc))
        if en is not None:
            I.oblige('transient_accept_errors_are_swallowed',
                     z3.And(*[en != getattr(E, n) for n in ('EWOULDBLOCK', 'EAGAIN', 'EPERM', 'EMFILE', 'ENOBUFS', 'ENFILE', 'ENOMEM', 'ECONNABORTED')]),
                     detail='an accept() that merely found nothing to accept must not raise into the loop')
        I.oblige('nothing_handed_over_without_a_connection', z3.BoolVal(len(handed) == 0))
        return
    cover(I, 'return')
    I.oblige('each_accepted_connection_is_handed_over_exactly_once', z3.BoolVal(len(handed) == len(acc) and len(acc) <= 1),
             detail='%d accepted, %d handed to _on_accept_done' % (len(acc), len(handed)))
    for a_, h_ in zip(acc, handed):
        cover(I, 'accepted')
        I.oblige('the_socket_handed_over_is_the_accepted_one', h_.t == a_.t)
    if not acc:
        cover(I, 'refused_soft')
        I.oblige('nothing_handed_over_without_a_connection', z3.BoolVal(len(handed) == 0))


SPECS.append(FucSpec('C12', 'circuits/net/sockets.py', 'Server._accept', acc_setup, acc_post, fields=ACC_FIELDS,
                     calls={'self._sock.accept': s_sock_accept, 'self._on_accept_done': s_accept_done},
                     cover=['return', 'accepted', 'refused_soft', 'refused_hard'],
                     clause='_accept (plain-text server): every connection accept() returns is handed to _on_accept_done exactly once '
                            '(which fires the one connect); an accept() that raises hands over nothing; only an unexpected errno escapes'))


# ----------------------------------------------------------------------------- C12 through the pollers
# "received bytes as read events in order without loss ... whichever poller is used": the byte stream of a connection reaches the
# server only through the poller's _read events; a descriptor reported readable must get its _read event (also when the same report
# carries an error or hang-up bit: the pending input is read first, the following recv() then reports the end).  The emission
# contracts of the three pollers (proved in contracts.pollers for C10) are obligations of C12 as well.
import copy as _copy                       # noqa: E402
from contracts import pollers as _pl       # noqa: E402
for _s in _pl.SPECS:
    if _s.prop == 'C10' and getattr(_s, 'name', '') in ('Poll._process', 'EPoll._process', 'Select._generate_events',
                                                        'Poll._generate_events', 'EPoll._generate_events'):
        _c = _copy.copy(_s)
        _c.prop = 'C12'
        SPECS.append(_c)


# ----------------------------------------------------------------------------- Client._read (C12, the client endpoint)
# "received bytes as read events in order without loss, then one disconnect": per readiness event the client endpoint does ONE recv;
# non-empty data => exactly one read(data) event with exactly those bytes; empty data (peer closed) => close() (deferred while output
# is queued, C11); EWOULDBLOCK / an SSL want-read => nothing at all; any other error => one error event and _close().  Added in round 5.
def cl_read_setup(I):
    self = ep_objs('Client')(I)
    I.assume(z3.Not(I.fz(self, 'secure')), 'plain-text client (the TLS read path differs only in the call that receives)')
    return {'self': self}


def s_ep_close_handler(I, recv, args, kw):
    I.st.ghost.setdefault('CLOSE_HANDLER_CALLS', []).append(recv)
    return NONE


def s_ep__close_logged(I, recv, args, kw):
    I.st.ghost.setdefault('CLOSE_CALLS', []).append(recv)
    return NONE


def cl_read_post(I, outcome, ctx):
    if no_escape(I, outcome):
        return
    cover(I, 'return')
    g = I.st.ghost
    allfired = g.get('FIRED', [])
    reads = [e for e in allfired if isinstance(e, VCons) and e.tag == 'read']
    errs = [e for e in allfired if isinstance(e, VCons) and e.tag == 'error']
    ch, cl = g.get('CLOSE_HANDLER_CALLS', []), g.get('CLOSE_CALLS', [])
    if 'RECVD' in g:
        d = g['RECVD']
        if reads:
            cover(I, 'data')
            I.oblige('one_read_event_with_exactly_the_bytes_received', z3.And(z3.BoolVal(len(reads) == 1 and len(allfired) == 1),
                                                                             reads[0].args[0].t == d))
            I.oblige('read_event_only_for_nonempty', z3.Length(d) > 0)
            I.oblige('data_does_not_close', z3.BoolVal(not ch and not cl))
        else:
            cover(I, 'eof')
            I.oblige('received_bytes_are_never_dropped', z3.Length(d) == 0, detail='recv returned data but no read event was fired')
            I.oblige('eof_closes_the_connection', z3.BoolVal(len(ch) + len(cl) == 1 and not allfired))
    elif 'RECV_ERRNO' in g:
        import errno as E
        cover(I, 'recv_error')
        e = g['RECV_ERRNO']
        I.oblige('recv_error_signalled_and_closed', z3.Implies(e != E.EWOULDBLOCK, z3.BoolVal(len(errs) == 1 and len(cl) == 1 and not reads)))
        I.oblige('would_block_is_silent', z3.Implies(e == E.EWOULDBLOCK, z3.BoolVal(not allfired and not cl and not ch)))


SPECS.append(FucSpec('C12', 'circuits/net/sockets.py', 'Client._read', cl_read_setup, cl_read_post, fields=EP_FIELDS,
                     calls=dict(ep_calls('Client'), **{'self._sock.recv': s_recv, 'self.close': s_ep_close_handler,
                                                      'self._close': s_ep__close_logged}),
                     exc_parents={'SSLError': 'OSError'}, cover=['return', 'data', 'eof', 'recv_error'],
                     clause='Client._read: one recv per readiness event; data => exactly one read event with exactly those bytes; empty => '
                            'close(); EWOULDBLOCK => nothing; any other error => one error event and _close()'))

"""C08 — run()/stop()/tick() of Manager (thread / inline mode: no child process).

tick() and the handlers it runs are summarised by tick's contract; stop() may be called from a handler (through the
dispatcher's KeyboardInterrupt/SystemExit mapping, see core_dispatch/core_tasks) which clears the running flag.
"""
import z3
from pyvc.core import *  # noqa
from pyvc import core, lib
from pyvc.contract import FucSpec, LoopSpec, sym, obj, cover, uf, noop
from contracts.core_dispatch import M_FIELDS, ALIAS, EVENT_CLASSES, log, no_escape

SPECS = []
FILE = 'circuits/core/manager.py'
R_FIELDS = dict(M_FIELDS)
R_FIELDS.update({'_Manager__process': Ref, '_Manager__thread': Ref, '_tasks': Set(Ref), 'G_qlen': Int, 'channel': Dyn(Any)})


def running_hook(I, o):
    return VBool(I.fz(o, '_running'))


def s_fire(I, recv, args, kw):
    log(I, 'FIRED').append(args[0])
    log(I, 'ORDER').append('fire:' + (args[0].tag if isinstance(args[0], VCons) else '?'))
    q = I.field(I.field(recv, 'root'), '_queue') if False else None
    return I.st.fresh_ref('Value')


def tick_summary(may_exit=True):
    def s_tick(I, recv, args, kw):
        """contract of tick(): runs tasks and one flush pass; handlers may stop the manager (running -> False, never -> True),
        may leave events queued; SystemExit(code) propagates when a handler exits with a code; other exceptions may escape"""
        log(I, 'TICKS').append(len(log(I, 'FIRED')))
        log(I, 'ORDER').append('tick')
        self = I.local('self')
        log(I, 'QLEN_BEFORE').append(I.fz(I.field(self, '_queue'), 'G_qlen'))
        r0 = I.fz(self, '_running')
        I.st.havoc_field('_running')
        I.st.havoc_field('G_qlen')
        I.assume(z3.Implies(z3.Not(r0), z3.Not(I.fz(self, '_running'))), 'rely: handlers never set the running flag (only run() does)')
        I.assume(I.fz(I.field(self, '_queue'), 'G_qlen') >= 0)
        if may_exit:
            c = I.st.choice(2, 'tick')   # tick lets nothing but SystemExit escape (obligation no_escape of Manager.tick)
            if c == 1:
                code = VAny(core.fresh('exit_code', core.AnySort()))
                I.st.uses_any = True
                I.st.ghost['EXIT_CODE'] = code
                I.st.ghost['EXIT_AT_TICK'] = len(log(I, 'TICKS'))
                log(I, 'EXITS').append(len(log(I, 'TICKS')))
                # SystemExit(code) leaves tick only through the dispatcher / processTask arms, which call stop(code) first (C08
                # obligations system_exit_stops_the_manager_with_its_code): afterwards the manager is not running, whether stop()
                # cleared the flag or found it cleared
                I.assume(z3.Not(I.fz(self, '_running')), 'SystemExit leaves tick after stop(code): the flag is cleared')
                I.assume(z3.Not(core.any_is_none(code.t)), 'SystemExit(None) never leaves the dispatcher (exit_code obligations of C08)')
                raise RaiseSig(VExc('SystemExit', [code], {'code': code}))
            if c == 2:
                lib.raise_(I, 'RuntimeError', VStr('error in tick'))
        return NONE
    return s_tick


def stop_setup(I):
    self = obj(I, 'self', 'Manager')
    I.st.uses_any = True
    code = sym(I, 'code', Opt(Int))
    I.assume(I.field(self, '_Manager__process').t == core.null(), 'case: thread / inline mode (no child process)')
    root = I.field(self, 'root')
    I.assume(root.t != core.null())
    I.st.inputs['running'] = I.fz(self, '_running')
    return {'self': self, 'code': code}


def stop_post(I, outcome, ctx):
    kind, v = outcome
    a, pre = ctx['args'], ctx['pre']
    self = a['self']
    was = z3.Select(pre['_running'][0], self.t)
    fired, ticks = log(I, 'FIRED'), log(I, 'TICKS')
    code = a['code']
    if kind == 'raise':
        cover(I, 'exit')
        I.oblige('raises_only_SystemExit', z3.BoolVal(v.cls == 'SystemExit'), detail='escaping %s' % v.cls)
        if v.cls == 'SystemExit':
            I.oblige('exit_only_when_running_and_code_given', z3.And(was, z3.Not(code.isnone)))
            I.oblige('exit_code_is_the_given_code', z3.BoolVal(len(v.args) == 1) if not v.args else lib.eq(I, v.args[0], code))
    else:
        cover(I, 'return')
        I.oblige('returns_normally_only_without_code', z3.Or(z3.Not(was), code.isnone))
    stopped_ev = [e for e in fired if isinstance(e, VCons) and e.tag == 'stopped']
    I.oblige('not_running_means_no_effect', z3.Implies(z3.Not(was), z3.BoolVal(len(fired) == 0 and len(ticks) == 0)),
             detail='stop() on a manager that is not running has no effect')
    I.oblige('stopped_fired_exactly_once_when_running', z3.Implies(was, z3.BoolVal(len(stopped_ev) == 1 and len(fired) == 1)))
    for e in stopped_ev:
        I.oblige('stopped_names_the_manager', e.args[0].t == self.t)
    I.oblige('flag_cleared', z3.Not(I.fz(self, '_running')))
    inline = z3.Select(pre['_executing_thread'][0], I.field(self, 'root').t) == core.null()
    I.oblige('inline_ticks_iff_no_loop_thread', z3.Implies(was, z3.BoolVal(len(ticks) == 3) == inline))
    I.oblige('ticks_are_0_or_3', z3.BoolVal(len(ticks) in (0, 3)))
    for t in ticks:
        I.oblige('stopped_fired_before_the_ticks', z3.BoolVal(t >= 1))


SPECS.append(FucSpec(
    'C08', FILE, 'Manager.stop', stop_setup, stop_post, fields=R_FIELDS, field_alias=ALIAS, classes=EVENT_CLASSES,
    calls={'current_process': lambda I, r, a, k: I.st.fresh_ref('Process'), 'self.fire': s_fire, 'stopped': lambda I, r, a, k: VCons('stopped', a),
           'self.tick': tick_summary(False)},
    getattr_hooks={'running': running_hook}, cover=['return', 'exit'],
    clause='stop(code): no effect when not running; otherwise flag cleared, exactly one stopped(self), three inline ticks iff no loop '
           'thread owns the tree, SystemExit(code) iff a code was given'))


# ----------------------------------------------------------------------------- run
def run_setup(I):
    self = obj(I, 'self', 'Manager')
    I.st.uses_any = True
    root = I.field(self, 'root')
    q = I.field(self, '_queue')
    I.assume(z3.And(root.t != core.null(), q.t != core.null(), q.t != self.t))
    I.assume(I.fz(q, 'G_qlen') >= 0)
    return {'self': self}


def s_len_queue(I, recv, args, kw):
    return VInt(I.fz(args[0], 'G_qlen'))


def s_current_thread(I, recv, args, kw):
    t = I.st.ghost.get('THREAD')
    if t is None:
        t = I.st.fresh_ref('Thread')
        I.st.ghost['THREAD'] = t
        I.st.ghost['THREAD_NAME'] = core.fresh('thread_name', z3.StringSort())
    return t


def s_sigh(I, recv, args, kw):
    if I.st.choice(2, 'sigh') == 1:
        lib.raise_(I, 'ValueError', VStr('signal only works in main thread'))
    return NONE


def run_loop_inv(I):
    return z3.BoolVal(True)


def run_post(I, outcome, ctx):
    kind, v = outcome
    a, pre = ctx['args'], ctx['pre']
    self = a['self']
    fired, ticks, order = log(I, 'FIRED'), log(I, 'TICKS'), log(I, 'ORDER')
    g = I.st.ghost
    started = [e for e in fired if isinstance(e, VCons) and e.tag == 'started']
    I.oblige('started_fired_exactly_once', z3.BoolVal(len(started) == 1 and len(fired) == 1))
    I.oblige('started_before_any_tick', z3.BoolVal(bool(order) and order[0] == 'fire:started'))
    qb = log(I, 'QLEN_BEFORE')
    exits = log(I, 'EXITS')
    fade_start = g.get('FADE_START')
    if kind == 'raise':
        cover(I, 'exit')
        I.oblige('only_SystemExit_propagates', z3.BoolVal(v.cls == 'SystemExit'), detail='escaping %s' % v.cls)
        if fade_start is not None and exits and exits[-1] > fade_start:
            # a handler raised SystemExit(code) again while run() was already fading out: that exit code supersedes; nothing
            # further is demanded of this path (the fade-out is cut short by the program itself)
            cover(I, 'exit_during_fade_out')
            return
        if v.cls == 'SystemExit' and 'EXIT_CODE' in g:
            I.oblige('exit_code_propagates_to_the_caller', z3.BoolVal(v.args and v.args[0] is g['EXIT_CODE']))
        I.oblige('final_tick_runs_even_on_exit', z3.BoolVal(order[-1] == 'tick'))
        if 'EXIT_AT_TICK' in g and g['EXIT_AT_TICK'] <= g.get('TICKS_IN_LOOP_MAX', 10 ** 9):
            I.oblige('fade_out_also_on_exit_code', z3.BoolVal(len(ticks) - g['EXIT_AT_TICK'] >= 4),
                     detail='stop(code) queued `stopped` and raised SystemExit out of the loop: the fade-out ticks must still dispatch it')
            I.oblige('queue_drained_before_the_fade_out_also_on_exit_code', qb[-4] == 0 if len(qb) >= 4 else z3.BoolVal(False),
                     detail='SystemExit(code) ended the loop: every event queued before or as a consequence of stopping must still be '
                            'dispatched (the loop condition `running or queue non-empty` no longer guards this path)')
        return
    cover(I, 'return')
    I.oblige('returns_not_running', z3.Not(I.fz(self, '_running')), detail='run() returns only after stop()')
    I.oblige('loop_thread_released', I.fz(I.field(self, 'root'), '_executing_thread') == core.null())
    q = I.field(self, '_queue')
    if g.get('LOOP_EXITED'):
        I.oblige('fade_out_ticks', z3.BoolVal(len(ticks) - g['TICKS_AT_EXIT'] >= 4))
    I.oblige('queue_drained_before_the_fade_out', qb[-4] == 0 if len(qb) >= 4 else z3.BoolVal(False),
             detail='the loop is left only when the manager is not running and the queue is empty')
    I.oblige('ensures.drained', I.fz(q, 'G_qlen') == 0,
             detail='every event queued before or as a consequence of stopping has been dispatched when run() returns')


def run_iter_hook(I):
    pass


def run_exit_marker(I, recv, args, kw):
    return NONE


def run_replay(model, ob):
    if 'drained' not in ob['name']:
        return None
    return '''
import sys
from circuits import Component, Event, handler
class step(Event): pass
class App(Component):
    def started(self, *a): self.stop()
    def stopped(self, *a):
        for i in range(8):
            yield
        self.fire(step())
    def step(self): pass
app = App()
app.run()
print('run() returned with %d event(s) queued and %d task(s) pending (stopped handler is a generator needing 9 steps)' % (len(app), len(app._tasks)))
sys.exit(1 if (len(app) or app._tasks) else 0)
'''


def run_while_inv_exit(I):
    return z3.BoolVal(True)


class RunLoop(LoopSpec):
    pass


def run_exit_hook_factory():
    def hook(I):
        pass
    return hook


def mk_run_spec():
    def loop_exit_inv(I):
        return z3.BoolVal(True)

    def entry(I):
        I.st.ghost['TICKS_AT_ENTRY'] = len(log(I, 'TICKS'))

    def fade_entry(I):
        I.st.ghost['FADE_START'] = len(log(I, 'TICKS'))
    # loop 0 = `while self.running or len(self._queue)`; after it the fade-out for-loop over range(3) is concrete
    return FucSpec(
        'C08', FILE, 'Manager.run', run_setup, run_post, fields=R_FIELDS, field_alias=ALIAS, classes=EVENT_CLASSES,
        calls={'atexit.register': noop, 'current_thread': s_current_thread, 'set_signal_handler': s_sigh, 'self.fire': s_fire,
               'started': lambda I, r, a, k: VCons('started', a), 'self.tick': tick_summary(True), 'len': s_len_queue,
               'stderr.write': noop, 'format_exc': lambda I, r, a, k: VStr(core.fresh('tb', z3.StringSort()))},
        getattr_hooks={'running': running_hook, 'name': lambda I, o: VStr(I.st.ghost['THREAD_NAME']) if o.cls == 'Thread' else None},
        loops={0: LoopSpec(inv=[('qlen_nonneg', lambda I: I.fz(I.field(I.local('self'), '_queue'), 'G_qlen') >= 0)],
                           havoc_fields=['_running', 'G_qlen'], entry_hook=entry),
               # `while len(self._queue): self.tick()` of the finally block (drains what SystemExit left queued)
               1: LoopSpec(inv=[('qlen_nonneg', lambda I: I.fz(I.field(I.local('self'), '_queue'), 'G_qlen') >= 0),
                                ('not_running', lambda I: z3.Not(I.fz(I.local('self'), '_running')))],
                           havoc_fields=['_running', 'G_qlen'], entry_hook=fade_entry)},
        env={'SIGINT': VInt(2), 'SIGTERM': VInt(15)},
        cover=['return', 'exit', 'exit_during_fade_out'], replay=run_replay,
        clause='run(): exactly one started before the first tick; the loop is left only when not running and the queue is empty; '
               'then three fade-out ticks and a final tick (also on SystemExit); exit code propagates; on return the manager is '
               'not running, the loop thread is released, and nothing is left queued (ensures.drained)')


SPECS.append(mk_run_spec())


# ----------------------------------------------------------------------------- tick
def tick_setup(I):
    self = obj(I, 'self', 'Manager')
    I.st.uses_any = True
    q = I.field(self, '_queue')
    I.assume(z3.And(q.t != core.null(), q.t != self.t))
    I.assume(I.fz(q, 'G_qlen') >= 0)
    return {'self': self}


def s_tasks_copy(I, recv, args, kw):
    I.st.ghost['TASK_LOOP_ENTERED'] = True
    L = List(Tup(Ref, Ref, Ref)).fresh('tasks_copy')
    I.assume(L.lo <= L.hi)
    I.st.ghost['TASKLIST'] = L
    return L


def s_processTask(I, recv, args, kw):
    log(I, 'PROCESSED').append(args)
    log(I, 'ORDER').append('task')
    I.st.havoc_field('_running')
    I.st.havoc_field('G_qlen')
    I.assume(I.fz(I.field(I.local('self'), '_queue'), 'G_qlen') >= 0)
    return NONE


def s_tick_fire(I, recv, args, kw):
    log(I, 'FIRED').append((args[0], args[1:]))
    log(I, 'ORDER').append('fire')
    q = I.field(I.local('self'), '_queue')
    I.st.write_field(q.t, 'G_qlen', VInt(I.fz(q, 'G_qlen') + 1))
    return I.st.fresh_ref('Value')


def s_flush(I, recv, args, kw):
    log(I, 'FLUSH').append(1)
    log(I, 'ORDER').append('flush')
    return NONE


def tick_post(I, outcome, ctx):
    if no_escape(I, outcome):
        return
    cover(I, 'return')
    self = ctx['args']['self']
    fired, flush, order = log(I, 'FIRED'), log(I, 'FLUSH'), log(I, 'ORDER')
    I.oblige('at_most_one_generate_events', z3.BoolVal(len(fired) <= 1))
    I.oblige('at_most_one_flush', z3.BoolVal(len(flush) <= 1))
    if fired:
        cover(I, 'generate')
        I.oblige('generate_events_flushed_in_the_same_tick', z3.BoolVal(len(flush) == 1), detail='the loop always dispatches what it fires')
        I.oblige('tasks_before_generate_before_flush', z3.BoolVal([o for o in order if o != 'task'] == ['fire', 'flush']))
    if flush:
        I.oblige('flush_is_last', z3.BoolVal(order[-1] == 'flush'))
    # "keeps processing": a tick that finds registered tasks (suspended generator handlers, call/wait continuations) steps them; the
    # loop over the tasks may not be skipped while the task set is non-empty
    if not I.st.ghost.get('TASK_LOOP_ENTERED'):
        pre = ctx['pre']
        t0 = z3.Select(pre['_tasks'][0], self.t)
        x = core.fresh('task', core.RefSort())
        I.oblige('registered_tasks_are_stepped', z3.Not(z3.Exists([x], z3.Select(t0, x))),
                 detail='tasks were registered but tick() did not step them')


def tick_task_iter(I):
    # each registered task is processed exactly once per tick, with its own (event, task, parent)
    pr = log(I, 'PROCESSED')
    L = I.local('__iter0')
    k = I.local('__idx0').t - 1
    I.oblige('each_task_processed_once', z3.BoolVal(len(pr) >= 1))
    if pr:
        a = pr[-1]
        I.oblige('processTask_gets_the_task_tuple', z3.And(z3.BoolVal(len(a) == 3), *[x.t == z3.Select(arr, k) for x, arr in zip(a, L.arrs)]))


SPECS.append(FucSpec(
    'C08', FILE, 'Manager.tick', tick_setup, tick_post, fields=R_FIELDS, field_alias=ALIAS, classes=EVENT_CLASSES,
    calls={'self._tasks.copy': s_tasks_copy, 'self.processTask': s_processTask, 'self.fire': s_tick_fire, 'self.flush': s_flush,
           'generate_events': lambda I, r, a, k: VCons('generate_events', a), 'len': s_len_queue},
    loops={0: LoopSpec(inv=[('qlen_nonneg', lambda I: I.fz(I.field(I.local('self'), '_queue'), 'G_qlen') >= 0)],
                       havoc_fields=['_running', 'G_qlen'], iter_hook=tick_task_iter)},
    cover=['return', 'generate'],
    clause='tick(): every registered task is stepped once; a generate_events event is fired iff running; the queue is flushed once '
           'whenever it is non-empty (in particular after generate_events was fired), as the last action'))

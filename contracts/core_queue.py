"""C02 (part 1) — _EventQueue: ascending (priority, fire order) per pass under re-entrancy; fire only appends.

Functions under contract: _EventQueue.append, _EventQueue.dispatchEvents, _EventQueue.__len__, _EventQueue.drainFrom (C07).
Ghost: G_lp_valid / G_lp_p / G_lp_c = key of the last entry popped in the current pass (set by the heappop contract).
The dispatcher callback may re-enter the queue through append() and dispatchEvents(); its rely is the guarantee proved
for those two functions (QInv preserved), so the argument is closed.
"""
import z3
from pyvc.core import *  # noqa
from pyvc import core, lib
from pyvc.contract import FucSpec, LoopSpec, sym, obj, cover, uf, noop

SPECS = []
FILE = 'circuits/core/manager.py'
ENTRY = Tup(Real, Int, Tup(Ref, Any))      # (priority, counter, (event, channels)) flattened
Q_FIELDS = {'_queue': List(ENTRY), '_priority_queue': List(ENTRY), '_counter': Int, '_flush_batch': Int,
            'G_lp_valid': Bool, 'G_lp_p': Real, 'G_lp_c': Int}


def key_lt(p1, c1, p2, c2):
    """lexicographic order on (priority, counter): the order Python compares the queue tuples in"""
    return z3.Or(p1 < p2, z3.And(p1 == p2, c1 < c2))


def views(I, q):
    f, h = I.field(q, '_queue'), I.field(q, '_priority_queue')
    return f, h


def qinv(I, q, skip=()):
    """representation invariant of the queue; each conjunct is a separate obligation"""
    f, h = views(I, q)
    ctr, fb = I.fz(q, '_counter'), I.fz(q, '_flush_batch')
    i, j, j2 = core.fresh('i', z3.IntSort()), core.fresh('j', z3.IntSort()), core.fresh('j2', z3.IntSort())
    i2 = core.fresh('i2', z3.IntSort())
    fp, fc = f.arrs[0], f.arrs[1]
    hp, hc = h.arrs[0], h.arrs[1]
    inf = lambda x: z3.And(f.lo <= x, x < f.hi)   # noqa: E731
    inh = lambda x: z3.And(h.lo <= x, x < h.hi)   # noqa: E731
    lpv, lpp, lpc = I.fz(q, 'G_lp_valid'), I.fz(q, 'G_lp_p'), I.fz(q, 'G_lp_c')
    out = [
        ('wf', z3.And(f.lo <= f.hi, h.lo <= h.hi)),
        ('batch_is_heap_size', fb == h.hi - h.lo),
        ('counters_bounded', z3.And(z3.ForAll([i], z3.Implies(inf(i), z3.Select(fc, i) <= ctr)),
                                    z3.ForAll([j], z3.Implies(inh(j), z3.Select(hc, j) <= ctr)))),
        ('fifo_ascending', z3.ForAll([i, i2], z3.Implies(z3.And(inf(i), inf(i2), i < i2), z3.Select(fc, i) < z3.Select(fc, i2)))),
        ('heap_before_fifo', z3.ForAll([i, j], z3.Implies(z3.And(inf(i), inh(j)), z3.Select(hc, j) < z3.Select(fc, i)))),
        ('heap_counters_distinct', z3.ForAll([j, j2], z3.Implies(z3.And(inh(j), inh(j2), j != j2), z3.Select(hc, j) != z3.Select(hc, j2)))),
        ('heap_after_last_popped', z3.ForAll([j], z3.Implies(z3.And(lpv, inh(j)), key_lt(lpp, lpc, z3.Select(hp, j), z3.Select(hc, j))))),
    ]
    return [(n, x) for n, x in out if n not in skip]


def q_setup(I):
    q = obj(I, 'self', '_EventQueue')
    for n, x in qinv(I, q):
        I.assume(x, 'requires QInv.' + n)
    return q


def no_escape(I, outcome, allowed=()):
    kind, v = outcome
    if kind == 'raise':
        I.oblige('no_escape', z3.BoolVal(v.cls in allowed), detail='escaping %s' % v.cls)
        return True
    return False


# ----------------------------------------------------------------------------- append
def ap_setup(I):
    q = q_setup(I)
    return {'self': q, 'event': obj(I, 'event', 'Event'), 'channel': sym(I, 'channel', Any), 'priority': sym(I, 'priority', Real)}


def ap_post(I, outcome, ctx):
    if no_escape(I, outcome):
        return
    cover(I, 'return')
    a, pre = ctx['args'], ctx['pre']
    q = a['self']
    f, h = views(I, q)
    f0 = List(ENTRY).wrap([z3.Select(x, q.t) for x in pre['_queue']])
    c0 = z3.Select(pre['_counter'][0], q.t)
    I.oblige('counter_incremented', I.fz(q, '_counter') == c0 + 1)
    I.oblige('fifo_grows_by_one_at_the_end', z3.And(f.lo == f0.lo, f.hi == f0.hi + 1))
    last = f.at(f.hi - 1)
    I.st.uses_any = True
    I.oblige('new_entry', z3.And(last.items[0].t == a['priority'].t, last.items[1].t == c0 + 1, last.items[2].items[0].t == a['event'].t,
                                 last.items[2].items[1].t == a['channel'].t))
    k = core.fresh('k', z3.IntSort())
    I.oblige('fifo_prefix_unchanged', z3.ForAll([k], z3.Implies(z3.And(f0.lo <= k, k < f0.hi), z3.And(
        *[z3.Select(x, k) == z3.Select(y, k) for x, y in zip(f.arrs, f0.arrs)]))))
    # fire only appends: the snapshot being dispatched (heap), the batch counter and the pass order ghost are untouched
    for fld in ('_priority_queue', '_flush_batch', 'G_lp_valid', 'G_lp_p', 'G_lp_c'):
        for o, n in zip(pre[fld], I.st.heap[fld]):
            I.oblige('fired_event_goes_to_fifo_only.%s_unchanged' % fld, z3.Select(o, q.t) == z3.Select(n, q.t))
    for n, x in qinv(I, q):
        I.oblige('preserves.QInv.' + n, x)


SPECS.append(FucSpec('C02', FILE, '_EventQueue.append', ap_setup, ap_post, fields=Q_FIELDS, cover=['return'],
                     clause='append: the event goes to the end of the fifo with a fresh larger counter; the snapshot being dispatched '
                            'is untouched; queue invariant preserved'))


# ----------------------------------------------------------------------------- trusted heapq
def s_heappush(I, recv, args, kw):
    """TRUSTED heapq.heappush(h, x): the multiset of h gains x (list viewed as a multiset; position irrelevant)"""
    I.st.trusted_used.add('heapq.heappush/heappop: multiset insert / removal of a minimum under tuple ordering')
    h, x = args
    _, new = lib.list_method(I, h, 'append', [x], {})
    I.write_loc(h.loc, new)
    return NONE


def s_heappop(I, recv, args, kw):
    """TRUSTED heapq.heappop(h): requires h non-empty; returns an element whose (priority, counter) key is minimal and removes
    that one occurrence.  Ghost: records the popped key as last_popped of the pass."""
    (h,) = args
    q = I.local('self')
    I.oblige('heappop.requires.nonempty', h.hi > h.lo)
    lpv, lpp, lpc = I.fz(q, 'G_lp_valid'), I.fz(q, 'G_lp_p'), I.fz(q, 'G_lp_c')
    m = core.fresh('min_idx', z3.IntSort())
    I.assume(z3.And(h.lo <= m, m < h.hi))
    j = core.fresh('j', z3.IntSort())
    mp, mc = z3.Select(h.arrs[0], m), z3.Select(h.arrs[1], m)
    I.assume(z3.ForAll([j], z3.Implies(z3.And(h.lo <= j, j < h.hi, j != m),
                                       z3.Not(key_lt(z3.Select(h.arrs[0], j), z3.Select(h.arrs[1], j), mp, mc)))))
    res = h.at(m)
    # P1: pops of one pass are strictly ascending in (priority, fire order), nested flushes included
    I.oblige('pop_order.ascending_in_priority_then_fire_order', z3.Implies(lpv, key_lt(lpp, lpc, mp, mc)),
             detail='every entry popped is after the previously popped one in (priority, counter)')
    cover(I, 'pop')
    # swap-remove: slot m takes the last element, window shrinks
    last = h.hi - 1
    arrs = [z3.Store(a, m, z3.Select(a, last)) for a in h.arrs]
    I.write_loc(h.loc, VList(h.ek, arrs, h.lo, last))
    I.st.write_field(q.t, 'G_lp_valid', VBool(True))
    I.st.write_field(q.t, 'G_lp_p', VReal(mp))
    I.st.write_field(q.t, 'G_lp_c', VInt(mc))
    return res


def s_dispatcher_callback(I, recv, args, kw):
    """the dispatcher runs arbitrary handlers that may call append() and dispatchEvents() on this queue any number of times.
    rely = guarantee of those two functions: QInv holds again afterwards (nothing else is known about the queue)."""
    q = I.local('self')
    cover(I, 'callback')
    for n, x in qinv(I, q):
        I.oblige('callback.requires.QInv.' + n, x, detail='the queue is consistent whenever handlers can re-enter it')
    I.st.ghost.setdefault('DISPATCHED', []).append(args)
    for f in Q_FIELDS:
        I.st.havoc_field(f)
    for n, x in qinv(I, q):
        I.assume(x, 'rely QInv.' + n)
    return NONE


def de_setup(I):
    q = q_setup(I)
    return {'self': q, 'dispatcher': VFunc('dispatcher', impl=s_dispatcher_callback)}


def refill_inv(I):
    """loop 0 (refill): the fifo is being moved into the empty heap"""
    q = I.local('self')
    f, h = views(I, q)
    count = I.local('count').t
    out = [(n, x) for n, x in qinv(I, q, skip=('batch_is_heap_size', 'heap_after_last_popped'))]
    out.append(('count_is_fifo_size', z3.And(count == f.hi - f.lo, count >= 0)))
    out.append(('batch_counts_both', I.fz(q, '_flush_batch') == count + (h.hi - h.lo)))
    out.append(('no_pass_order_yet', z3.Not(I.fz(q, 'G_lp_valid'))))
    return out


def mk_inv(fn, name):
    def f(I):
        d = dict(fn(I))
        return d[name]
    return f


REFILL_NAMES = ['wf', 'counters_bounded', 'fifo_ascending', 'heap_before_fifo', 'heap_counters_distinct', 'count_is_fifo_size',
                'batch_counts_both', 'no_pass_order_yet']
QINV_NAMES = ['wf', 'batch_is_heap_size', 'counters_bounded', 'fifo_ascending', 'heap_before_fifo', 'heap_counters_distinct',
              'heap_after_last_popped']


def qinv_of_self(I):
    return qinv(I, I.local('self'))


def de_post(I, outcome, ctx):
    if no_escape(I, outcome):
        return
    cover(I, 'return')
    q = ctx['args']['self']
    for n, x in qinv(I, q):
        I.oblige('ensures.QInv.' + n, x)
    f, h = views(I, q)
    I.oblige('ensures.whole_snapshot_dispatched', h.hi == h.lo, detail='the pass ends only when every entry of the snapshot was popped')
    I.oblige('ensures.batch_zero', I.fz(q, '_flush_batch') == 0)
    # "everything queued ... is dispatched": a pass that starts with an exhausted snapshot takes over whatever waits in the fifo
    pre = ctx['pre']
    batch0 = z3.Select(pre['_flush_batch'][0], q.t)
    f0lo, f0hi = [z3.Select(a, q.t) for a in pre['_queue'][-2:]] if False else (None, None)
    fq0 = List(ENTRY).wrap([z3.Select(a, q.t) for a in pre['_queue']])
    if not I.st.ghost.get('REFILL_ENTERED'):
        I.oblige('idle_pass_takes_over_the_queued_events', z3.Not(z3.And(batch0 == 0, fq0.hi > fq0.lo)),
                 detail='the previous snapshot was exhausted and events are waiting in the fifo, yet the pass did not take them over: they '
                        'would never be dispatched')


def de_calls():
    return {'heappush': s_heappush, 'heappop': s_heappop, 'dispatcher': s_dispatcher_callback}


def refill_entry_hook(I):
    # obligation P2: a refill happens only when the previous snapshot is exhausted
    q = I.local('self')
    f, h = views(I, q)
    I.oblige('refill_only_when_snapshot_exhausted', h.hi == h.lo,
             detail='events fired during a pass stay in the fifo until every entry of the snapshot has been popped')
    I.st.write_field(q.t, 'G_lp_valid', VBool(False))
    I.st.ghost['REFILL_ENTERED'] = True


SPECS.append(FucSpec(
    'C02', FILE, '_EventQueue.dispatchEvents', de_setup, de_post, fields=Q_FIELDS, calls=de_calls(),
    loops={0: LoopSpec(inv=[(n, mk_inv(refill_inv, n)) for n in REFILL_NAMES], havoc_fields=['_queue', '_priority_queue'],
                       entry_hook=refill_entry_hook),
           1: LoopSpec(inv=[(n, mk_inv(qinv_of_self, n)) for n in QINV_NAMES], havoc_fields=list(Q_FIELDS))},
    cover=['return', 'pop', 'callback'],
    clause='dispatchEvents: entries are popped in strictly ascending (priority, fire order) within a pass, nested flushes included; '
           'the fifo is moved to the heap only when the previous snapshot is exhausted; the whole snapshot is dispatched; the queue '
           'invariant holds whenever handlers can re-enter and at exit',
))


# ----------------------------------------------------------------------------- __len__
def len_post(I, outcome, ctx):
    if no_escape(I, outcome):
        return
    cover(I, 'return')
    q = ctx['args']['self']
    f, h = views(I, q)
    I.oblige('len_is_fifo_plus_heap', outcome[1].t == (f.hi - f.lo) + (h.hi - h.lo))


SPECS.append(FucSpec('C02', FILE, '_EventQueue.__len__', lambda I: {'self': q_setup(I)}, len_post, fields=Q_FIELDS, cover=['return'],
                     clause='len(queue) counts undispatched events of both stages'))

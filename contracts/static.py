"""C16 — static files: containment in the document root, exact byte ranges.

Functions under contract: circuits/web/utils.py:get_ranges, circuits/web/dispatchers/static.py:Static._on_request,
circuits/web/tools.py:serve_file (range part).
"""
import z3
from pyvc.core import *  # noqa
from pyvc import core, lib
from pyvc.contract import FucSpec, LoopSpec, sym, obj, cover

SPECS = []

# ----------------------------------------------------------------------------- get_ranges
RANGE_T = Tup(Int, Int)


def gr_setup(I):
    hv = sym(I, 'headervalue', Opt(Str))
    n = sym(I, 'content_length', Int)
    I.assume(n.t >= 0, 'requires content_length >= 0')
    return {'headervalue': hv, 'content_length': n}


def _ranges_ok(I, lst, n, which):
    i = core.fresh('ri', z3.IntSort())
    a, b = z3.Select(lst.arrs[0], i), z3.Select(lst.arrs[1], i)
    inw = z3.And(lst.lo <= i, i < lst.hi)
    body = {'lower': a >= 0, 'order': a < b, 'upper': b <= n}[which]
    return z3.ForAll([i], z3.Implies(inw, body))


def gr_inv(which):
    def f(I):
        r = I.local('result')
        if isinstance(r, VCList):
            r = clist_to_sym(r, RANGE_T)
        return z3.And(r.lo <= r.hi, _ranges_ok(I, r, I.local('content_length').t, which))
    return f


def gr_post(I, outcome, ctx):
    kind, v = outcome
    n = ctx['args']['content_length'].t
    if kind == 'raise':
        cover(I, 'raise')
        # the only exception the statement allows is the 416 signal
        I.oblige('no_escape', z3.BoolVal(v.cls == 'RangeUnsatisfiable'), detail='escaping %s' % v.cls)
        return
    if isinstance(v, VNone):
        cover(I, 'none')
        return
    if isinstance(v, VCList):
        v = clist_to_sym(v, RANGE_T)
    cover(I, 'list')
    for which in ('lower', 'order', 'upper'):
        I.oblige('ensures.bounds.' + which, _ranges_ok(I, v, n, which))


def s_stddev(I, recv, args, kw):
    I.st.trusted_used.add('circuits.web.utils.stddev: returns some real number (pure)')
    return VReal(core.fresh('stddev', z3.RealSort()))


def gr_replay(model, ob):
    hv = model.get('headervalue')
    isnone = bool(hv[0]) if isinstance(hv, list) else False
    s = None if isnone else lib.unescape(hv[1] if isinstance(hv, list) else hv)
    n = model.get('content_length')
    return '''
import sys
from circuits.web.utils import get_ranges
from circuits.web.exceptions import RangeUnsatisfiable
hv, n = %r, %r
try:
    r = get_ranges(hv, n)
except RangeUnsatisfiable:
    print('RangeUnsatisfiable (allowed)'); sys.exit(0)
except Exception as e:
    print('get_ranges(%%r, %%r) raised %%r' %% (hv, n, e)); sys.exit(1)
bad = [t for t in (r or []) if not (0 <= t[0] < t[1] <= n)]
print('get_ranges(%%r, %%r) = %%r' %% (hv, n, r))
if bad:
    print('ranges outside [0, %%d]: %%r' %% (n, bad)); sys.exit(1)
sys.exit(0)
''' % (s, n)


SPECS.append(FucSpec(
    'C16', 'circuits/web/utils.py', 'get_ranges', gr_setup, gr_post,
    calls={'stddev': s_stddev},
    loops={0: LoopSpec(inv=[('lower', gr_inv('lower')), ('order', gr_inv('order')), ('upper', gr_inv('upper'))],
                       kinds={'result': List(RANGE_T)})},
    exc_parents={'RangeUnsatisfiable': 'Exception'},
    replay=gr_replay, cover=['none', 'list'],
    clause='every returned range (a,b) satisfies 0 <= a < b <= content_length; no exception but RangeUnsatisfiable escapes',
))

"""C16 — static files: containment in the document root, exact byte ranges.

Functions under contract: circuits/web/utils.py:get_ranges, circuits/web/dispatchers/static.py:Static._on_request,
circuits/web/tools.py:serve_file (range part).
"""
import z3
from pyvc.core import *  # noqa
from pyvc import core, lib
from pyvc.contract import FucSpec, LoopSpec, sym, obj, cover

SPECS = []

# ----------------------------------------------------------------------------- get_ranges
RANGE_T = Tup(Int, Int)


def gr_setup(I):
    hv = sym(I, 'headervalue', Opt(Str))
    n = sym(I, 'content_length', Int)
    I.assume(n.t >= 0, 'requires content_length >= 0')
    return {'headervalue': hv, 'content_length': n}


def _ranges_ok(I, lst, n, which):
    i = core.fresh('ri', z3.IntSort())
    a, b = z3.Select(lst.arrs[0], i), z3.Select(lst.arrs[1], i)
    inw = z3.And(lst.lo <= i, i < lst.hi)
    body = {'lower': a >= 0, 'order': a < b, 'upper': b <= n}[which]
    return z3.ForAll([i], z3.Implies(inw, body))


def gr_inv(which):
    def f(I):
        r = I.local('result')
        if isinstance(r, VCList):
            r = clist_to_sym(r, RANGE_T)
        return z3.And(r.lo <= r.hi, _ranges_ok(I, r, I.local('content_length').t, which))
    return f


def gr_post(I, outcome, ctx):
    kind, v = outcome
    n = ctx['args']['content_length'].t
    if kind == 'raise':
        cover(I, 'raise')
        # the only exception the statement allows is the 416 signal
        I.oblige('no_escape', z3.BoolVal(v.cls == 'RangeUnsatisfiable'), detail='escaping %s' % v.cls)
        return
    if isinstance(v, VNone):
        cover(I, 'none')
        gr_none_in_loop(I, n)
        return
    if isinstance(v, VCList):
        v = clist_to_sym(v, RANGE_T)
    cover(I, 'list')
    for which in ('lower', 'order', 'upper'):
        I.oblige('ensures.bounds.' + which, _ranges_ok(I, v, n, which))


def _S():
    return z3.StringSort()


def gr_body_hook(I):
    r = I.local('result')
    if isinstance(r, VCList):
        r = clist_to_sym(r, RANGE_T)
    I.st.ghost['RESULT_AT_ITER_START'] = r
    I.st.ghost['ITER_BRANGE'] = lib.unopt(I, I.local('brange')).t


def _spec_terms(b):
    dash = z3.StringVal('-')
    idx = z3.IndexOf(b, dash, 0)
    strip = core.fn('py_strip', _S(), _S())
    p0 = strip(z3.SubString(b, 0, idx))
    p1 = strip(z3.SubString(b, idx + 1, z3.Length(b) - idx - 1))
    return idx, p0, p1, core.fn('py_int_val', _S(), z3.IntSort()), core.fn('py_int_ok', _S(), z3.BoolSort())


def gr_none_in_loop(I, n):
    """the header is ignored as a whole (None -> the full entity is served) from inside the loop only because THIS byte-range-spec is
    malformed: no '-', a non-numeric position, a negative suffix length, an empty spec, or last < first (for a first position that
    lies inside the entity; beyond it the spec is unsatisfiable and skipped)"""
    b = I.st.ghost.get('ITER_BRANGE')
    if b is None:
        return
    idx, p0, p1, ival, iok = _spec_terms(b)
    E = z3.StringVal('')
    malformed = z3.Or(idx < 0,
                      z3.And(p0 != E, z3.Or(z3.Not(iok(p0)), z3.And(p1 != E, z3.Not(iok(p1))), z3.And(p1 != E, ival(p1) < ival(p0), ival(p0) < n))),
                      z3.And(p0 == E, z3.Or(p1 == E, z3.Not(iok(p1)), ival(p1) < 0)))
    I.oblige('exact.header_ignored_only_for_a_malformed_spec', malformed,
             detail='a well-formed byte-range-spec made get_ranges return None (the full entity would be served instead of the range)')


def gr_iter_hook(I):
    """EXACTNESS (from the property: "Range requests return exactly the requested bytes"): at the end of an iteration that goes on,
    what the iteration did to `result` is what RFC 7233 prescribes for this byte-range-spec: first-last -> (first, min(last, n-1)+1),
    first- -> (first, n), -k -> (max(n-k, 0), n); unsatisfiable specs add nothing.  The spec is written over the same (trusted)
    string functions the code uses: split at the first '-', strip, int."""
    g = I.st.ghost
    r0 = g.get('RESULT_AT_ITER_START')
    r1 = I.local('result')
    if r0 is None or not isinstance(r1, VList):
        return
    cover(I, 'iteration')
    b = lib.unopt(I, I.local('brange')).t
    n = I.local('content_length').t
    dash = z3.StringVal('-')
    idx = z3.IndexOf(b, dash, 0)
    strip = core.fn('py_strip', _S(), _S())
    ival = core.fn('py_int_val', _S(), z3.IntSort())
    p0 = strip(z3.SubString(b, 0, idx))
    p1 = strip(z3.SubString(b, idx + 1, z3.Length(b) - idx - 1))
    A, B = ival(p0), ival(p1)
    first_form = p0 != z3.StringVal('')
    open_ended = p1 == z3.StringVal('')
    exp_a = z3.If(first_form, A, z3.If(n - B > 0, n - B, 0))
    exp_b = z3.If(first_form, z3.If(open_ended, n, z3.If(B < n - 1, B, n - 1) + 1), n)
    appended = r1.hi == r0.hi + 1
    same = r1.hi == r0.hi
    a, bb = z3.Select(r1.arrs[0], r0.hi), z3.Select(r1.arrs[1], r0.hi)
    I.oblige('exact.iteration_appends_at_most_one_range', z3.Or(appended, same))
    I.oblige('exact.appended_range_is_the_requested_one', z3.Implies(appended, z3.And(a == exp_a, bb == exp_b)),
             detail='first-last -> (first, min(last, n-1)+1); first- -> (first, n); -k -> (max(n-k,0), n)')
    satisfiable = z3.If(first_form, A < n, z3.And(B > 0, n > 0))
    I.oblige('exact.unsatisfiable_spec_adds_nothing', z3.Implies(z3.Not(satisfiable), same))
    j = core.fresh('dj', z3.IntSort())
    dup = z3.Exists([j], z3.And(r0.lo <= j, j < r0.hi, z3.Select(r0.arrs[0], j) == exp_a, z3.Select(r0.arrs[1], j) == exp_b))
    I.oblige('exact.satisfiable_spec_not_dropped', z3.Implies(z3.And(satisfiable, z3.Not(dup)), appended),
             detail='every satisfiable byte-range-spec contributes its range (duplicates once)')


def s_stddev(I, recv, args, kw):
    I.st.trusted_used.add('circuits.web.utils.stddev: returns some real number (pure)')
    return VReal(core.fresh('stddev', z3.RealSort()))


def gr_replay(model, ob):
    hv = model.get('headervalue')
    isnone = bool(hv[0]) if isinstance(hv, list) else False
    s = None if isnone else lib.unescape(hv[1] if isinstance(hv, list) else hv)
    n = model.get('content_length')
    return '''
import sys
from circuits.web.utils import get_ranges
from circuits.web.exceptions import RangeUnsatisfiable
hv, n = %r, %r
try:
    r = get_ranges(hv, n)
except RangeUnsatisfiable:
    print('RangeUnsatisfiable (allowed)'); sys.exit(0)
except Exception as e:
    print('get_ranges(%%r, %%r) raised %%r' %% (hv, n, e)); sys.exit(1)
bad = [t for t in (r or []) if not (0 <= t[0] < t[1] <= n)]
print('get_ranges(%%r, %%r) = %%r' %% (hv, n, r))
if bad:
    print('ranges outside [0, %%d]: %%r' %% (n, bad)); sys.exit(1)
# exactness against an independent reading of RFC 7233 (only for headers made of plain first-last / first- / -suffix specs)
import re
def rfc(hv, n):
    if '=' not in hv: return 'n/a'
    out = []
    for spec in hv.split('=', 1)[1].split(','):
        m = re.fullmatch(r'\s*(\d*)\s*-\s*(\d*)\s*', spec)
        if not m or (m.group(1) == '' and m.group(2) == ''): return 'n/a'
        a, b = m.group(1), m.group(2)
        if a == '':
            k = int(b); t = (max(n - k, 0), n) if k > 0 and n > 0 else None
        else:
            a = int(a)
            if b != '' and int(b) < a: return 'n/a'      # reversed: header ignored or 416, not judged here
            t = (a, (min(int(b), n - 1) if b != '' else n - 1) + 1) if a < n else None
        if t is not None and t not in out: out.append(t)
    return out
want = rfc(hv or '', n)
if want != 'n/a' and r is not None and list(map(tuple, r)) != want:
    print('not the requested bytes: RFC 7233 gives %%r' %% (want,)); sys.exit(1)
sys.exit(0)
''' % (s, n)


SPECS.append(FucSpec(
    'C16', 'circuits/web/utils.py', 'get_ranges', gr_setup, gr_post,
    calls={'stddev': s_stddev},
    loops={0: LoopSpec(inv=[('lower', gr_inv('lower')), ('order', gr_inv('order')), ('upper', gr_inv('upper'))],
                       kinds={'result': List(RANGE_T)}, body_hook=gr_body_hook, iter_hook=gr_iter_hook)},
    exc_parents={'RangeUnsatisfiable': 'Exception'},
    replay=gr_replay, cover=['none', 'list', 'iteration'],
    clause='every returned range (a,b) satisfies 0 <= a < b <= content_length; no exception but RangeUnsatisfiable escapes; each '
           'byte-range-spec contributes exactly the range RFC 7233 prescribes (first-last, first-, -suffix), unsatisfiable ones nothing',
))


# ----------------------------------------------------------------------------- Static._on_request
from pyvc.contract import uf, noop  # noqa: E402

SEP = z3.StringVal('/')


def inside(docroot, loc):
    """the statement's 'inside the document root': the root itself or a path below it"""
    pre = z3.If(z3.SuffixOf(SEP, docroot), docroot, z3.Concat(docroot, SEP))
    return z3.Or(loc == docroot, z3.PrefixOf(pre, loc))


def _abspath(I, recv, args, kw):
    """TRUSTED os.path.abspath: some normalised absolute path, a function of its argument only; nothing is assumed
    about what '..' resolves to, except the two join lemmas below."""
    I.st.trusted_used.add("os.path.abspath: uninterpreted; result is absolute ('/'-prefixed), has no trailing '/' unless it "
                          "is '/', and contains no '/../' or '/./' component")
    (a,) = args
    r = core.fn('abspath', z3.StringSort(), z3.StringSort())(a.t)
    I.assume(z3.PrefixOf(SEP, r))
    I.assume(z3.Or(r == SEP, z3.Not(z3.SuffixOf(SEP, r))))
    return VStr(r)


def _join(I, recv, args, kw):
    """TRUSTED os.path.join: uninterpreted per arity, with join(a,'') = a + '/' unless a ends with '/' and the plain-name
    lemma abspath(join(d, p, name)) = abspath(join(d,p)) + '/' + name for a plain file name."""
    I.st.trusted_used.add("os.path.join: uninterpreted; axioms: join(a,'') adds a trailing separator when missing; "
                          "abspath(join(d,'')) == abspath(join(d,'.')) == abspath(d); "
                          "abspath(join(d,p,name)) == abspath(join(d,p)) (+'/' unless root) + name for a plain name "
                          "(no '/', not '', '.', '..')")
    ts = [lib.unopt(I, a).t for a in args]
    S = z3.StringSort()
    f = core.fn('join_%d' % len(ts), *([S] * len(ts) + [S]))
    r = f(*ts)
    if len(ts) == 2:
        ab = core.fn('abspath', S, S)
        I.assume(z3.Implies(ts[1] == z3.StringVal(''), r == z3.If(z3.SuffixOf(SEP, ts[0]), ts[0], z3.Concat(ts[0], SEP))))
        # join(d,'') and join(d,'.') denote d itself
        I.assume(z3.Implies(z3.Or(ts[1] == z3.StringVal(''), ts[1] == z3.StringVal('.')), ab(r) == ab(ts[0])))
    if len(ts) == 3:
        ab = core.fn('abspath', S, S)
        j2 = core.fn('join_2', S, S, S)(ts[0], ts[1])
        base = ab(j2)
        I.assume(z3.Implies(z3.Or(ts[1] == z3.StringVal(''), ts[1] == z3.StringVal('.')), ab(j2) == ab(ts[0])))
        plain = z3.And(z3.Not(z3.Contains(ts[2], SEP)), ts[2] != z3.StringVal(''), ts[2] != z3.StringVal('.'),
                       ts[2] != z3.StringVal('..'))
        I.assume(z3.Implies(plain, ab(r) == z3.Concat(z3.If(z3.SuffixOf(SEP, base), base, z3.Concat(base, SEP)), ts[2])))
    return VStr(r)


def _dirname(I, recv, args, kw):
    I.st.trusted_used.add("os.path.dirname: uninterpreted; dirname(x) is a prefix of x")
    (a,) = args
    r = core.fn('dirname', z3.StringSort(), z3.StringSort())(a.t)
    I.assume(z3.PrefixOf(r, a.t))
    return VStr(r)


def _split(I, recv, args, kw):
    (a,) = args
    S = z3.StringSort()
    return VTuple([VStr(core.fn('split_head', S, S)(a.t)), VStr(core.fn('split_tail', S, S)(a.t))])


def st_setup(I):
    self = obj(I, 'self', 'Static')
    event = obj(I, 'event', 'Event')
    request = obj(I, 'request', 'Request')
    response = obj(I, 'response', 'Response')
    docroot = I.fz(self, 'docroot')
    I.st.inputs['docroot'] = docroot
    # Static.__init__ stores os.path.abspath(docroot): normalised absolute
    I.assume(z3.PrefixOf(SEP, docroot), 'requires docroot absolute (set by __init__ through abspath)')
    I.assume(z3.Or(docroot == SEP, z3.Not(z3.SuffixOf(SEP, docroot))))
    I.assume(core.fn('abspath', z3.StringSort(), z3.StringSort())(docroot) == docroot,
             'requires docroot is already normalised (abspath is idempotent on it)')
    # configuration precondition: default documents are plain file names
    d = I.field(self, 'defaults')
    i = core.fresh('di', z3.IntSort())
    nm = z3.Select(d.arrs[0], i)
    I.assume(z3.ForAll([i], z3.Implies(z3.And(d.lo <= i, i < d.hi), z3.And(
        z3.Not(z3.Contains(nm, SEP)), nm != z3.StringVal(''), nm != z3.StringVal('.'), nm != z3.StringVal('..')))),
        'requires defaults are plain file names')
    I.assume(d.lo <= d.hi)
    I.st.ghost['SERVED'] = []
    I.st.ghost['LISTED'] = []
    return {'self': self, 'event': event, 'request': request, 'response': response}


def s_serve_file(I, recv, args, kw):
    loc = args[2]
    I.st.ghost['SERVED'].append(loc.t)
    n = len(I.st.ghost['SERVED'])
    self = I.local('self')
    cover(I, 'serve_file')
    I.oblige('serve_file.requires.inside_docroot', inside(I.fz(self, 'docroot'), loc.t),
             detail='location handed to serve_file must lie inside the document root')
    return obj_fresh(I, 'Response')


def obj_fresh(I, cls):
    return I.st.fresh_ref(cls)


def s_listdir(I, recv, args, kw):
    (d,) = args
    self = I.local('self')
    cover(I, 'listing')
    I.oblige('listdir.requires.inside_docroot', inside(I.fz(self, 'docroot'), d.t),
             detail='directory listed must lie inside the document root')
    arr = core.fresh('listdir', z3.ArraySort(z3.IntSort(), z3.StringSort()))
    n = core.fresh('nlist', z3.IntSort())
    I.assume(n >= 0)
    return VList(Str, [arr], z3.IntVal(0), n)


def st_post(I, outcome, ctx):
    kind, v = outcome
    if kind == 'raise':
        I.oblige('no_escape', z3.BoolVal(False), detail='escaping %s' % v.cls)
        return
    cover(I, 'return')


STATIC_CALLS = {
    'os.path.abspath': _abspath, 'os.path.join': _join, 'os.path.dirname': _dirname, 'os.path.split': _split,
    'os.path.exists': uf('exists', Bool, 'os.path.exists/isfile/isdir: arbitrary booleans (file system state is unconstrained)'),
    'os.path.isfile': uf('isfile', Bool), 'os.path.isdir': uf('isdir', Bool),
    'unquote': uf('unquote', Str, 'urllib.parse.unquote: uninterpreted pure function'),
    'quote': uf('quote', Str), 'escape': uf('escape', Str),
    'serve_file': s_serve_file, 'os.listdir': s_listdir,
    'response.cookie.clear': noop, 'event.stop': noop,
    '_dirlisting_template.safe_substitute': lambda I, r, a, k: VStr(core.fresh('page', z3.StringSort())),
}


# request.path is a str, Static.path may be None: one heap field `path` of kind Opt(Str); request.path is constrained non-None
def st_setup2(I):
    a = st_setup(I)
    rp = I.field(a['request'], 'path')
    I.assume(z3.Not(rp.isnone), 'requires request.path is a str')
    I.st.inputs['request.path'] = [rp.isnone, rp.val.t]
    sp = I.field(a['self'], 'path')
    I.st.inputs['self.path'] = [sp.isnone, sp.val.t]
    return a


def st_replay(model, ob):
    # the counter-model fixes abspath/join only as uninterpreted functions; concretise by searching a small battery of
    # hostile request paths on a real temporary directory tree, calling the real handler directly
    return '''
import os, sys, tempfile, shutil
import circuits.web.dispatchers.static as S
top = tempfile.mkdtemp(prefix='pyvc_c16_')
try:
    root = os.path.join(top, 'www'); os.makedirs(os.path.join(root, 'sub'))
    os.makedirs(os.path.join(top, 'www2'))
    for p, c in (('www/index.html', 'in'), ('www/sub/a.txt', 'a'), ('secret.txt', 'SECRET'), ('www2/s.txt', 'SIB')):
        open(os.path.join(top, p), 'w').write(c)
    served = []
    S.serve_file = lambda req, res, loc, *a, **k: served.append(loc) or res
    real_listdir = os.listdir
    S.os.listdir = lambda d: served.append(d) or real_listdir(d)
    class Obj: pass
    bad = []
    for mount in (None, '/static'):
        comp = S.Static(path=mount, docroot=root, dirlisting=True)
        for path in ['/', '/index.html', '/sub/a.txt', '/../secret.txt', '/../www2/s.txt', '/..', '/../', '/../www2',
                     '/%2e%2e/secret.txt', '/sub/../../secret.txt', '/..%2fsecret.txt', '//../secret.txt',
                     '/..\\\\secret.txt', '/..%5Csecret.txt', '/..%5cwww2/s.txt', '/sub\\\\..\\\\..\\\\secret.txt', '/..\\\\', '/..%5C']:
            req = Obj(); req.path = (mount or '') + path
            res = Obj(); res.cookie = {}
            ev = Obj(); ev.stop = lambda: None
            del served[:]
            try:
                S.Static._on_request(comp, ev, req, res)
            except Exception as e:
                print('exception', path, repr(e))
            for loc in served:
                loc = os.path.normpath(loc)          # what the operating system will open
                if not (loc == root or loc.startswith(root + os.sep)):
                    bad.append((mount, req.path, loc))
    for b in bad: print('served/listed outside docroot %r: mount=%r path=%r location=%r' % (root, b[0], b[1], b[2]))
    sys.exit(1 if bad else 0)
finally:
    shutil.rmtree(top, ignore_errors=True)
'''


SPECS.append(FucSpec(
    'C16', 'circuits/web/dispatchers/static.py', 'Static._on_request', st_setup2, st_post, replay=st_replay,
    fields={'path': Opt(Str), 'docroot': Str, 'defaults': List(Str), 'dirlisting': Bool},
    calls=STATIC_CALLS,
    # os.sep / os.path.sep / os.altsep as on the platform the checks run on (POSIX; listed with the os.path assumptions)
    env={'os.sep': VStr('/'), 'os.path.sep': VStr('/'), 'os.altsep': NONE, 'os.path.altsep': NONE, 'os.pardir': VStr('..'), 'os.curdir': VStr('.')},
    trusted=['os.sep = "/" , os.altsep = None (POSIX platform constants)'],
    loops={0: LoopSpec(inv=[('true', lambda I: z3.BoolVal(True))]),
           1: LoopSpec(inv=[('true', lambda I: z3.BoolVal(True))], kinds={'listing': List(Str)})},
    cover=['serve_file', 'listing', 'return'],
    clause='every location handed to serve_file / os.listdir lies inside the document root, for every request path, '
           'also when the handler is called directly (no front-end guard assumed)',
))


# ----------------------------------------------------------------------------- serve_file: status, Content-Range, Content-Length, body
# Ghost: FILE = the bytes of the file (length c_len = st.st_size).  Trusted: open/seek/read (read(k) after seek(a) returns
# FILE[a:a+k]), os.stat, formatdate, mimetypes.  get_ranges enters through its CONTRACT (verified above): None, [] or a list of
# ranges with 0 <= a < b <= c_len.
class HeadersModel(VModel):
    """response.headers / request.headers: a str -> value map, writes recorded"""

    def __init__(self, I, name, initial=None):
        self.name, self.d = name, dict(initial or {})

    def setitem(self, I, k, v):
        k = lib.unopt(I, k)
        if not (isinstance(k, VStr) and z3.is_string_value(k.t)):
            raise Unsupported('header name %r' % (k,))
        self.d[k.t.as_string()] = v

    def getitem(self, I, k):
        return self.d[lib.unopt(I, k).t.as_string()]

    def contains(self, I, item):
        item = lib.unopt(I, item)
        return z3.BoolVal(item.t.as_string() in self.d)

    def getattr(self, I, name):
        if name == 'get':
            return VFunc('headers.get', impl=lambda I2, b, a, k: self.d.get(lib.unopt(I2, a[0]).t.as_string(), a[1] if len(a) > 1 else NONE))
        raise Unsupported('headers.%s' % name)

    def delitem(self, I, k):
        self.d.pop(lib.unopt(I, k).t.as_string(), None)


class FileModel(VModel):
    def __init__(self, content):
        self.content, self.pos = content, z3.IntVal(0)

    def getattr(self, I, name):
        if name == 'seek':
            def seek(I2, b, a, k):
                self.pos = lib.unopt(I2, a[0]).t
                return NONE
            return VFunc('file.seek', impl=seek)
        if name == 'read':
            def read(I2, b, a, k):
                I2.st.trusted_used.add('file.seek(a); file.read(k): returns the k bytes of the file from offset a (fewer at end of file)')
                n = lib.unopt(I2, a[0]).t
                start = self.pos
                avail = z3.Length(self.content) - start
                self.pos = start + z3.If(n < avail, n, z3.If(avail > 0, avail, 0))     # reading advances the file position
                return VStr(z3.SubString(self.content, start, n), True)
            return VFunc('file.read', impl=read)
        raise Unsupported('file.%s' % name)


def sf_setup(I):
    request = obj(I, 'request', 'Request')
    response = obj(I, 'response', 'Response')
    path = sym(I, 'path', Str)
    g = I.st.ghost
    g['FILE'] = core.fresh('file_content', z3.StringSort())
    g['RH'] = HeadersModel(I, 'response.headers')
    rng = {}
    if I.st.choice(2, 'has_range') == 0:
        rng['Range'] = sym(I, 'Range', Str)
    g['QH'] = HeadersModel(I, 'request.headers', rng)
    g['PROTO11'] = I.st.choice(2, 'http11') == 0
    I.assume(core.fn('isabs_1', z3.StringSort(), z3.BoolSort())(path.t), 'requires an absolute path (Static passes abspath(...): documented precondition)')
    return {'request': request, 'response': response, 'path': path}


def s_get_ranges(I, recv, args, kw):
    """contract of get_ranges (verified above): None | [] | non-empty list of (a, b) with 0 <= a < b <= content_length"""
    n = lib.unopt(I, args[1]).t
    c = I.st.choice(4, 'ranges')
    g = I.st.ghost
    if c == 0:
        g['RANGES'] = None
        return NONE
    if c == 1:
        g['RANGES'] = []
        return VCList([])
    k = 1 if c == 2 else 2
    out = []
    for i in range(k):
        a, b = core.fresh('ra', z3.IntSort()), core.fresh('rb', z3.IntSort())
        I.assume(z3.And(0 <= a, a < b, b <= n), 'ensures of get_ranges: ranges lie inside the entity')
        out.append((a, b))
    g['RANGES'] = out
    return VCList([VTuple([VInt(a), VInt(b)]) for a, b in out])


def sf_post(I, outcome, ctx):
    kind, v = outcome
    g = I.st.ghost
    if kind == 'raise':
        I.oblige('no_escape', z3.BoolVal(False), detail='escaping %s' % v.cls)
        return
    cover(I, 'return')
    rh = g['RH'].d
    n = g.get('C_LEN')
    if g.get('NOTFOUND') or g.get('NOT_MODIFIED') or n is None:
        return
    rs = g.get('RANGES', 'unset')
    status = g.get('STATUS')
    body = g.get('BODY')
    if not g['PROTO11'] or rs == 'unset':
        cover(I, 'http10')
        I.oblige('http10.no_partial_content', z3.BoolVal(status is None and 'Content-Range' not in rh))
        I.oblige('whole.content_length_is_the_file_size', lib.unopt(I, rh['Content-Length']).t == n if 'Content-Length' in rh else z3.BoolVal(False))
        return
    if rs is None:
        cover(I, 'whole')
        I.oblige('whole.status_unchanged_and_no_content_range', z3.BoolVal(status is None and 'Content-Range' not in rh))
        I.oblige('whole.content_length_is_the_file_size', lib.unopt(I, rh['Content-Length']).t == n if 'Content-Length' in rh else z3.BoolVal(False))
        I.oblige('whole.body_is_the_file', z3.BoolVal(isinstance(body, FileModel)))
    elif rs == []:
        cover(I, 'unsatisfiable')
        errs = g.get('HTTPERRORS', [])
        I.oblige('unsatisfiable.answered_416', z3.BoolVal(len(errs) == 1) if len(errs) != 1 else lib.unopt(I, errs[0]).t == 416)
        cr = rh.get('Content-Range')
        I.oblige('unsatisfiable.content_range_names_the_size', z3.BoolVal(False) if cr is None else
                 cr.t == z3.Concat(z3.StringVal('bytes */'), lib.int_to_str(n)))
    elif len(rs) == 1:
        cover(I, 'single')
        a, b = rs[0]
        I.oblige('single.status_206', z3.BoolVal(status is not None) if status is None else status == 206)
        cr = rh.get('Content-Range')
        want = z3.Concat(z3.StringVal('bytes '), lib.int_to_str(a), z3.StringVal('-'), lib.int_to_str(b - 1), z3.StringVal('/'), lib.int_to_str(n))
        I.oblige('single.content_range_matches_the_bytes_sent', z3.BoolVal(False) if cr is None else cr.t == want,
                 detail='Content-Range: bytes first-last/size with last inclusive')
        cl = rh.get('Content-Length')
        I.oblige('single.content_length_is_the_range_length', z3.BoolVal(False) if cl is None else lib.unopt(I, cl).t == b - a)
        ok = isinstance(body, VStr)
        I.oblige('single.body_is_exactly_the_requested_bytes', z3.BoolVal(False) if not ok else body.t == z3.SubString(g['FILE'], a, b - a),
                 detail='exactly FILE[first:last+1]')
    else:
        cover(I, 'multipart')
        I.oblige('multipart.status_206', z3.BoolVal(status is not None) if status is None else status == 206)
        I.oblige('multipart.no_stale_content_length', z3.BoolVal('Content-Length' not in rh))


def sf_status_hook(I, o, v):
    if o.cls == 'Response':
        I.st.ghost['STATUS'] = lib.unopt(I, v).t
        return True
    return False


def sf_body_hook(I, o, v):
    if o.cls == 'Response':
        I.st.ghost['BODY'] = v
        return True
    return False


def s_stat(I, recv, args, kw):
    if I.st.choice(2, 'stat') == 1:
        lib.raise_(I, 'OSError', VInt(2))
    n = core.fresh('st_size', z3.IntSort())
    I.assume(n >= 0)
    I.assume(z3.Length(I.st.ghost['FILE']) == n, 'st_size is the length of the file')
    I.st.ghost['C_LEN'] = n
    return VCons('stat_result', [], attrs={'st_size': VInt(n), 'st_mode': VInt(core.fresh('st_mode', z3.IntSort())),
                                           'st_mtime': VReal(core.fresh('mtime', z3.RealSort()))})


def s_notfound(I, recv, args, kw):
    I.st.ghost['NOTFOUND'] = True
    return I.st.fresh_ref('NotFound')


def s_validate_since(I, recv, args, kw):
    if I.st.choice(2, 'validate_since') == 1:
        I.st.ghost['NOT_MODIFIED'] = True
        return I.st.fresh_ref('NotModified')
    return NONE


def s_httperror_sf(I, recv, args, kw):
    I.st.ghost.setdefault('HTTPERRORS', []).append(args[2])
    return I.st.fresh_ref('HTTPError')


def s_make_file_ranges(I):
    return None


def sf_replay(model, ob):
    return "import os, re, sys, tempfile\nfrom circuits.web import tools, wrappers\nfrom circuits.web.headers import Headers\nclass S:\n    def getpeername(self): return ('127.0.0.1', 1)\n    def getsockname(self): return ('127.0.0.1', 2)\ndata = bytes(range(200))\nfd, path = tempfile.mkstemp(); os.write(fd, data); os.close(fd)\nbad = []\ndef serve(rng, proto=(1, 1)):\n    req = wrappers.Request(S(), 'GET', 'http', '/f', proto, '', headers=Headers([('Host', 'localhost:80')] + ([('Range', rng)] if rng else [])))\n    res = wrappers.Response(req, 'utf-8')\n    out = tools.serve_file(req, res, path, type='application/octet-stream')\n    return req, res, out\ntry:\n    for rng, want in (('bytes=0-0', (0, 1)), ('bytes=5-14', (5, 15)), ('bytes=190-', (190, 200)), ('bytes=-7', (193, 200)), ('bytes=150-999', (150, 200))):\n        req, res, out = serve(rng)\n        body = res.body if isinstance(res.body, bytes) else b''.join(x if isinstance(x, bytes) else x.encode() for x in res.body)\n        a, b = want\n        cr = 'bytes %d-%d/%d' % (a, b - 1, len(data))\n        if res.status != 206 or res.headers.get('Content-Range') != cr or int(res.headers.get('Content-Length')) != b - a or body != data[a:b]:\n            bad.append('%s: status %s, Content-Range %r, Content-Length %r, body == FILE[%d:%d]: %r' % (rng, res.status, res.headers.get('Content-Range'), res.headers.get('Content-Length'), a, b, body == data[a:b]))\n    for rng in ('bytes=0-9,20-29', 'bytes=0-9,5-14', 'bytes=50-59,0-9', 'bytes=100-109,-10,0-9', 'bytes=20-29,20-28'):\n        req, res, out = serve(rng)\n        if res.status != 206:\n            bad.append('%s: status %s' % (rng, res.status)); continue\n        raw = b''.join(x if isinstance(x, bytes) else x.encode('latin-1') for x in res.body)\n        parts = re.findall(rb'Content-range: bytes (\\d+)-(\\d+)/(\\d+)\\r\\n\\r\\n', raw)\n        pos = 0\n        for m in re.finditer(rb'Content-range: bytes (\\d+)-(\\d+)/(\\d+)\\r\\n\\r\\n', raw):\n            a, b, n = int(m.group(1)), int(m.group(2)) + 1, int(m.group(3))\n            got = raw[m.end():m.end() + (b - a)]\n            if got != data[a:b] or n != len(data) or not raw[m.end() + (b - a):].startswith(b'\\r\\n--'):\n                bad.append('%s: part announced as bytes %d-%d carries %r..., FILE has %r...' % (rng, a, b - 1, got[:6], data[a:b][:6]))\n    req, res, out = serve('bytes=500-600')\n    if res.headers.get('Content-Range') != 'bytes */200':\n        bad.append('unsatisfiable range: Content-Range %r' % res.headers.get('Content-Range'))\n    req, res, out = serve('bytes=0-9', (1, 0))\n    if res.status == 206 or int(res.headers.get('Content-Length')) != 200:\n        bad.append('HTTP/1.0: partial content answered (%s, %r)' % (res.status, res.headers.get('Content-Length')))\nfinally:\n    os.unlink(path)\nfor b in bad[:6]: print(b)\nsys.exit(1 if bad else 0)\n"


SPECS.append(FucSpec(
    'C16', 'circuits/web/tools.py', 'serve_file', sf_setup, sf_post, replay=sf_replay,
    fields={'status': Int},
    calls={'os.path.isabs': uf('isabs', Bool), 'os.stat': s_stat, 'stat.S_ISDIR': uf('S_ISDIR', Bool), 'notfound': s_notfound,
           'formatdate': lambda I, r, a, k: VStr(core.fresh('http_date', z3.StringSort())), 'validate_since': s_validate_since,
           'os.path.splitext': lambda I, r, a, k: VCList([VStr(core.fresh('stem', z3.StringSort())), VStr(core.fresh('ext', z3.StringSort()))]),
           'mimetypes.types_map.get': lambda I, r, a, k: VStr(core.fresh('mime', z3.StringSort())),
           'os.path.basename': uf('basename'), 'open': lambda I, r, a, k: FileModel(I.st.ghost['FILE']),
           'get_ranges': s_get_ranges, 'httperror': s_httperror_sf, '_make_boundary': lambda I, r, a, k: VStr(core.fresh('boundary', z3.StringSort())),
           'file_ranges': lambda I, r, a, k: VCons('multipart-generator', [])},
    attr_hooks={'request.headers': lambda I: I.st.ghost['QH'], 'response.headers': lambda I: I.st.ghost['RH'],
                'request.protocol': lambda I: VTuple([VInt(1), VInt(1 if I.st.ghost['PROTO11'] else 0)])},
    setattr_hooks={'status': sf_status_hook, 'body': sf_body_hook},
    cover=['return', 'whole', 'unsatisfiable', 'single', 'multipart', 'http10'],
    clause='serve_file: a single satisfiable range is answered 206 with Content-Range "bytes a-(b-1)/size", Content-Length b-a and '
           'exactly the bytes FILE[a:b]; no satisfiable range -> 416 with "bytes */size"; no (or ignored) Range header or HTTP/1.0 -> '
           'the whole file with its size; several ranges -> 206 multipart (generator body not decided)'))


# ----------------------------------------------------------------------------- serve_file.<locals>.file_ranges (multipart/byteranges body)
# The nested generator is verified as its own FUC; the variables it captures from serve_file are explicit ghost parameters.
def fr_setup(I):
    g = I.st.ghost
    g['FILE'] = core.fresh('file_content', z3.StringSort())
    n = core.fresh('c_len', z3.IntSort())
    I.assume(z3.And(n >= 0, z3.Length(g['FILE']) == n))
    g['C_LEN'] = n
    rs = []
    for k in range(2):       # two parts; the parts are independent of each other (no invariant links them): the body of the loop is
        a, b = core.fresh('ra%d' % k, z3.IntSort()), core.fresh('rb%d' % k, z3.IntSort())      # checked for an arbitrary pair, in any order / overlap
        I.assume(z3.And(0 <= a, a < b, b <= n), 'ranges as get_ranges returns them')
        rs.append((a, b))
    g['RANGES'] = rs
    g['BOUNDARY'] = core.fresh('boundary', z3.StringSort())
    g['TYPE'] = core.fresh('ctype', z3.StringSort())
    g['BODYFILE'] = FileModel(g['FILE'])
    I.st.inputs['ranges'] = [x for ab in rs for x in ab]
    return {}


def fr_yield(I, v):
    log(I, 'YIELDS').append(v)
    return NONE


def log(I, n):
    return I.st.ghost.setdefault(n, [])


def fr_post(I, outcome, ctx):
    kind, v = outcome
    if kind == 'raise':
        I.oblige('no_escape', z3.BoolVal(False), detail='escaping %s' % v.cls)
        return
    cover(I, 'return')
    g = I.st.ghost
    ys = log(I, 'YIELDS')
    rs, n, bnd, ty = g['RANGES'], g['C_LEN'], g['BOUNDARY'], g['TYPE']
    SV = z3.StringVal
    want = [SV('\r\n')]
    for a, b in rs:
        want += [z3.Concat(SV('--'), bnd), z3.Concat(SV('\r\nContent-type: '), ty),
                 z3.Concat(SV('\r\nContent-range: bytes '), lib.int_to_str(a), SV('-'), lib.int_to_str(b - 1), SV('/'), lib.int_to_str(n), SV('\r\n\r\n')),
                 z3.SubString(g['FILE'], a, b - a), SV('\r\n')]
    want += [z3.Concat(SV('--'), bnd, SV('--')), SV('\r\n')]
    I.oblige('multipart.number_of_pieces', z3.BoolVal(len(ys) == len(want)), detail='%d pieces yielded, %d expected' % (len(ys), len(want)))
    names = {3: 'content_range_line_matches_the_part', 4: 'part_is_exactly_the_requested_bytes'}
    for k, (y, w) in enumerate(zip(ys, want)):
        y = lib.unopt(I, y)
        pos = (k - 1) % 5 + 1 if 1 <= k <= 5 * len(rs) else 0
        nm = names.get(pos if pos in (3, 4) else -1, 'framing_piece')
        I.oblige('multipart.%s' % nm, z3.BoolVal(isinstance(y, VStr)) if not isinstance(y, VStr) else y.t == w,
                 detail='piece %d of the multipart body' % k)


SPECS.append(FucSpec(
    'C16', 'circuits/web/tools.py', 'serve_file.<locals>.file_ranges', fr_setup, fr_post,
    env={'r': lambda I: VCList([VTuple([VInt(a), VInt(b)]) for a, b in I.st.ghost['RANGES']]), 'boundary': lambda I: VStr(I.st.ghost['BOUNDARY']),
         'type': lambda I: VStr(I.st.ghost['TYPE']), 'c_len': lambda I: VInt(I.st.ghost['C_LEN']), 'bodyfile': lambda I: I.st.ghost['BODYFILE']},
    on_yield=fr_yield, cover=['return'], replay=lambda model, ob: sf_replay(model, ob),
    clause='multipart/byteranges body of serve_file: for every part, whatever the order or overlap of the ranges, the Content-range line is '
           '"bytes a-(b-1)/size" and the bytes that follow are exactly FILE[a:b]; boundaries and terminator as RFC 7233 appendix A'))

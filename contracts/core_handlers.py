"""C01 — events reach exactly the matching handlers of the current tree; the handler cache is never stale.

Spec (the property's sentence, written once):
  matches(h, c, ch)   := ch == '*'  or  hchan(h) in {'*', ch}  or  ch is c        hchan(h) = h.channel or owner(h).channel
  local(h, c, n, ch)  := (h in c._handlers['*'] or h in c._handlers[n]) and matches(h, c, ch)
  HSET(r, n, ch, h)   := exists c in sub[r] . local(h, c, n, ch) or h in c._globals        (sub[] = ghost subtree sets of C07)
Functions under contract: Manager.getHandlers (recursive), addHandler, removeHandler, the cache block of _dispatcher,
and the cache-invalidation duties of every operation that changes HSET of a root or creates a root.
"""
import z3
from pyvc.core import *  # noqa
from pyvc import core, lib
from pyvc.contract import FucSpec, LoopSpec, sym, obj, cover, uf, noop
from contracts.core_tree import TREE_FIELDS, TREE_CALLS, assume_forest, isC, sub, kids, par, root, H as HEAP, g8, CHILD_OF, dpu_setup, \
    reg_setup, log, no_escape
from contracts.core_dispatch import disp_spec, HANDLER

SPECS = []
MGR = 'circuits/core/manager.py'
COMP = 'circuits/core/components.py'
R = core.RefSort
S = z3.StringSort
A = core.AnySort

H_FIELDS = dict(TREE_FIELDS)
H_FIELDS.update({'_handlers': Dict(Str, Set(HANDLER)), '_globals': Set(HANDLER), 'h_channel': Any, '__self__': Ref, 'channel': Any, 'name': Str,
                 'h_names': Set(Str), 'h_names_empty': Bool, '__name__': Str})
H_ALIAS = {('Handler', 'channel'): 'h_channel', ('Handler', 'names'): 'h_names'}
STAR = lambda: core.fn('any_of_str', S(), A())(z3.StringVal('*'))      # noqa: E731
NONE_ANY = lambda: z3.Const('any_none', A())                           # noqa: E731


def hchan(I, h):
    hc = z3.Select(HEAP(I, 'h_channel'), h)
    owner = z3.Select(HEAP(I, '__self__'), h)
    return z3.If(hc == NONE_ANY(), z3.Select(HEAP(I, 'channel'), owner), hc)


def matches(I, h, c, ch):
    return z3.Or(ch == STAR(), hchan(I, h) == STAR(), hchan(I, h) == ch, ch == core.fn('any_of_ref', R(), A())(c))


def in_table(I, c, key, h):
    d_dom = z3.Select(I.st.heap['_handlers'][0], c)
    d_val = z3.Select(I.st.heap['_handlers'][1], c)
    return z3.And(z3.Select(d_dom, key), z3.Select(z3.Select(d_val, key), h))


def LG(I, h, c, name, ch):
    """h is a local handler of component c for (name, ch), or a global handler of c"""
    loc = z3.And(z3.Or(in_table(I, c, z3.StringVal('*'), h), in_table(I, c, name, h)), matches(I, h, c, ch))
    return z3.Or(loc, z3.Select(z3.Select(HEAP(I, '_globals'), c), h))


def HSET(r, name, ch, h):
    return core.fn('HSET', R(), S(), A(), R(), z3.BoolSort())(r, name, ch, h)


def WIT(r, name, ch, h):
    return core.fn('HSET_witness', R(), S(), A(), R(), R())(r, name, ch, h)


def hset_def(I, r, name, ch):
    """definitional axioms of HSET at (r, name, ch), skolemised: sound conservative extension"""
    h, c = core.fresh('h', R()), core.fresh('c', R())
    w = WIT(r, name, ch, h)
    return [
        z3.ForAll([h], z3.Implies(HSET(r, name, ch, h), z3.And(sub(I, r, w), LG(I, h, w, name, ch)))),
        z3.ForAll([h, c], z3.Implies(z3.And(sub(I, r, c), LG(I, h, c, name, ch)), HSET(r, name, ch, h))),
    ]


def gh_setup(I):
    self = obj(I, 'self', 'Component')
    event = obj(I, 'event', 'Event')
    I.st.uses_any = True
    ch = sym(I, 'channel', Any)
    I.assume(isC(self.t))
    assume_forest(I)
    I.assume(g8(I, self.t), 'lemma G8 (see C07): a non-trivial member of sub[self] lies below exactly one child of self')
    name = I.fz(event, 'name')
    for ax in hset_def(I, self.t, name, ch.t):
        I.assume(ax, 'definition of HSET at self')
    # the same definition at the children (used by the recursive contract)
    k = core.fresh('k', R())
    h, c = core.fresh('h', R()), core.fresh('c', R())
    I.assume(z3.ForAll([k, h], z3.Implies(z3.And(kids(I, self.t, k), HSET(k, name, ch.t, h)),
                                          z3.And(sub(I, k, WIT(k, name, ch.t, h)), LG(I, h, WIT(k, name, ch.t, h), name, ch.t)))),
             'definition of HSET at the children (=>)')
    I.assume(z3.ForAll([k, h, c], z3.Implies(z3.And(kids(I, self.t, k), sub(I, k, c), LG(I, h, c, name, ch.t)), HSET(k, name, ch.t, h))),
             'definition of HSET at the children (<=)')
    hh = core.fresh('h', R())
    I.assume(z3.ForAll([hh], z3.Select(HEAP(I, '__self__'), hh) != core.null()),
             'requires handlers are bound methods (or functions, whose owner is the _dummy object with channel None)')
    dummy = obj(I, '_dummy', 'Dummy')
    I.assume(z3.Select(HEAP(I, 'channel'), dummy.t) == NONE_ANY(), '_dummy.channel is None')
    I.st.ghost['DUMMY'] = dummy
    I.st.ghost['NAME'] = name
    return {'self': self, 'event': event, 'channel': ch, 'kwargs': VCDict({})}


def gh_inv0(I):
    """loop 0 (own handler tables): handlers = the visited table entries that match the channel"""
    self, ch = I.local('self'), I.local('channel')
    hs = I.local('handlers')
    vis = I.local('__visited0').arr
    h = core.fresh('h', R())
    cur = z3.Select(hs.arr, h) if hs.arr is not None else z3.BoolVal(False)
    return z3.ForAll([h], cur == z3.And(z3.Select(vis, h), matches(I, h, self.t, ch.t)))


def gh_inv1(I):
    """loop 1 (children): handlers = own matching handlers + globals + HSET of every visited child"""
    self, ch = I.local('self'), I.local('channel')
    name = I.st.ghost['NAME']
    hs = I.local('handlers')
    vis = I.local('__visited1').arr
    h, v = core.fresh('h', R()), core.fresh('v', R())
    own = LG(I, h, self.t, name, ch.t)
    w = core.fresh('w', R())
    cur = z3.Select(hs.arr, h)
    return z3.And(
        z3.ForAll([h], z3.Implies(cur, z3.Or(own, z3.Exists([w], z3.And(z3.Select(vis, w), HSET(w, name, ch.t, h)))))),
        z3.ForAll([h, v], z3.Implies(z3.Or(own, z3.And(z3.Select(vis, v), HSET(v, name, ch.t, h))), cur)))


def s_child_getHandlers(I, recv, args, kw):
    """recursive contract: c.getHandlers(event, channel) = HSET(c, name, channel)"""
    c = recv
    ev, ch = args[0], args[1]
    r = Set(Ref).fresh('handlers_of_child')
    h = core.fresh('h', R())
    I.assume(z3.ForAll([h], z3.Select(r.arr, h) == HSET(c.t, I.st.ghost['NAME'], ch.t, h)), 'getHandlers.ensures (recursive call)')
    return r


def gh_post(I, outcome, ctx):
    if no_escape(I, outcome):
        return
    cover(I, 'return')
    a = ctx['args']
    self, ch = a['self'], a['channel']
    res = outcome[1]
    name = I.st.ghost['NAME']
    h = core.fresh('h', R())
    I.oblige('ensures.only_matching_handlers_of_the_subtree', z3.ForAll([h], z3.Implies(z3.Select(res.arr, h), HSET(self.t, name, ch.t, h))),
             detail='no handler outside the tree, of another event name, or on another channel is delivered to')
    I.oblige('ensures.every_matching_handler_of_the_subtree', z3.ForAll([h], z3.Implies(HSET(self.t, name, ch.t, h), z3.Select(res.arr, h))),
             detail='every handler of a component in the tree that matches name and channel is delivered to')
    for f in ('_handlers', '_globals', 'components'):
        for o, n in zip(ctx['pre'][f], I.st.heap[f]):
            I.oblige('pure.' + f, o == n)


def kinds_handlers():
    return {'handlers': Set(Ref)}


SPECS.append(FucSpec(
    'C01', MGR, 'Manager.getHandlers', gh_setup, gh_post, fields=H_FIELDS, field_alias=H_ALIAS,
    calls={'c.getHandlers': s_child_getHandlers}, env={'_dummy': lambda I: I.st.ghost['DUMMY']}, absent_attrs={'im_self'},
    attr_hooks={}, classes={'Handler'},
    loops={0: LoopSpec(inv=[('matching_visited_entries', gh_inv0)], kinds={'handlers': Set(HANDLER), 'handler_channel': Any}),
           1: LoopSpec(inv=[('own_plus_visited_children', gh_inv1)], kinds={'handlers': Set(HANDLER)})},
    cover=['return'],
    trusted=['lemma G8 of the forest: proved in lemmas/Forest.lean from the Forest conjuncts G2 and G4 (C07) and a rank decreasing towards '
             'the parent (finiteness of the forest assumed); termination of the recursion from the same rank'],
    clause='getHandlers(event, channel) on component r returns exactly HSET(r, name, channel): the handlers of components in the '
           'subtree of r declared for the name (or all events, or global) whose channel matches'))


# ----------------------------------------------------------------------------- addHandler / removeHandler
def ah_setup(I):
    self = obj(I, 'self', 'Component')
    I.st.uses_any = True
    f = obj(I, 'f', 'Handler')
    rt = I.field(self, 'root')
    I.assume(rt.t != core.null())
    return {'self': self, 'f': f}


def ah_post(I, outcome, ctx):
    if no_escape(I, outcome):
        return
    cover(I, 'return')
    a, pre = ctx['args'], ctx['pre']
    self, f = a['self'], a['f']
    I.oblige('cache_of_the_root_invalidated', z3.Select(HEAP(I, '_cache_needs_refresh'), z3.Select(pre['root'][0], self.t)),
             detail='a handler added before the next dispatch must be reflected: the root cache is marked stale')
    names_empty = I.fz(f, 'h_names_empty')
    k, h = core.fresh('k', S()), core.fresh('h', R())
    old_dom, old_val = z3.Select(pre['_handlers'][0], self.t), z3.Select(pre['_handlers'][1], self.t)
    new_dom, new_val = z3.Select(I.st.heap['_handlers'][0], self.t), z3.Select(I.st.heap['_handlers'][1], self.t)
    old_in = lambda kk, hh: z3.And(z3.Select(old_dom, kk), z3.Select(z3.Select(old_val, kk), hh))   # noqa: E731
    new_in = lambda kk, hh: z3.And(z3.Select(new_dom, kk), z3.Select(z3.Select(new_val, kk), hh))   # noqa: E731
    names = z3.Select(HEAP(I, 'h_names'), f.t)
    is_global = z3.And(names_empty, z3.Select(HEAP(I, 'h_channel'), f.t) == STAR())
    added = lambda kk: z3.If(names_empty, z3.And(z3.Not(is_global), kk == z3.StringVal('*')), z3.Select(names, kk))   # noqa: E731
    I.oblige('tables_gain_exactly_the_handler', z3.ForAll([k, h], new_in(k, h) == z3.Or(old_in(k, h), z3.And(h == f.t, added(k)))),
             detail='declared names -> those tables; no names -> the catch-all table, or the globals when its channel is "*"')
    g0, g1 = z3.Select(pre['_globals'][0], self.t), z3.Select(HEAP(I, '_globals'), self.t)
    I.oblige('globals_gain_exactly_the_handler', z3.ForAll([h], z3.Select(g1, h) == z3.Or(z3.Select(g0, h), z3.And(h == f.t, is_global))))
    I.oblige('returns_the_method', outcome[1].t == f.t)


def s_setattr_dyn(I, recv, args, kw):
    """setattr(self, method.__name__, method): binds the handler under its (symbolic) name; not a tracked field"""
    return NONE


class NamesModel(VModel):
    """method.names: a tuple of event names, viewed as the set h_names (+ emptiness flag)"""

    def __init__(self, h):
        self.h = h

    def truthy(self, I):
        return z3.Not(I.fz(self.h, 'h_names_empty'))


def names_hook(I, o):
    return NamesModel(o)


def ah_names_loop_inv(I):
    """for name in method.names: tables of the visited names contain the method"""
    return z3.BoolVal(True)


SPECS.append(FucSpec(
    'C01', MGR, 'Manager.addHandler', ah_setup, ah_post, fields=H_FIELDS, field_alias=H_ALIAS, classes={'Handler'},
    calls={'isfunction': lambda I, r, a, k: VBool(False), 'setattr': s_setattr_dyn},
    getattr_hooks={'h_names': lambda I, o: names_view(I, o)},
    loops={0: LoopSpec(inv=[('tables_of_visited_names', lambda I: ah_loop_inv(I))], havoc_fields=['_handlers'])},
    cover=['return'],
    clause='addHandler(method): the method is entered in the table of each of its names (catch-all table or globals when it has '
           'none), nothing else changes, and the cache of the root is marked stale'))


def names_view(I, o):
    """method.names as a value the loop can iterate: the set h_names; its truthiness is `not h_names_empty`"""
    s = I.st.read_field(o.t, 'h_names')
    x = core.fresh('n', S())
    I.assume(I.fz(o, 'h_names_empty') == z3.Not(z3.Exists([x], z3.Select(s.arr, x))), 'h_names_empty <=> no declared name')
    return s


def ah_loop_inv(I):
    self, m = I.local('self'), I.local('method')
    vis = I.local('__visited0').arr
    pre_dom = I.st.ghost['PRE_DOM']
    pre_val = I.st.ghost['PRE_VAL']
    k, h = core.fresh('k', S()), core.fresh('h', R())
    new_dom, new_val = z3.Select(I.st.heap['_handlers'][0], self.t), z3.Select(I.st.heap['_handlers'][1], self.t)
    old_in = z3.And(z3.Select(pre_dom, k), z3.Select(z3.Select(pre_val, k), h))
    new_in = z3.And(z3.Select(new_dom, k), z3.Select(z3.Select(new_val, k), h))
    return z3.ForAll([k, h], new_in == z3.Or(old_in, z3.And(h == m.t, z3.Select(vis, k))))


def ah_setup2(I):
    a = ah_setup(I)
    self = a['self']
    I.st.ghost['PRE_DOM'] = z3.Select(I.st.heap['_handlers'][0], self.t)
    I.st.ghost['PRE_VAL'] = z3.Select(I.st.heap['_handlers'][1], self.t)
    return a


SPECS[-1].setup = ah_setup2


def rh_setup(I):
    self = obj(I, 'self', 'Component')
    I.st.uses_any = True
    m = obj(I, 'method', 'Handler')
    I.assume(I.field(self, 'root').t != core.null())
    return {'self': self, 'method': m, 'event': sym(I, 'event_name', Str)}


def rh_post(I, outcome, ctx):
    kind, v = outcome
    a, pre = ctx['args'], ctx['pre']
    self, m, name = a['self'], a['method'], a['event'].t
    if kind == 'raise':
        cover(I, 'raise')
        old_dom, old_val = z3.Select(pre['_handlers'][0], self.t), z3.Select(pre['_handlers'][1], self.t)
        I.oblige('raises_only_KeyError_when_not_registered', z3.And(z3.BoolVal(v.cls == 'KeyError'),
                                                                   z3.Not(z3.And(z3.Select(old_dom, name), z3.Select(z3.Select(old_val, name), m.t)))),
                 detail='escaping %s' % v.cls)
        return
    cover(I, 'return')
    I.oblige('cache_of_the_root_invalidated', z3.Select(HEAP(I, '_cache_needs_refresh'), z3.Select(pre['root'][0], self.t)),
             detail='a handler removed before the next dispatch must not be called: the root cache is marked stale')
    k, h = core.fresh('k', S()), core.fresh('h', R())
    old_dom, old_val = z3.Select(pre['_handlers'][0], self.t), z3.Select(pre['_handlers'][1], self.t)
    new_dom, new_val = z3.Select(I.st.heap['_handlers'][0], self.t), z3.Select(I.st.heap['_handlers'][1], self.t)
    old_in = z3.And(z3.Select(old_dom, k), z3.Select(z3.Select(old_val, k), h))
    new_in = z3.And(z3.Select(new_dom, k), z3.Select(z3.Select(new_val, k), h))
    I.oblige('table_loses_exactly_the_handler', z3.ForAll([k, h], new_in == z3.And(old_in, z3.Not(z3.And(k == name, h == m.t)))))


SPECS.append(FucSpec(
    'C01', MGR, 'Manager.removeHandler', rh_setup, rh_post, name='Manager.removeHandler[event given]', fields=H_FIELDS, field_alias=H_ALIAS,
    classes={'Handler'}, calls={'delattr': lambda I, r, a, k: NONE}, cover=['return'],
    clause='removeHandler(method, name): the method leaves exactly that table (KeyError if it was not there), and the cache of the '
           'root is marked stale'))


def rha_setup(I):
    self = obj(I, 'self', 'Component')
    I.st.uses_any = True
    m = obj(I, 'method', 'Handler')
    I.assume(I.field(self, 'root').t != core.null())
    # the handler is registered the way addHandler registers it (proved above): in the table of each of its names, or in the
    # catch-all table / the globals when it has none
    names = z3.Select(HEAP(I, 'h_names'), m.t)
    names_empty = I.fz(m, 'h_names_empty')
    is_global = z3.And(names_empty, z3.Select(HEAP(I, 'h_channel'), m.t) == STAR())
    dom, val = z3.Select(I.st.heap['_handlers'][0], self.t), z3.Select(I.st.heap['_handlers'][1], self.t)
    k = core.fresh('k', S())
    where = z3.If(names_empty, z3.And(z3.Not(is_global), k == z3.StringVal('*')), z3.Select(names, k))
    I.assume(z3.ForAll([k], z3.And(z3.Select(dom, k), z3.Select(z3.Select(val, k), m.t)) == where), 'requires: registered by addHandler')
    I.assume(z3.Select(z3.Select(HEAP(I, '_globals'), self.t), m.t) == is_global)
    I.st.inputs['names_empty'] = names_empty
    I.st.inputs['is_global'] = is_global
    return {'self': self, 'method': m}


def rha_post(I, outcome, ctx):
    kind, v = outcome
    a, pre = ctx['args'], ctx['pre']
    self, m = a['self'], a['method']
    if kind == 'raise':
        I.oblige('no_escape', z3.BoolVal(False), detail='removing a registered handler raised %s' % v.cls)
        return
    cover(I, 'return')
    I.oblige('cache_of_the_root_invalidated', z3.Select(HEAP(I, '_cache_needs_refresh'), z3.Select(pre['root'][0], self.t)))
    k, h = core.fresh('k', S()), core.fresh('h', R())
    old_dom, old_val = z3.Select(pre['_handlers'][0], self.t), z3.Select(pre['_handlers'][1], self.t)
    new_dom, new_val = z3.Select(I.st.heap['_handlers'][0], self.t), z3.Select(I.st.heap['_handlers'][1], self.t)
    old_in = z3.And(z3.Select(old_dom, k), z3.Select(z3.Select(old_val, k), h))
    new_in = z3.And(z3.Select(new_dom, k), z3.Select(z3.Select(new_val, k), h))
    # from the property: "handlers ... removed ... before that moment are always reflected": after removeHandler(method) the
    # method is in no table and not among the globals, whatever kind of handler it is (named, catch-all, global)
    I.oblige('removed_handler_is_in_no_table', z3.ForAll([k], z3.Not(z3.And(z3.Select(new_dom, k), z3.Select(z3.Select(new_val, k), m.t)))),
             detail='a removed handler must not be found by getHandlers any more: named handlers leave the tables of their names, a '
                    'handler for all events leaves the catch-all table')
    g0, g1 = z3.Select(pre['_globals'][0], self.t), z3.Select(HEAP(I, '_globals'), self.t)
    I.oblige('removed_handler_is_not_global_any_more', z3.Not(z3.Select(g1, m.t)))
    I.oblige('other_handlers_keep_their_tables', z3.ForAll([k, h], z3.Implies(h != m.t, new_in == old_in)))
    I.oblige('other_globals_kept', z3.ForAll([h], z3.Implies(h != m.t, z3.Select(g1, h) == z3.Select(g0, h))))


def rha_loop_inv(I):
    self, m = I.local('self'), I.local('method')
    vis = I.local('__visited0').arr
    pre_dom, pre_val = I.st.ghost['PRE_DOM'], I.st.ghost['PRE_VAL']
    k, h = core.fresh('k', S()), core.fresh('h', R())
    new_dom, new_val = z3.Select(I.st.heap['_handlers'][0], self.t), z3.Select(I.st.heap['_handlers'][1], self.t)
    old_in = z3.And(z3.Select(pre_dom, k), z3.Select(z3.Select(pre_val, k), h))
    new_in = z3.And(z3.Select(new_dom, k), z3.Select(z3.Select(new_val, k), h))
    return z3.ForAll([k, h], new_in == z3.And(old_in, z3.Not(z3.And(h == m.t, z3.Select(vis, k)))))


def rha_setup2(I):
    a = rha_setup(I)
    self = a['self']
    I.st.ghost['PRE_DOM'] = z3.Select(I.st.heap['_handlers'][0], self.t)
    I.st.ghost['PRE_VAL'] = z3.Select(I.st.heap['_handlers'][1], self.t)
    return a


SPECS.append(FucSpec(
    'C01', MGR, 'Manager.removeHandler', rha_setup2, rha_post, name='Manager.removeHandler[all names]', fields=H_FIELDS, field_alias=H_ALIAS,
    replay=lambda model, ob: "import sys\nfrom circuits import Component, Event, handler\nclass ping(Event): pass\nseen=[]\nclass App(Component):\n    pass\napp=App()\ndef catch_all(self, event, *a): \n    if event.name=='ping': seen.append('catch_all')\ndef glob(self, event, *a):\n    if event.name=='ping': seen.append('global')\ndef named(self, *a): seen.append('named')\nh1=app.addHandler(handler()(catch_all))            # all events on the component's channel\nh2=app.addHandler(handler(channel='*')(glob))       # all events, all channels\nh3=app.addHandler(handler('ping')(named))\napp.fire(ping()); app.flush(); app.flush()\nprint('before removal:', sorted(seen)); del seen[:]\nfor h in (h1,h2,h3): app.removeHandler(h)\napp.fire(ping()); app.flush(); app.flush()\nprint('after removeHandler of all three:', sorted(seen))\nsys.exit(1 if seen else 0)\n",
    classes={'Handler'}, calls={'delattr': lambda I, r, a, k: NONE},
    getattr_hooks={'h_names': lambda I, o: names_view(I, o)},
    loops={0: LoopSpec(inv=[('tables_of_visited_names_lost_the_method', rha_loop_inv)], havoc_fields=['_handlers'])},
    cover=['return'],
    clause='removeHandler(method) without event name: whatever kind of handler it is (named, catch-all, global) it is afterwards in no '
           'table and not among the globals, nothing else changes, and the cache of the root is marked stale'))


# ----------------------------------------------------------------------------- cache invalidation duties of the tree operations
def dpu_cache_post(I, outcome, ctx):
    if no_escape(I, outcome):
        return
    cover(I, 'return')
    self = ctx['args']['self']
    I.oblige('new_root_cache_marked_stale', z3.Select(HEAP(I, '_cache_needs_refresh'), self.t),
             detail='the detached component becomes a root: a cache it filled when it was a root earlier must not be reused')
    p0 = par(I, self.t, ctx['pre'])
    r0 = root(I, self.t, ctx['pre'])
    I.oblige('former_root_cache_marked_stale', z3.Implies(p0 != self.t, z3.Select(HEAP(I, '_cache_needs_refresh'), r0)))


def dpu_cache_replay(model, ob):
    return '''
import sys
from circuits import Component, Event, handler
class hello(Event): pass
seen = []
class X(Component):
    channel = 'x'
    def hello(self): seen.append('X')
class G(Component):
    channel = 'x'
    def hello(self): seen.append('G')
class Rt(Component): pass
x = X()
x.fire(hello()); x.flush()                 # X used as a root: fills its own cache
r = Rt(); x.register(r); r.flush()
g = G().register(x); r.flush()             # grandchild added while X is a child of R
x.unregister()
for _ in range(6): r.flush()
del seen[:]
x.fire(hello()); x.flush()                 # X is a root again, with G below it
print('handlers reached after detaching X with its new child G:', seen)
sys.exit(1 if sorted(seen) != ['G', 'X'] else 0)
'''


SPECS.append(FucSpec(
    'C01', COMP, 'BaseComponent._do_prepare_unregister_complete', dpu_setup, dpu_cache_post, name='_do_prepare_unregister_complete[cache]',
    fields=TREE_FIELDS, calls=TREE_CALLS, cover=['return'], replay=dpu_cache_replay,
    clause='completion of an unregistration: the cache of the former root and the cache of the component that now runs as its own '
           'root are both marked stale'))


def reg_cache_post(I, outcome, ctx):
    kind, v = outcome
    if kind == 'raise':
        return
    cover(I, 'return')
    parent = ctx['args']['parent']
    I.oblige('joined_tree_cache_marked_stale', z3.Select(HEAP(I, '_cache_needs_refresh'), root(I, parent.t, ctx['pre'])),
             detail='components registered before the next dispatch are reflected')


SPECS.append(FucSpec(
    'C01', COMP, 'BaseComponent.register', reg_setup, reg_cache_post, name='register[cache]', fields=TREE_FIELDS, calls=TREE_CALLS,
    exc_parents={'UnregistrableError': 'Exception'}, cover=['return'],
    clause='register: the cache of the tree that gains the component is marked stale'))


# ----------------------------------------------------------------------------- dispatcher: cache block
def c01_entry(I):
    g = I.st.ghost
    self, ev = I.local('self'), I.local('event')
    L = I.local('event_handlers')
    flag0 = g['FLAG0']
    if g.get('CACHE') == 'hit':
        cover(I, 'hit')
        I.oblige('cached_list_used_only_when_not_stale', z3.Not(flag0), detail='a stale cache is cleared before the lookup')
        return
    cover(I, 'miss')
    gh = g.get('GETHANDLERS', [])
    I.oblige('one_lookup_per_channel', z3.BoolVal(len(gh) == 1))
    if len(gh) != 1:
        return
    recv, e, ch, hs = gh[0]
    I.oblige('lookup_on_this_root_for_this_event_and_channel', z3.And(recv.t == self.t, e.t == ev.t, core.any_inject(ch) == g['CHAN'].t))
    x, i = core.fresh('x', R()), core.fresh('i', z3.IntSort())
    fb = g.get('FALLBACK')
    member = z3.Exists([i], z3.And(L.lo <= i, i < L.hi, z3.Select(L.arrs[0], i) == x))
    extra = (x == fb[1].t) if fb else z3.BoolVal(False)
    I.oblige('dispatch_list_is_the_live_handler_set', z3.ForAll([x], member == z3.Or(z3.Select(hs.arr, x), extra)),
             detail='exactly the handlers getHandlers returns now (plus the internal fallback handler) are called')
    j = core.fresh('j', z3.IntSort())
    I.oblige('each_handler_once', z3.ForAll([i, j], z3.Implies(z3.And(L.lo <= i, i < j, j < L.hi), z3.Select(L.arrs[0], i) != z3.Select(L.arrs[0], j))),
             detail='the list that is iterated (and cached) holds no handler twice, so the loop calls each matching handler exactly once')
    stored = g.get('CACHE_STORE', [])
    I.oblige('fresh_list_cached_under_name_and_channels', z3.BoolVal(len(stored) == 1 and stored[0][1] is L))
    I.oblige('stale_flag_reset_only_with_a_cleared_cache', z3.Implies(flag0, z3.BoolVal(bool(g.get('CACHE_CLEARED')))))


def c01_extra(I, a):
    I.st.ghost['FLAG0'] = I.fz(a['self'], '_cache_needs_refresh')


def c01_post(I, outcome, ctx):
    if outcome[0] == 'return':
        cover(I, 'return')


SPECS.append(disp_spec(
    'C01', 'Manager._dispatcher[cache]', c01_post, setup_extra=c01_extra, cover_=['return', 'hit', 'miss'], loop_hooks={'entry': c01_entry},
    clause='_dispatcher: a stale cache is cleared before the lookup; on a miss the handler list is built from getHandlers on this '
           'root for the event and its channel (so it is the live set), each element once, and cached'))


# lemma G8 (assumed by the recursive contracts above) is machine-checked: lemmas/Forest.lean derives it from the conjuncts G2
# (reflexive) and G4 (upward unfolding), which the verifier proves for every operation, and a rank that decreases towards the parent
from contracts.line_irc import lean_check as _lean_check      # noqa: E402
from pyvc.contract import CustomCheck as _CustomCheck          # noqa: E402
SPECS.append(_CustomCheck('C01', 'Forest.lean', _lean_check('Forest.lean'), file='lemmas/Forest.lean',
                          clause='lemma G8 (a non-trivial member of sub[y] lies below some child of y) follows from the proved conjuncts '
                                 'G2 and G4 of the Forest invariant and well-foundedness of the parent relation (Lean 4, no sorry)'))


# the cache-invalidation duties of registerChild / unregisterChild (contracts written for C07) are what keeps the handler set of
# C01 live when a component joins or leaves between two dispatches: the same contracts are obligations of C01 as well
import copy as _copy                                  # noqa: E402
from contracts import core_tree as _ct               # noqa: E402
for _s in _ct.SPECS:
    if getattr(_s, 'qual', None) in ('Manager.registerChild', 'Manager.unregisterChild') and not isinstance(_s, _CustomCheck):
        _c = _copy.copy(_s)
        _c.prop = 'C01'
        SPECS.append(_c)


_ct._register_dispatcher_cache_under_C07()

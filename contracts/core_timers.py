"""C09 — timers never fire early, re-arm at least one interval later, and bound the idle wait.
C03 — the four sequential mechanisms of the cross-thread wake-up hand-shake (the interleaving quantifier itself is NOT decided).

Functions under contract: Timer._on_generate_events, Timer.reset, generate_events.reduce_time_left,
FallBackGenerator._on_generate_events/resume, BasePoller.resume, Manager._dispatcher (arming block), decorator priorities.
Time is real-valued; time() is a trusted non-decreasing clock.
"""
import ast
import z3
from pyvc.core import *  # noqa
from pyvc import core, lib, contract
from pyvc.contract import FucSpec, LoopSpec, CustomCheck, add_ob, sym, obj, cover, uf, noop
from contracts.core_dispatch import log, no_escape, disp_spec, since

SPECS = []

T_FIELDS = {'expiry_v': Opt(Real), 'interval': Opt(Real), 'persist': Bool, 't_event': Ref, 't_channels': Any,
            '_unregister_pending': Dyn(Bool), '_time_left': Real, 'handler': Ref, '_lock': Ref, '__self__': Ref, 'resume_m': Dyn(Ref),
            'stopped': Bool}
T_ALIAS = {('Timer', 'event'): 't_event', ('Timer', 'channels'): 't_channels'}


def s_time(I, recv, args, kw):
    """TRUSTED time.time(): a non-decreasing real clock"""
    I.st.trusted_used.add('time.time(): non-decreasing clock; floats treated as reals')
    clock = log(I, 'CLOCK')
    t = core.fresh('now', z3.RealSort())
    if clock:
        I.assume(t >= clock[-1])
    clock.append(t)
    I.st.inputs['now%d' % len(clock)] = t
    return VReal(t)


def expiry_get(I, o):
    return I.st.read_field(o.t, 'expiry_v')


def expiry_set(I, o, v):
    I.st.write_field(o.t, 'expiry_v', v)
    return True


def pending_get(I, o):
    d = I.st.read_field(o.t, '_unregister_pending')
    return VBool(z3.And(d.present, d.val.t))


def timer_objs(I):
    self = obj(I, 'self', 'Timer')
    e = I.field(self, 'expiry_v')
    iv = I.field(self, 'interval')
    I.st.inputs['expiry'] = [e.isnone, e.val.t]
    I.st.inputs['interval'] = [iv.isnone, iv.val.t]
    I.st.inputs['persist'] = I.fz(self, 'persist')
    return self


def tg_setup(I):
    self = timer_objs(I)
    event = obj(I, 'event', 'generate_events')
    iv = I.field(self, 'interval')
    I.assume(z3.Not(iv.isnone), 'rep invariant: interval set by __init__ through reset(interval)')
    return {'self': self, 'event': event}


def s_timer_fire(I, recv, args, kw):
    log(I, 'FIRED').append(args[0])
    return I.st.fresh_ref('Value')


def s_timer_reset(I, recv, args, kw):
    """contract of Timer.reset() (verified below): expiry' = time() + interval"""
    self = recv
    now = s_time(I, None, [], {})
    iv = I.field(self, 'interval')
    I.st.write_field(self.t, 'expiry_v', VReal(now.t + iv.val.t))
    log(I, 'RESET').append(now.t)
    return NONE


def s_unregister(I, recv, args, kw):
    """contract of BaseComponent.unregister (C07): marks the component pending (so the guard blocks refiring)"""
    log(I, 'UNREG').append(recv)
    I.st.write_field(recv.t, '_unregister_pending', VBool(True))
    return recv


def s_reduce(I, recv, args, kw):
    log(I, 'REDUCE').append(coerce(args[0], Real).t)
    return NONE


def s_event_stop(I, recv, args, kw):
    """contract of Event.stop(): no handler of lower priority runs for the event"""
    log(I, 'EVSTOP').append(recv)
    return NONE


def tg_post(I, outcome, ctx):
    if no_escape(I, outcome):
        return
    cover(I, 'return')
    a, pre = ctx['args'], ctx['pre']
    self = a['self']
    # every timer (and the poller / fallback behind the timers) is visited through ITS handler for the same generate_events
    # event: "a due timer fires in the first loop iteration at or after its expiry" holds for all timers only if no timer ends
    # the dispatch of that event for the handlers sorted behind it
    I.oblige('generate_events_left_running_for_the_handlers_behind', z3.BoolVal(len(log(I, 'EVSTOP')) == 0),
             detail='the timer handler stopped the generate_events event: timers (and the idle-wait handler) sorted behind this one '
                    'are skipped in this loop iteration')
    e0_none, e0 = z3.Select(pre['expiry_v'][0], self.t), z3.Select(pre['expiry_v'][1], self.t)
    pend0 = z3.And(z3.Select(pre['_unregister_pending'][0], self.t), z3.Select(pre['_unregister_pending'][1], self.t))
    clock = log(I, 'CLOCK')
    fired, red, resets, unreg = log(I, 'FIRED'), log(I, 'REDUCE'), log(I, 'RESET'), log(I, 'UNREG')
    iv = z3.Select(pre['interval'][1], self.t)
    persist = I.fz(self, 'persist')
    I.oblige('at_most_one_firing_per_visit', z3.BoolVal(len(fired) <= 1))
    if not clock:
        cover(I, 'idle')
        I.oblige('no_clock_read_only_when_unarmed', e0_none)
        I.oblige('unarmed_timer_does_nothing', z3.BoolVal(len(fired) == 0 and len(red) == 0))
        return
    now = clock[0]
    due = z3.And(z3.Not(e0_none), now >= e0)
    I.oblige('fires_iff_due_and_not_being_unregistered', z3.BoolVal(len(fired) == 1) == z3.And(due, z3.Not(pend0)),
             detail='never early (now >= expiry), always when due, never again once unregistration has begun')
    if fired:
        cover(I, 'fired')
        I.oblige('fires_its_own_event', fired[0].t == I.field(self, 't_event').t)
        I.oblige('reset_iff_persistent', z3.BoolVal(len(resets) == 1) == persist)
        I.oblige('one_shot_removes_itself', z3.BoolVal(len(unreg) == 1) == z3.Not(persist))
        if resets:
            e1 = I.field(self, 'expiry_v')
            I.oblige('next_expiry_one_interval_after_rearm', z3.And(z3.Not(e1.isnone), e1.val.t == resets[0] + iv, resets[0] >= now))
            I.oblige('consecutive_firings_an_interval_apart', z3.Implies(iv >= 0, e1.val.t >= now + iv),
                     detail='the next firing needs clock >= expiry\' >= (this firing time) + interval')
        I.oblige('loop_not_put_to_sleep_after_firing', z3.And(z3.BoolVal(len(red) == 1), *([red[0] == 0] if red else [])))
    else:
        I.oblige('state_untouched_when_not_firing', z3.And(I.field(self, 'expiry_v').isnone == e0_none, I.field(self, 'expiry_v').val.t == e0))
        if red:
            cover(I, 'waiting')
            I.oblige('idle_wait_bounded_by_time_to_expiry', z3.And(z3.BoolVal(len(red) == 1), red[0] == e0 - now, red[0] > 0),
                     detail='while the timer is pending the loop may sleep at most until its expiry')
        else:
            I.oblige('no_bound_only_when_due_but_unregistering', z3.And(due, pend0))


TIMER_HOOKS = dict(getattr_hooks={'expiry': expiry_get, 'unregister_pending': pending_get,
                                  # generate_events.time_left (a property over _time_left): readable by a timer visit
                                  'time_left': lambda I, o: VReal(I.fz(o, '_time_left')) if o.cls == 'generate_events' else None},
                   setattr_hooks={'expiry': expiry_set})

SPECS.append(FucSpec(
    'C09', 'circuits/core/timers.py', 'Timer._on_generate_events', tg_setup, tg_post, fields=T_FIELDS, field_alias=T_ALIAS,
    calls={'time': s_time, 'self.fire': s_timer_fire, 'self.reset': s_timer_reset, 'self.unregister': s_unregister,
           'event.reduce_time_left': s_reduce, 'event.stop': s_event_stop},
    attr_hooks={'self.channels': lambda I: VTuple([])}, cover=['return', 'fired', 'waiting', 'idle'], **TIMER_HOOKS,
    clause='Timer visit: fires its event iff now >= expiry and no unregistration is pending (at most once per visit); a persistent '
           'timer re-arms to now\' + interval with now\' >= now; a one-shot timer unregisters itself; otherwise the idle wait is '
           'cut to expiry - now'))


def tr_setup(kind):
    def setup(I):
        self = timer_objs(I)
        if kind == 'number':
            iv = sym(I, 'interval_arg', Opt(Real))
            I.assume(z3.Or(z3.Not(iv.isnone), z3.Not(I.field(self, 'interval').isnone)), 'requires an interval is known (reset() after __init__)')
            return {'self': self, 'interval': iv}
        dt = obj(I, 'interval_arg', 'datetime')
        return {'self': self, 'interval': dt}
    return setup


def tr_post(kind):
    def post(I, outcome, ctx):
        if no_escape(I, outcome):
            return
        cover(I, 'return')
        a, pre = ctx['args'], ctx['pre']
        self = a['self']
        clock = log(I, 'CLOCK')
        e1, iv1 = I.field(self, 'expiry_v'), I.field(self, 'interval')
        I.oblige('countdown_restarts_from_now', z3.And(z3.Not(e1.isnone), z3.BoolVal(len(clock) >= 1), e1.val.t == clock[-1] + iv1.val.t))
        if kind == 'number':
            arg = a['interval']
            iv0 = z3.Select(pre['interval'][1], self.t)
            I.oblige('interval_updated_iff_given', iv1.val.t == z3.If(arg.isnone, iv0, arg.val.t))
        else:
            mk = core.fn('mktime_of', core.RefSort(), z3.RealSort())(a['interval'].t)
            I.oblige('absolute_deadline_at_whole_second_resolution', z3.And(z3.BoolVal(len(clock) == 2), iv1.val.t == mk - clock[0],
                                                                            e1.val.t >= mk))
    return post


def s_mktime(I, recv, args, kw):
    I.st.trusted_used.add('mktime(dt.timetuple()): the deadline as seconds since the epoch, truncated to whole seconds')
    return VReal(core.fn('mktime_of', core.RefSort(), z3.RealSort())(args[0].args[0].t))


for kind in ('number', 'datetime'):
    SPECS.append(FucSpec(
        'C09', 'circuits/core/timers.py', 'Timer.reset', tr_setup(kind), tr_post(kind), name='Timer.reset[%s]' % kind, fields=T_FIELDS,
        field_alias=T_ALIAS, calls={'time': s_time, 'mktime': s_mktime, 'interval.timetuple': lambda I, r, a, k: VCons('timetuple', [r])},
        classes={'datetime'}, subclass_of={'datetime': None}, subclass_of_closed={'datetime'}, cover=['return'], **TIMER_HOOKS,
        clause='reset(): expiry = now + interval (interval replaced when given; a datetime deadline becomes mktime(deadline) - now, '
               'so the expiry is never before the deadline at whole-second resolution)'))


# ----------------------------------------------------------------------------- generate_events.reduce_time_left (C09 + C03.3)
def rt_setup(I):
    self = obj(I, 'self', 'generate_events')
    t = sym(I, 'time_left', Real)
    I.st.inputs['_time_left'] = I.fz(self, '_time_left')
    return {'self': self, 'time_left': t}


def s_resume_call(I, recv, args, kw):
    log(I, 'RESUMED').append(1)
    return NONE


def rt_post(I, outcome, ctx):
    if no_escape(I, outcome):
        return
    cover(I, 'return')
    a, pre = ctx['args'], ctx['pre']
    self, t = a['self'], a['time_left'].t
    old = z3.Select(pre['_time_left'][0], self.t)
    new = I.fz(self, '_time_left')
    lowers = z3.And(t >= 0, z3.Or(old < 0, old > t))
    I.oblige('only_lowers', new == z3.If(lowers, t, old), detail='time_left\' = t if t >= 0 and (unlimited or larger) else unchanged')
    I.oblige('monotone', z3.Implies(old >= 0, z3.And(new >= 0, new <= old)))
    resumed = log(I, 'RESUMED')
    h = z3.Select(pre['handler'][0], self.t)
    I.oblige('resume_only_when_cut_to_zero_while_handled', z3.Implies(z3.BoolVal(len(resumed) > 0), z3.And(lowers, t == 0, h != core.null())))
    I.oblige('resume_at_most_once', z3.BoolVal(len(resumed) <= 1))
    if I.st.ghost.get('HAS_RESUME'):
        I.oblige('resume_called_when_cut_to_zero_while_handled', z3.Implies(z3.And(lowers, t == 0, h != core.null()), z3.BoolVal(len(resumed) == 1)),
                 detail='the waiting generator is woken up')


def rt_getattr_builtin(I, recv, args, kw):
    """getattr(owner, 'resume', None) / getattr(handler, 'im_self', handler.__self__)"""
    name = args[1].t.as_string()
    if name == 'im_self':
        return args[2]
    if name == 'resume':
        c = I.st.choice(2, 'has_resume')
        I.st.ghost['HAS_RESUME'] = c == 0
        if c == 0:
            cover(I, 'resume')
            return VFunc('resume', impl=s_resume_call, bound=args[0])
        return NONE
    raise Unsupported('getattr %s' % name)


SPECS.append(FucSpec(
    'C09', 'circuits/core/events.py', 'generate_events.reduce_time_left', rt_setup, rt_post, fields=T_FIELDS,
    calls={'getattr': rt_getattr_builtin, 'ismethod': lambda I, r, a, k: VBool(isinstance(a[0], VFunc))}, cover=['return', 'resume'],
    clause='reduce_time_left(t): only lowers the time left (t >= 0 and current unlimited or larger), never raises it; when it is cut to 0 '
           'while a handler is recorded, that handler\'s component is resumed exactly once'))
SPECS.append(FucSpec(
    'C03', 'circuits/core/events.py', 'generate_events.reduce_time_left', rt_setup, rt_post, fields=T_FIELDS,
    calls={'getattr': rt_getattr_builtin, 'ismethod': lambda I, r, a, k: VBool(isinstance(a[0], VFunc))}, cover=['return', 'resume'],
    clause='(sequential mechanism 3) reduce_time_left(0) on the event being handled wakes the waiting generator through resume()'))


# ----------------------------------------------------------------------------- FallBackGenerator (C09 idle bound, C03.4)
FB_FIELDS = {'_time_left': Real, '_continue': Ref, 'stopped': Bool, '_lock': Ref}


def fb_setup(I):
    self = obj(I, 'self', 'FallBackGenerator')
    event = obj(I, 'event', 'generate_events')
    I.st.inputs['time_left'] = I.fz(event, '_time_left')
    return {'self': self, 'event': event}


def s_wait(I, recv, args, kw):
    """TRUSTED threading.Event.wait(t): blocks at most t seconds; meanwhile other threads may cut event.time_left"""
    I.st.trusted_used.add('threading.Event.wait(t) returns after at most t seconds or when set(); clear()/set() as documented')
    ev = I.local('event')
    log(I, 'ORDER').append('wait')
    log(I, 'WAITS').append((coerce(args[0], Real).t, I.fz(ev, '_time_left')))
    # rely: during the wait another thread may only lower time_left (reduce_time_left)
    old = I.fz(ev, '_time_left')
    I.st.havoc_field('_time_left')
    new = I.fz(ev, '_time_left')
    I.assume(z3.Or(new == old, z3.And(new >= 0, z3.Or(old < 0, new <= old))), 'rely: other threads only reduce the time left')
    return VBool(core.fresh('woken', z3.BoolSort()))


def s_clear(I, recv, args, kw):
    log(I, 'ORDER').append('clear')
    return NONE


def s_fb_reduce(I, recv, args, kw):
    t = coerce(args[0], Real).t
    old = I.fz(recv, '_time_left')
    I.st.write_field(recv.t, '_time_left', VReal(z3.If(z3.And(t >= 0, z3.Or(old < 0, old > t)), t, old)))
    log(I, 'ORDER').append('reduce')
    return NONE


def s_ev_stop(I, recv, args, kw):
    log(I, 'ORDER').append('stop')
    I.st.write_field(recv.t, 'stopped', VBool(True))
    return NONE


def fb_post(I, outcome, ctx):
    if no_escape(I, outcome):
        return
    cover(I, 'return')
    a, pre = ctx['args'], ctx['pre']
    event = a['event']
    tl0 = z3.Select(pre['_time_left'][0], event.t)
    waits, order = log(I, 'WAITS'), log(I, 'ORDER')
    if I.st.in_modular_body if hasattr(I.st, 'in_modular_body') else False:
        return
    I.oblige('event_stopped_on_every_path', I.fz(event, 'stopped'))
    I.oblige('clear_before_any_wait', z3.BoolVal('clear' in order and (('wait' not in order) or order.index('clear') < order.index('wait'))),
             detail='the wake-up flag is cleared (under the lock) before the generator can block, never after')
    for t, tl in waits[:1]:
        pass


def fb_wait_obligation(I, recv, args, kw):
    """every blocking wait is bounded by the time left read just before it (or is the re-check period of the unlimited wait)"""
    ev = I.local('event')
    t = coerce(args[0], Real).t
    tl = I.fz(ev, '_time_left')
    cover(I, 'wait')
    I.oblige('wait_bounded_by_time_left', z3.Or(z3.And(tl > 0, t == tl), z3.And(tl < 0, t == 10000)),
             detail='the fallback generator never sleeps past the time left; with time_left == 0 it does not wait at all')
    I.oblige('no_wait_when_time_left_is_zero', tl != 0)
    return s_wait(I, recv, args, kw)


def fb_loop_inv(I):
    return z3.BoolVal(True)


FB_REPLAY = "import sys, threading\nfrom circuits.core.helpers import FallBackGenerator\nfrom circuits.core.events import generate_events\nbad = []\nfor tl in (0.0005, 0.25, 3.0, 1e-6):\n    waits = []\n    class Flag:\n        def clear(self): pass\n        def set(self): pass\n        def wait(self, t=None): waits.append(t)\n    fb = FallBackGenerator()\n    fb._continue = Flag()\n    ev = generate_events(threading.RLock(), -1)\n    ev.reduce_time_left(tl)\n    fb._on_generate_events(ev)\n    if any(w is None or w > tl for w in waits):\n        bad.append('time left %r: the fallback generator waited %r' % (tl, waits))\nfor b in bad: print(b)\nsys.exit(1 if bad else 0)\n"

SPECS.append(FucSpec(
    'C09', 'circuits/core/helpers.py', 'FallBackGenerator._on_generate_events', fb_setup, fb_post, fields=FB_FIELDS,
    replay=lambda model, ob: FB_REPLAY if 'wait' in ob['name'] else None,
    calls={'self._continue.clear': s_clear, 'self._continue.wait': fb_wait_obligation, 'event.reduce_time_left': s_fb_reduce, 'event.stop': s_ev_stop},
    getattr_hooks={'time_left': lambda I, o: VReal(I.fz(o, '_time_left')), 'lock': lambda I, o: I.st.read_field(o.t, '_lock')},
    loops={0: LoopSpec(inv=[('true', fb_loop_inv)], havoc_fields=['_time_left'])}, cover=['return', 'wait'],
    clause='fallback generator: clears its wake-up flag before it can block; blocks only with a positive time left and for exactly '
           'that long (or in 10000 s slices while the time left is unlimited); never blocks when the time left is 0; always stops the event'))
SPECS.append(FucSpec(
    'C03', 'circuits/core/helpers.py', 'FallBackGenerator._on_generate_events', fb_setup, fb_post, fields=FB_FIELDS,
    calls={'self._continue.clear': s_clear, 'self._continue.wait': fb_wait_obligation, 'event.reduce_time_left': s_fb_reduce, 'event.stop': s_ev_stop},
    getattr_hooks={'time_left': lambda I, o: VReal(I.fz(o, '_time_left')), 'lock': lambda I, o: I.st.read_field(o.t, '_lock')},
    loops={0: LoopSpec(inv=[('true', fb_loop_inv)], havoc_fields=['_time_left'])}, cover=['return', 'wait'],
    clause='(sequential mechanism 4) clear-under-lock before wait; a time left of 0 (set by a foreign fire) means no wait'))


# ----------------------------------------------------------------------------- structural: priorities, resume bodies, timeout reads
def structural(res, opts):
    def deco(path, qual):
        mod = contract.ModInfo(path)
        node, _ = mod.find(qual)
        return [ast.unparse(d) for d in node.decorator_list], ast.unparse(node)
    d_timer, _ = deco('circuits/core/timers.py', 'Timer._on_generate_events')
    d_poll, src_poll = deco('circuits/core/pollers.py', 'BasePoller._on_generate_events')
    d_fb, _ = deco('circuits/core/helpers.py', 'FallBackGenerator._on_generate_events')
    add_ob(res, 'priority.timer_default_0', d_timer == ["handler('generate_events')"], 'ast', detail=str(d_timer))
    add_ob(res, 'priority.poller_minus_9', d_poll == ["handler('generate_events', priority=-9)"], 'ast', detail=str(d_poll))
    add_ob(res, 'priority.fallback_minus_100', d_fb == ["handler('generate_events', priority=-100)"], 'ast', detail=str(d_fb))
    add_ob(res, 'priority.timers_before_blockers', 0 > -9 > -100, 'ast',
           detail='with C02 (descending handler priority) every timer bounds time_left before a poller or the fallback generator blocks')
    # (the poller halves - kernel wait bounded by time_left, resume writes the control pipe, the event is stopped - are contracts now:
    #  contracts.pollers *._generate_events, contracts.pollers_wake)
    #  and contracts.fallback_wake: FallBackGenerator.resume)


SPECS.append(CustomCheck('C09', 'priorities(structural)', structural, file='circuits/core/*.py',
                         clause='decorator facts: Timer (0) > BasePoller (-9) > FallBackGenerator (-100)'))
SPECS.append(CustomCheck('C03', 'wakeup(structural)', structural, file='circuits/core/*.py',
                         clause='(sequential mechanism 4) handler priorities (the resume / kernel-wait halves are contracts)'))


# ----------------------------------------------------------------------------- C03.2: arming block of the dispatcher
def c03_entry(I):
    ev = I.local('event')
    self = I.local('self')
    isge = core.fn('isinst_generate_events', core.RefSort(), z3.BoolSort())(ev.t)
    red = log(I, 'REDUCE')
    I.oblige('current_event_recorded', I.fz(self, '_currently_handling') == ev.t)
    qlen = z3.Int('QUEUE_LENGTH')      # the length of the root queue at this moment (what len(self._queue) returns)
    I.assume(qlen >= 0)
    rem = I.local('remaining').t
    zero = [r for r, t in red if z3.is_true(z3.simplify(coerce(t, Real).t == 0))]
    busy = z3.Or(rem > 0, qlen > 0, z3.Not(I.fz(self, '_running')))
    cover(I, 'armed')
    I.oblige('no_idle_wait_when_work_is_queued', z3.Implies(z3.And(isge, busy), z3.BoolVal(len(zero) == 1)),
             detail='generate_events is armed with time_left = 0 if events remain in this pass, are queued, or the manager stops')
    I.oblige('only_generate_events_is_armed', z3.Implies(z3.Not(isge), z3.BoolVal(len(red) == 0)))


def c03_post(I, outcome, ctx):
    kind, v = outcome
    if kind == 'return':
        cover(I, 'return')


SPECS.append(disp_spec(
    'C03', 'Manager._dispatcher[arming]', c03_post, cover_=['return', 'armed'], loop_hooks={'entry': c03_entry},
    clause='(sequential mechanism 2) before handlers of a generate_events event run, _currently_handling is the event and its time '
           'left is 0 whenever remaining > 0, the queue is non-empty or the manager is not running'))


# ----------------------------------------------------------------------------- C03: guarded-by (lock scope) obligations
def _with_lock_blocks(fnode, lockname):
    out = []
    for n in ast.walk(fnode):
        if isinstance(n, ast.With) and any(lockname in ast.unparse(it.context_expr) for it in n.items):
            out.append(n)
    return out


def _mentions(nodes, text):
    return any(text in ast.unparse(n) for n in nodes)


def guarded_by(res, opts):
    """lock-scope obligations: the reads and writes the wake-up hand-shake must perform atomically are inside the critical sections.
    (Sequential contracts cannot see a statement moved out of a `with lock:` block; these structural obligations can.)"""
    mod = contract.ModInfo('circuits/core/manager.py')
    disp, _ = mod.find('Manager._dispatcher')
    blocks = _with_lock_blocks(disp, 'self._lock')
    add_ob(res, 'dispatcher.one_critical_section', len(blocks) == 1, 'ast', detail='%d `with self._lock:` blocks in _dispatcher' % len(blocks))
    if blocks:
        b = blocks[0]
        body = b.body
        add_ob(res, 'dispatcher.current_event_published_under_the_lock', _mentions(body, 'self._currently_handling = event'), 'ast',
               detail='_currently_handling = event is assigned inside the critical section')
        tests = [n.test for n in ast.walk(b) if isinstance(n, ast.If)]
        add_ob(res, 'dispatcher.queue_emptiness_read_under_the_lock', any('len(self._queue)' in ast.unparse(t) for t in tests), 'ast',
               detail='the test that decides whether the loop may sleep reads len(self._queue) inside the critical section (atomic with publishing the event)')
        add_ob(res, 'dispatcher.running_flag_read_under_the_lock', any('self._running' in ast.unparse(t) for t in tests), 'ast',
               detail='the same test reads self._running inside the critical section')
        # no read of the queue length between function entry and the critical section
        before = [s for s in disp.body if s.lineno < b.lineno and not (isinstance(s, ast.If) and b in list(ast.walk(s)))]
        stale = [ast.unparse(s)[:60] for s in before if 'len(self._queue)' in ast.unparse(s)]
        add_ob(res, 'dispatcher.no_stale_queue_length', not stale, 'ast', detail='queue length read before the critical section: %r' % stale)
    fire, _ = mod.find('Manager._fire')
    blocks = _with_lock_blocks(fire, 'self._lock')
    add_ob(res, 'fire.one_critical_section', len(blocks) == 1, 'ast', detail='%d `with self._lock:` blocks in _fire' % len(blocks))
    if blocks:
        body = blocks[0].body
        src = [ast.unparse(s) for s in body]
        # the local that receives self._currently_handling may have any name
        i_read = next((i for i, st in enumerate(body) if any(isinstance(n, ast.Attribute) and ast.unparse(n) == 'self._currently_handling'
                                                             and isinstance(n.ctx, ast.Load) for n in ast.walk(st))), -1)
        i_app = next((i for i, t in enumerate(src) if 'self._queue.append(' in t), -1)
        i_red = next((i for i, t in enumerate(src) if 'reduce_time_left(0)' in t), -1)
        add_ob(res, 'fire.read_append_wakeup_in_one_critical_section', min(i_read, i_app, i_red) >= 0, 'ast',
               detail='foreign thread: reading _currently_handling, appending the event and reduce_time_left(0) are in the same `with self._lock:`')
        add_ob(res, 'fire.append_before_wakeup', 0 <= i_app < i_red, 'ast', detail='the event is queued before the loop is woken')
    # the loop thread takes events off the shared deque WITHOUT the lock, so it may only use single atomic transfers (popleft): a
    # read-then-clear pair (extend/list/iteration + clear) would drop an event a foreign fire() appends in between
    de, _ = mod.find('_EventQueue.dispatchEvents')
    racy = []
    for n in ast.walk(de):
        if isinstance(n, ast.Call):
            t = ast.unparse(n)
            if t in ('self._queue.clear()',) or (isinstance(n.func, ast.Attribute) and n.func.attr in ('extend', 'update') and 'self._queue' in [ast.unparse(a) for a in n.args]) \
                    or (isinstance(n.func, ast.Name) and n.func.id in ('list', 'tuple', 'sorted') and 'self._queue' in [ast.unparse(a) for a in n.args]):
                racy.append(t[:60])
        if isinstance(n, (ast.For, ast.comprehension)) and ast.unparse(n.iter) == 'self._queue':
            racy.append('iteration over self._queue')
    add_ob(res, 'dispatchEvents.takes_events_off_the_shared_deque_one_atomic_popleft_at_a_time', not racy and 'self._queue.popleft()' in ast.unparse(de), 'ast',
           detail='non-atomic drains of the deque in dispatchEvents (no lock is held there): %r' % racy)
    hmod = contract.ModInfo('circuits/core/helpers.py')
    fb, _ = hmod.find('FallBackGenerator._on_generate_events')
    blocks = _with_lock_blocks(fb, 'event.lock')
    add_ob(res, 'fallback.one_critical_section', len(blocks) == 1, 'ast', detail='%d `with event.lock:` blocks' % len(blocks))
    if blocks:
        body = blocks[0].body
        add_ob(res, 'fallback.time_left_checked_and_flag_cleared_under_the_lock',
               _mentions(body, 'event.time_left == 0') and _mentions(body, 'self._continue.clear()'), 'ast',
               detail='time_left == 0 test and _continue.clear() are inside `with event.lock:` (a foreign fire either sees the handler or finds the flag cleared first)')
        waits_inside = [n for n in ast.walk(blocks[0]) if isinstance(n, ast.Call) and ast.unparse(n.func).endswith('.wait')]
        add_ob(res, 'fallback.never_waits_holding_the_lock', not waits_inside, 'ast', detail='no wait() inside the critical section')
    emod = contract.ModInfo('circuits/core/events.py')
    rt, _ = emod.find('generate_events.reduce_time_left')
    blocks = _with_lock_blocks(rt, 'self._lock')
    effective = [s for s in rt.body if not (isinstance(s, ast.Expr) and isinstance(s.value, ast.Constant)) and not isinstance(s, ast.Pass)]
    whole = len(blocks) == 1 and len(effective) == 1 and effective[0] is blocks[0]
    add_ob(res, 'reduce_time_left.entirely_under_the_lock', whole, 'ast', detail='the whole body of reduce_time_left is one `with self._lock:` block')


SPECS.append(CustomCheck('C03', 'guarded_by(structural)', guarded_by, file='circuits/core/manager.py',
                         clause='lock-scope obligations: publishing the handled event and testing queue emptiness are one critical section; '
                                'the foreign fire reads, appends and wakes inside one critical section, append first; the fallback generator '
                                'tests time_left and clears its flag under the lock and never waits holding it'))

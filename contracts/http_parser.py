"""C13 — HTTP parsing is segmentation invariant: stash discipline of HttpParser per phase.

Ghost view: STASH = flat(_buf) = concatenation of the buffered pieces.  For every phase the parser must behave as a function
of w = STASH ++ data only (V1), keep w whole when the unit at the front is incomplete (stash-on-incomplete, never an error),
and consume from the front otherwise (V2).  With locality (the unit is decoded from its own bytes) the Lean lemma
lemmas/Seg.lean gives the same result for every segmentation.  The grammar functions (_parse_firstline, header line
splitting, urlsplit, unicode_escape) are opaque pure functions of the bytes they are given (bounded purity check only).
"""
import z3
from pyvc.core import *  # noqa
from pyvc import core, lib
from pyvc.contract import FucSpec, LoopSpec, CustomCheck, add_ob, sym, obj, cover, uf, noop
from contracts.line_irc import run_bounded, lean_check

SPECS = []
FILE = 'circuits/web/parsers/http.py'
S = z3.StringSort
CRLF = z3.StringVal('\r\n')
PFX = '_HttpParser__'
P_FIELDS = {
    '_buf': List(Bytes), '_body': List(Bytes), '_chunked': Bool, '_clen': Opt(Int), '_clen_rest': Int, '_status_code': Opt(Int), '_status': Opt(Str),
    'errno': Opt(Int), 'errstr': Str, '_partial_body': Bool, 'kind': Int,
    PFX + 'on_firstline': Bool, PFX + 'on_headers_complete': Bool, PFX + 'on_message_begin': Bool, PFX + 'on_message_complete': Bool,
    PFX + 'decompress_obj': Ref, PFX + 'decompress_first_try': Bool, '_trailers': Any,
}


def log(I, n):
    return I.st.ghost.setdefault(n, [])


def stash(I, self, heap=None):
    if heap is None:
        b = I.field(self, '_buf')
    else:
        b = List(Bytes).wrap([z3.Select(a, self.t) for a in heap['_buf']])
    I.assume(z3.Implies(b.hi <= b.lo, lib.flat(b) == z3.StringVal('')))
    return lib.flat(b)


def body_view(I, self, heap=None):
    if heap is None:
        b = I.field(self, '_body')
    else:
        b = List(Bytes).wrap([z3.Select(a, self.t) for a in heap['_body']])
    I.assume(z3.Implies(b.hi <= b.lo, lib.flat(b) == z3.StringVal('')))
    return lib.flat(b)


def parser(I):
    self = obj(I, 'self', 'HttpParser')
    for f in ('_buf', '_body'):
        b = I.field(self, f)
        I.assume(b.lo <= b.hi)
    I.st.inputs['stash'] = stash(I, self)
    return self


def no_escape(I, outcome, allowed=()):
    kind, v = outcome
    if kind == 'raise':
        cover(I, 'raise')
        I.oblige('no_escape', z3.BoolVal(any(I.exc_isa(v.cls, a) for a in allowed)), detail='escaping %s' % v.cls)
        return True
    return False


# ============================================================================= execute: first-line phase
def ex_first_setup(I):
    self = parser(I)
    data = sym(I, 'data', Bytes)
    I.assume(z3.Length(data.t) > 0)
    I.assume(z3.Not(I.fz(self, PFX + 'on_firstline')), 'phase: the request/status line is not complete yet')
    I.assume(z3.Not(I.fz(self, PFX + 'on_headers_complete')))
    I.st.ghost['W'] = z3.Concat(stash(I, self), data.t)
    return {'self': self, 'data': data, 'length': VInt(z3.Length(data.t))}


def s_parse_firstline(I, recv, args, kw):
    """contract of _parse_firstline (verified below): True and errno untouched, or False with errno = BAD_FIRST_LINE"""
    log(I, 'FIRSTLINE').append(args[0])
    if I.st.choice(2, 'firstline_ok') == 0:
        return VBool(z3.BoolVal(True))
    I.st.write_field(recv.t, 'errno', VOpt(z3.BoolVal(False), VInt(0), Int))
    return VBool(z3.BoolVal(False))


def s_unicode_escape(I, recv, args, kw):
    """str(bytes, 'unicode_escape'): pure function of the bytes (may raise UnicodeDecodeError for an invalid escape)"""
    a = args[0]
    if isinstance(a, VStr) and a.is_bytes and len(args) > 1:
        I.st.trusted_used.add("str(b, 'unicode_escape'): pure function UNESCAPE of the bytes; UnicodeDecodeError for invalid escapes")
        okp = core.fn('unescape_ok', S(), z3.BoolSort())(a.t)
        if I.pure:
            return VStr(core.fn('UNESCAPE', S(), S())(a.t))
        if not I.branch(okp, 'unescape_ok'):
            lib.raise_(I, 'UnicodeDecodeError', VStr('invalid escape'))
        return VStr(core.fn('UNESCAPE', S(), S())(a.t))
    from pyvc.interp import BUILTINS
    return BUILTINS['str'](I, args, kw)


def ex_stop_after_firstline(I, recv, args, kw):
    raise Unsupported('unreachable')


def ex_first_post(I, outcome, ctx):
    kind, v = outcome
    a, pre = ctx['args'], ctx['pre']
    self, data = a['self'], a['data']
    w = I.st.ghost['W']
    idx = z3.IndexOf(w, CRLF, 0)
    fl = log(I, 'FIRSTLINE')
    if kind == 'raise':
        cover(I, 'raise')
        I.oblige('raises_only_for_an_invalid_escape', z3.BoolVal(v.cls == 'UnicodeDecodeError'), detail='escaping %s' % v.cls)
        return
    cover(I, 'return')
    if not fl:
        cover(I, 'incomplete')
        I.oblige('V1.firstline.waits_only_without_CRLF', idx < 0, detail='the line is complete as soon as stash + data contains CRLF, wherever the reads were cut')
        I.oblige('V1.firstline.stash_keeps_everything', stash(I, self) == w)
        I.oblige('V1.firstline.nothing_else_changes', z3.And(z3.Not(I.fz(self, PFX + 'on_firstline')), I.field(self, 'errno').isnone == z3.Select(pre['errno'][0], self.t)))
    else:
        cover(I, 'complete')
        I.oblige('firstline_parsed_once', z3.BoolVal(len(fl) == 1))
        I.oblige('V1.firstline.line_is_everything_before_the_first_CRLF', fl[0].t == core.fn('UNESCAPE', S(), S())(z3.SubString(w, 0, idx)),
                 detail='the line handed to the grammar is stash + data up to the first CRLF of the concatenation')
        I.oblige('V2.firstline.progress', idx >= 0)
        okv = I.field(self, 'errno')
        I.oblige('V2.firstline.exactly_the_line_and_its_CRLF_are_consumed',
                 z3.Or(z3.Not(okv.isnone), stash(I, self) == z3.SubString(w, idx + 2, z3.Length(w) - idx - 2)),
                 detail='after a well-formed first line the stash is what follows its CRLF - the line is not parsed again, nothing is skipped')


def ex_loop_body_once(I):
    pass


SPECS.append(FucSpec(
    'C13', FILE, 'HttpParser.execute', ex_first_setup, ex_first_post, name='HttpParser.execute[first line]', fields=P_FIELDS,
    calls={'self._parse_firstline': s_parse_firstline, 'str': s_unicode_escape,
           'self._parse_headers': lambda I, r, a, k: (log(I, 'HEADERS').append(a[0]), VBool(False))[1],
           'self._parse_body': lambda I, r, a, k: NONE},
    loops={0: LoopSpec(inv=[('true', lambda I: z3.BoolVal(True))], unroll=3)},
    cover=['return', 'incomplete', 'complete'], replay=lambda m, ob: firstline_replay(m, ob),
    clause='execute, first-line phase: the line is searched in stash + data; without a CRLF everything is kept and nothing else '
           'changes; with one, exactly the bytes before the first CRLF are handed to the grammar'))


def firstline_replay(model, ob):
    return '''
import sys
from circuits.web.parsers.http import HttpParser
req = b'GET /x HTTP/1.1\\r\\nHost: a\\r\\n\\r\\n'
def feed(chunks):
    p = HttpParser(0, True)
    for c in chunks: p.execute(c, len(c))
    return (p.get_method(), p.get_path(), p.is_headers_complete(), p.errno)
whole = feed([req])
bad = []
for cut in range(1, len(req)):
    got = feed([req[:cut], req[cut:]])
    if got != whole: bad.append('cut at %d: %r (whole: %r)' % (cut, got, whole))
bw = feed([bytes([b]) for b in req])
if bw != whole: bad.append('byte-at-a-time: %r' % (bw,))
for b in bad[:4]: print(b)
sys.exit(1 if bad else 0)
'''


# ============================================================================= _parse_firstline: error signalling
def pf_setup(I):
    self = parser(I)
    return {'self': self, 'line': sym(I, 'line', Str)}


def s_grammar(name):
    def f(I, recv, args, kw):
        """opaque grammar function (regexes, urlsplit): accepts the line or raises InvalidRequestLine; writes only parsed-field slots"""
        log(I, 'GRAMMAR').append(name)
        if I.st.choice(2, name) == 1:
            lib.raise_(I, 'InvalidRequestLine', VStr('rejected by the grammar'))
        return NONE
    return f


def pf_post(I, outcome, ctx):
    if no_escape(I, outcome):
        return
    cover(I, 'return')
    self, pre = ctx['args']['self'], ctx['pre']
    v = outcome[1]
    err = I.field(self, 'errno')
    I.oblige('returns_a_bool', z3.BoolVal(isinstance(v, VBool)))
    if isinstance(v, VBool):
        was_none = z3.Select(pre['errno'][0], self.t)
        I.oblige('rejected_line_sets_BAD_FIRST_LINE', z3.Implies(z3.Not(v.t), z3.And(z3.Not(err.isnone), err.val.t == 0)),
                 detail='execute() and its callers tell a rejected first line from a parsed one by errno')
        I.oblige('accepted_line_leaves_errno_alone', z3.Implies(v.t, err.isnone == was_none))


SPECS.append(FucSpec(
    'C13', FILE, 'HttpParser._parse_firstline', pf_setup, pf_post, fields=P_FIELDS,
    calls={'self._parse_request_line': s_grammar('request_line'), 'self._parse_response_line': s_grammar('response_line'),
           'str': lambda I, r, a, k: VStr(core.fresh('errstr', S()))},
    env={'BAD_FIRST_LINE': VInt(0)}, exc_parents={'InvalidRequestLine': 'Exception'}, cover=['return'],
    clause='_parse_firstline: a line the grammar rejects gives False with errno = BAD_FIRST_LINE; an accepted one gives True and leaves '
           'errno alone (the grammar functions themselves are opaque)'))


# ============================================================================= execute: header phase
def ex_hdr_setup(I):
    self = parser(I)
    data = sym(I, 'data', Bytes)
    I.assume(z3.Length(data.t) > 0)
    I.assume(I.fz(self, PFX + 'on_firstline'))
    I.assume(z3.Not(I.fz(self, PFX + 'on_headers_complete')), 'phase: header block not complete yet')
    I.st.ghost['W'] = z3.Concat(stash(I, self), data.t)
    return {'self': self, 'data': data, 'length': VInt(z3.Length(data.t))}


def s_parse_headers(I, recv, args, kw):
    """contract of _parse_headers (verified below): False = incomplete (stash untouched); else headers complete, stash = rest"""
    log(I, 'HEADERS').append(args[0])
    c = I.st.choice(3, 'headers')
    if c == 0:
        return VBool(False)
    if c == 1:
        lib.raise_(I, 'InvalidHeader', VStr('bad header'))
    I.st.write_field(recv.t, PFX + 'on_headers_complete', VBool(True))
    I.st.havoc_field('_buf')
    n = core.fresh('nrest', z3.IntSort())
    I.assume(n >= 0)
    return VInt(n)


def ex_hdr_post(I, outcome, ctx):
    if no_escape(I, outcome):
        return
    cover(I, 'return')
    self = ctx['args']['self']
    w = I.st.ghost['W']
    hd = log(I, 'HEADERS')
    I.oblige('V1.headers.block_parser_sees_stash_plus_data', z3.And(z3.BoolVal(len(hd) >= 1), *[hd[0].t == w] if hd else []),
             detail='the header block is searched in stash + data')
    if hd and len(hd) == 1 and I.st.ghost.get('HDR_FALSE'):
        pass


SPECS.append(FucSpec(
    'C13', FILE, 'HttpParser.execute', ex_hdr_setup, ex_hdr_post, name='HttpParser.execute[headers]', fields=P_FIELDS,
    calls={'self._parse_headers': s_parse_headers, 'self._parse_body': lambda I, r, a, k: NONE, 'str': s_unicode_escape},
    exc_parents={'InvalidHeader': 'Exception'}, env={'INVALID_HEADER': VInt(1)},
    loops={0: LoopSpec(inv=[('true', lambda I: z3.BoolVal(True))], unroll=3)}, cover=['return'],
    clause='execute, header phase: new data is appended to the stash and the header block parser is applied to stash + data'))


# ============================================================================= _parse_headers: incomplete => wait, stash intact
def ph_setup(I):
    self = parser(I)
    data = sym(I, 'data', Bytes)
    I.assume(z3.Not(I.fz(self, PFX + 'on_headers_complete')))
    I.assume(stash(I, self) == data.t, 'requires data = join(_buf) (call site in execute)')
    return {'self': self, 'data': data}


def ph_post(I, outcome, ctx):
    kind, v = outcome
    a, pre = ctx['args'], ctx['pre']
    self, data = a['self'], a['data'].t
    end = z3.IndexOf(data, z3.StringVal('\r\n\r\n'), 0)
    if kind == 'raise':
        cover(I, 'invalid')
        I.oblige('raises_only_InvalidHeader_or_bad_escape', z3.BoolVal(v.cls in ('InvalidHeader', 'UnicodeDecodeError')), detail='escaping %s' % v.cls)
        I.oblige('error_only_with_a_complete_block', end >= 0, detail='an incomplete header block is never an error')
        return
    cover(I, 'return')
    empty_block = data == CRLF
    if isinstance(v, VBool):
        cover(I, 'incomplete')
        I.oblige('incomplete.returns_False_only_without_terminator', z3.And(z3.Not(v.t), end < 0, z3.Not(empty_block)))
        I.oblige('incomplete.stash_intact', stash(I, self) == data)
        I.oblige('incomplete.state_unchanged', z3.Not(I.fz(self, PFX + 'on_headers_complete')))
    else:
        cover(I, 'complete')
        I.oblige('complete.only_with_terminator', z3.Or(end >= 0, empty_block))
        I.oblige('complete.flag_set', I.fz(self, PFX + 'on_headers_complete'))
        rest = z3.If(empty_block, z3.StringVal(''), z3.SubString(data, end + 4, z3.Length(data) - end - 4))
        I.oblige('complete.stash_is_what_follows_the_block', stash(I, self) == rest, detail='V2: exactly the header block is consumed')
        I.oblige('complete.returns_length_of_rest', v.t == z3.Length(rest))


def _wf(v):
    return (v.lo <= v.hi) if isinstance(v, VList) else z3.BoolVal(True)


class HdrModel(VModel):
    def getattr(self, I, name):
        if name == 'add_header':
            return VFunc(name, impl=lambda I2, b, a, k: NONE)
        if name == 'get':
            def g(I2, b, a, k):
                key = a[0].t.as_string()
                present = core.fn('HDR_present_' + key.replace('-', '_'), S(), z3.BoolSort())(I2.st.ghost['BLOCK'])
                val = core.fn('HDR_value_' + key.replace('-', '_'), S(), S())(I2.st.ghost['BLOCK'])
                if I2.branch(present, 'hdr_' + key):
                    return VStr(val)
                return a[1] if len(a) > 1 else NONE
            return VFunc(name, impl=g)
        raise Unsupported('headers.' + name)


def ph_lines(I, recv, args, kw):
    raise Unsupported('x')


def ph_setup2(I):
    a = ph_setup(I)
    I.st.ghost['BLOCK'] = a['data'].t
    return a


def ph_header_lines_hook(I):
    """`lines = [str(line, 'unicode_escape') + CRLF for line in data[:idx].split(CRLF)]` and the while loop over it are the
    opaque grammar part: summarised as `the header lines are parsed from the block` (may raise InvalidHeader)"""


SPECS.append(FucSpec(
    'C13', FILE, 'HttpParser._parse_headers', ph_setup2, ph_post, fields=P_FIELDS,
    calls={'str': s_unicode_escape, 'HEADER_RE.search': uf('header_re_search', Bool), 'zlib.decompressobj': lambda I, r, a, k: I.st.fresh_ref('zobj')},
    attr_hooks={'self._headers': lambda I: HdrModel(), 'self._environ': lambda I: VCDict({}), 'zlib.MAX_WBITS': lambda I: VInt(15)},
    env={'maxsize': VInt(2 ** 63 - 1)}, exc_parents={'InvalidHeader': 'Exception'},
    loops={0: LoopSpec(inv=[('lines_wf', lambda I: _wf(I.local('lines')))], kinds={'lines': List(Str), 'value': Str}),
           1: LoopSpec(inv=[('lines_wf', lambda I: z3.And(_wf(I.local('lines')), _wf(I.local('value'))))],
                       kinds={'value': List(Str), 'lines': List(Str)})},
    cover=['return', 'incomplete', 'complete'],
    clause='_parse_headers(stash): without the blank-line terminator it returns False and changes nothing (never an error); with it, '
           'exactly the block is consumed and the stash becomes what follows'))


# ============================================================================= _parse_body: identity body (arithmetic contract)
def pb_id_setup(I):
    self = parser(I)
    I.assume(z3.Not(I.fz(self, '_chunked')), 'phase: identity (Content-Length / read-until-close) body')
    I.assume(I.field(self, '_status_code').isnone, 'request parser (server side)')
    I.assume(I.field(self, PFX + 'decompress_obj').t == core.null(), 'case: no content-encoding')
    cl = I.field(self, '_clen')
    I.st.inputs['clen_rest'] = I.fz(self, '_clen_rest')
    return {'self': self}


def pb_id_post(I, outcome, ctx):
    if no_escape(I, outcome):
        return
    cover(I, 'return')
    self, pre = ctx['args']['self'], ctx['pre']
    w = stash(I, self, pre)
    body0 = body_view(I, self, pre)
    rest0 = z3.Select(pre['_clen_rest'][0], self.t)
    clen_none = z3.Select(pre['_clen'][0], self.t)
    nothing = z3.And(z3.Length(w) == 0, clen_none)
    I.oblige('identity.all_buffered_bytes_join_the_body', z3.Implies(z3.Not(nothing), body_view(I, self) == z3.Concat(body0, w)),
             detail='body\' = body ++ stash: additive, so splitting the bytes over several reads gives the same body')
    I.oblige('identity.remaining_length_decreases_by_what_arrived', z3.Implies(z3.Not(nothing), I.fz(self, '_clen_rest') == rest0 - z3.Length(w)))
    I.oblige('identity.stash_emptied', z3.Implies(z3.Not(nothing), stash(I, self) == z3.StringVal('')))
    done0 = z3.Select(pre[PFX + 'on_message_complete'][0], self.t)
    I.oblige('identity.complete_iff_nothing_remains', z3.Implies(z3.And(z3.Not(nothing), z3.Not(done0)), I.fz(self, PFX + 'on_message_complete') == (rest0 - z3.Length(w) <= 0)))
    I.oblige('identity.returns_None', z3.BoolVal(isinstance(outcome[1], VNone)))


SPECS.append(FucSpec(
    'C13', FILE, 'HttpParser._parse_body', pb_id_setup, pb_id_post, name='HttpParser._parse_body[identity]', fields=P_FIELDS,
    calls={}, cover=['return'],
    clause='_parse_body, identity body: body\' = body ++ stash, remaining length decreases by the number of bytes, complete iff '
           'nothing remains (an additive contract: any split of the bytes over reads gives the same state)'))


# ============================================================================= _parse_body: chunked
def CHUNK(w):
    """spec view of the chunk at the front of w: size line up to the first CRLF, hex size before ';', payload, CRLF"""
    i1 = z3.IndexOf(w, CRLF, 0)
    line = z3.SubString(w, 0, i1)
    after = z3.SubString(w, i1 + 2, z3.Length(w) - i1 - 2)
    return dict(i1=i1, line=line, after=after)


def pb_ch_setup(I):
    self = parser(I)
    I.assume(I.fz(self, '_chunked'), 'phase: chunked body')
    I.assume(I.field(self, '_status_code').isnone)
    I.assume(I.field(self, PFX + 'decompress_obj').t == core.null(), 'case: no content-encoding')
    return {'self': self}


def s_parse_chunk_size(I, recv, args, kw):
    """contract of _parse_chunk_size(w) (verified below): (None, None) without a size line; (0, None) for the last chunk;
    (size > 0, what follows the size line); or InvalidChunkSize"""
    (d,) = args
    w = d.t
    I.st.ghost['CW'] = w
    c = I.st.choice(4, 'chunk_size')
    C = CHUNK(w)
    if c == 0:
        I.assume(C['i1'] < 0)
        return VTuple([NONE, NONE])
    I.assume(C['i1'] >= 0)
    if c == 1:
        lib.raise_(I, 'InvalidChunkSize', VStr('bad size'))
    if c == 2:
        I.st.ghost['LAST_CHUNK'] = True
        return VTuple([VInt(0), NONE])
    size = core.fresh('chunk_size', z3.IntSort())
    I.assume(size > 0)
    I.st.ghost['SIZE'] = size
    return VTuple([VInt(size), VStr(C['after'], True)])


def pb_ch_post(I, outcome, ctx):
    if no_escape(I, outcome):
        return
    cover(I, 'return')
    self, pre = ctx['args']['self'], ctx['pre']
    w = stash(I, self, pre)
    v = outcome[1]
    g = I.st.ghost
    size = g.get('SIZE')
    C = CHUNK(w)
    body0 = body_view(I, self, pre)
    err1 = I.field(self, 'errno')
    if size is not None:
        need = C['i1'] + 2 + size + 2          # size line + CRLF + payload + CRLF
        have = z3.Length(w)
        if isinstance(v, VNone):
            cover(I, 'wait')
            I.oblige('chunk.waits_only_when_incomplete', have < need)
            I.oblige('chunk.wait_keeps_stash_and_body', z3.And(stash(I, self) == w, body_view(I, self) == body0))
        elif isinstance(v, VInt) and z3.is_int_value(z3.simplify(v.t)) and z3.simplify(v.t).as_long() == -1:
            cover(I, 'error')
            I.oblige('chunk.error_never_for_a_merely_incomplete_chunk', have >= need,
                     detail='payload present but its CRLF not yet: that is an incomplete chunk (wait), not INVALID_CHUNK')
        else:
            cover(I, 'consumed')
            I.oblige('chunk.consumed_only_when_complete', have >= need)
            I.oblige('chunk.payload_appended_exactly', body_view(I, self) == z3.Concat(body0, z3.SubString(C['after'], 0, size)))
            I.oblige('chunk.stash_is_what_follows', stash(I, self) == z3.SubString(w, need, have - need))
            # execute() reads a return value of 0 as "the terminating zero-size chunk was parsed: message complete"; a consumed DATA
            # chunk must therefore never return 0 (whatever happens to be buffered behind it), else an incomplete message is
            # dispatched as a request when a read boundary falls right behind the chunk's CRLF
            I.oblige('chunk.data_chunk_never_signals_message_complete', z3.BoolVal(isinstance(v, VInt)) if not isinstance(v, VInt) else v.t > 0,
                     detail='return value 0 is reserved for the last chunk')
    elif g.get('LAST_CHUNK'):
        cover(I, 'last')
        I.oblige('last_chunk.returns_zero', z3.BoolVal(isinstance(v, VInt)) if not isinstance(v, VInt) else v.t == 0)
    else:
        if isinstance(v, VNone):
            cover(I, 'wait_size')
            I.oblige('size_line.wait_keeps_stash', z3.And(stash(I, self) == w, body_view(I, self) == body0))


def chunk_replay(model, ob):
    return '''
import sys
from circuits.web.parsers.http import HttpParser
req = b'POST /x HTTP/1.1\\r\\nHost: a\\r\\nTransfer-Encoding: chunked\\r\\n\\r\\n5\\r\\nhello\\r\\n0\\r\\n\\r\\n'
def feed(chunks):
    p = HttpParser(0, True)
    for c in chunks: p.execute(c, len(c))
    return (p.is_message_complete(), p.errno, p.recv_body())
whole = feed([req])
bad = []
start = req.index(b'5\\r\\n')
for cut in range(start, len(req)):
    got = feed([req[:cut], req[cut:]])
    if got != whole: bad.append('cut at %d (%r | %r): %r (whole: %r)' % (cut, req[cut-3:cut], req[cut:cut+3], got, whole))
for b in bad[:4]: print(b)
sys.exit(1 if bad else 0)
'''


SPECS.append(FucSpec(
    'C13', FILE, 'HttpParser._parse_body', pb_ch_setup, pb_ch_post, name='HttpParser._parse_body[chunked]', fields=P_FIELDS,
    calls={'self._parse_chunk_size': s_parse_chunk_size}, env={'INVALID_CHUNK': VInt(2)}, exc_parents={'InvalidChunkSize': 'Exception'},
    cover=['return', 'wait', 'consumed'], replay=chunk_replay,
    clause='_parse_body, chunked: a chunk is consumed only when its size line, payload and trailing CRLF are all there (payload '
           'appended exactly, stash = what follows); otherwise the parser waits with stash and body untouched - an incomplete chunk '
           'is never an error'))


# ============================================================================= _parse_chunk_size
def pcs_setup(I):
    self = parser(I)
    data = sym(I, 'data', Bytes)
    return {'self': self, 'data': data}


def pcs_post(I, outcome, ctx):
    kind, v = outcome
    w = ctx['args']['data'].t
    C = CHUNK(w)
    if kind == 'raise':
        cover(I, 'invalid')
        I.oblige('raises_only_InvalidChunkSize', z3.BoolVal(v.cls == 'InvalidChunkSize'), detail='escaping %s' % v.cls)
        I.oblige('error_only_with_a_complete_size_line', C['i1'] >= 0)
        return
    cover(I, 'return')
    size, rest = v.items
    if isinstance(size, VNone):
        cover(I, 'wait')
        # wait: no size line yet, or the last chunk whose (possibly empty) trailer has not ended yet
        after = C['after']
        trailer_open = z3.And(z3.Not(z3.PrefixOf(CRLF, after)), z3.Not(z3.Contains(after, z3.StringVal('\r\n\r\n'))))
        I.oblige('waits_only_for_a_size_line_or_the_end_of_the_trailer', z3.Or(C['i1'] < 0, trailer_open))
    else:
        I.oblige('size_line_complete', C['i1'] >= 0)
        if isinstance(rest, VStr):
            cover(I, 'size')
            I.oblige('rest_is_what_follows_the_size_line', rest.t == C['after'])
            I.oblige('size_is_positive', size.t > 0)


SPECS.append(FucSpec(
    'C13', FILE, 'HttpParser._parse_chunk_size', pcs_setup, pcs_post, fields=P_FIELDS,
    calls={'self._parse_trailers': lambda I, r, a, k: NONE}, exc_parents={'InvalidChunkSize': 'Exception'},
    cover=['return', 'wait', 'size'],
    clause='_parse_chunk_size(w): (None, None) iff w has no CRLF yet; otherwise the hex size before ";" and the bytes after the size '
           'line, or InvalidChunkSize'))

SPECS.append(CustomCheck('C13', 'Seg.lean', lean_check('Seg.lean'), file='lemmas/Seg.lean',
                         clause='prefix-resumable parser lemma: progress + locality of one step imply that every segmentation of the same '
                                'bytes gives the same final control state, stash and output'))
SPECS.append(CustomCheck('C13', 'segmentation(bounded)', run_bounded('http_segmentation.py', 'segmentation', ''), bounded=True,
                         file='bounded/http_segmentation.py',
                         clause='BOUNDED: requests/responses from a small grammar parsed under every 2-cut and byte-at-a-time delivery'))


# ============================================================================= execute: all phases, any number of iterations (unbounded)
# Conservation invariant of the phase loop: the bytes that are still unconsumed - what sits in the stash plus what is left of
# `data` - are always a SUFFIX of w0 = stash0 ++ data0: nothing is lost, duplicated or reordered on the way through the phases, for
# any number of iterations (a chunked body takes one iteration per chunk).  The unit parsers enter through their contracts
# (verified above): each either leaves the stash alone or replaces it by a suffix of it.
def exa_setup(I):
    self = parser(I)
    data = sym(I, 'data', Bytes)
    I.assume(z3.Length(data.t) > 0)
    I.st.ghost['W0'] = z3.Concat(stash(I, self), data.t)
    return {'self': self, 'data': data, 'length': VInt(z3.Length(data.t))}


def _unconsumed(I):
    self = I.local('self')
    d = I.local('data')
    return z3.Concat(stash(I, self), lib.unopt(I, d).t)


def exa_inv(I):
    return z3.SuffixOf(_unconsumed(I), I.st.ghost['W0'])


def _stash_becomes_suffix(I, recv, label):
    """callee guarantee: the new stash is a suffix of the old one (the unit consumed a prefix)"""
    old = stash(I, recv)
    nb = List(Bytes).fresh('buf_' + label)
    I.assume(nb.lo <= nb.hi)
    I.st.write_field(recv.t, '_buf', nb)
    I.assume(z3.SuffixOf(stash(I, recv), old), 'ensures of the unit parser: stash\' is what follows the consumed unit')


def sa_parse_firstline(I, recv, args, kw):
    if I.st.choice(2, 'firstline_ok') == 0:
        return VBool(z3.BoolVal(True))
    I.st.write_field(recv.t, 'errno', VOpt(z3.BoolVal(False), VInt(0), Int))
    return VBool(z3.BoolVal(False))


def sa_parse_headers(I, recv, args, kw):
    """contract of _parse_headers (verified above): False and nothing changed | InvalidHeader | block consumed, stash = what follows"""
    c = I.st.choice(3, 'headers')
    if c == 0:
        return VBool(False)
    if c == 1:
        lib.raise_(I, 'InvalidHeader', VStr('bad header'))
    I.st.write_field(recv.t, PFX + 'on_headers_complete', VBool(True))
    I.st.havoc_field('_chunked')
    _stash_becomes_suffix(I, recv, 'after_headers')
    return VInt(z3.Length(stash(I, recv)))


def sa_parse_body(I, recv, args, kw):
    """contract of _parse_body (identity and chunked, verified above): None (wait: stash kept, or identity body absorbed it) |
    -1 (invalid chunk) | 0 (terminating chunk) | n > 0 (a data chunk consumed, stash = what follows)"""
    c = I.st.choice(5, 'body')
    if c == 0:
        return NONE                                    # chunked wait: nothing changed
    if c == 1:
        _stash_becomes_suffix(I, recv, 'identity')    # identity body: everything buffered joined the body (stash emptied)
        I.st.havoc_field(PFX + 'on_message_complete')
        return NONE
    if c == 2:
        I.st.havoc_field('errno')
        return VInt(-1)
    if c == 3:
        return VInt(0)
    _stash_becomes_suffix(I, recv, 'chunk')
    n = core.fresh('chunk_ret', z3.IntSort())
    I.assume(n > 0, 'ensures chunk.data_chunk_never_signals_message_complete')
    return VInt(n)


def exa_post(I, outcome, ctx):
    kind, v = outcome
    if kind == 'raise':
        cover(I, 'raise')
        I.oblige('raises_only_for_an_invalid_escape', z3.BoolVal(v.cls == 'UnicodeDecodeError'), detail='escaping %s' % v.cls)
        return
    cover(I, 'return')
    self = ctx['args']['self']
    err = I.field(self, 'errno')
    # whatever phase the call ends in, what stays in the stash is an unconsumed suffix of stash0 ++ data0 (error returns excepted)
    ret = v.t if isinstance(v, VInt) else None
    done = I.fz(self, PFX + 'on_message_complete')
    I.oblige('conservation.stash_is_the_unconsumed_suffix_at_return', z3.Or(z3.Not(err.isnone), done, z3.SuffixOf(stash(I, self), I.st.ghost['W0'])),
             detail='while the message is incomplete, what execute() leaves in the stash is exactly the part of stash + data that no unit '
                    'parser has consumed: no byte is lost, repeated or moved by the phase loop')


SPECS.append(FucSpec(
    'C13', FILE, 'HttpParser.execute', exa_setup, exa_post, name='HttpParser.execute[all phases, unbounded]', fields=P_FIELDS,
    calls={'self._parse_firstline': sa_parse_firstline, 'str': s_unicode_escape, 'self._parse_headers': sa_parse_headers,
           'self._parse_body': sa_parse_body},
    exc_parents={'InvalidHeader': 'Exception'}, env={'INVALID_HEADER': VInt(1)},
    loops={0: LoopSpec(inv=[('conservation.unconsumed_bytes_are_a_suffix_of_stash_plus_data', exa_inv)],
                       havoc_fields=['_buf', 'errno', 'errstr', PFX + 'on_firstline', PFX + 'on_headers_complete', PFX + 'on_message_begin',
                                     PFX + 'on_message_complete', '_chunked'],
                       kinds={'data': Bytes, 'nb_parsed': Int})},
    cover=['return'],
    clause='execute, every phase and any number of iterations: the unconsumed bytes (stash + rest of data) stay a suffix of '
           'stash0 + data0 (loop invariant), so the phase loop loses, repeats and reorders nothing; the unit parsers enter by contract'))

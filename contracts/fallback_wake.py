"""C03 / C09 - FallBackGenerator.resume under contract (until round 5 a textual check of the source): EVERY call sets the flag the idle
wait sleeps on, unconditionally - the counterpart of BasePoller.resume (contracts.pollers_wake) for the built-in idle sleep."""
import z3
from pyvc.core import *  # noqa
from pyvc import core
from pyvc.contract import FucSpec, obj, cover

SPECS = []
FILE = 'circuits/core/helpers.py'


def log(I, n):
    return I.st.ghost.setdefault(n, [])


def fr_setup(I):
    self = obj(I, 'self', 'FallBackGenerator')
    c = I.field(self, '_continue')
    I.assume(z3.And(c.t != core.null(), c.t != self.t), 'rep invariant: the flag exists (__init__)')
    return {'self': self}


def fr_post(I, outcome, ctx):
    kind, v = outcome
    if kind == 'raise':
        I.oblige('no_escape', z3.BoolVal(False), detail='escaping %s' % v.cls)
        return
    cover(I, 'return')
    self = ctx['args']['self']
    sets = log(I, 'SET')
    I.oblige('every_resume_sets_the_flag_the_idle_wait_sleeps_on', z3.BoolVal(len(sets) >= 1),
             detail='resume() returned without setting _continue: a fire() from another thread that lands after the loop cleared the flag '
                    'is not noticed until the idle wait times out (for ever when nothing is pending)')
    for r in sets:
        I.oblige('the_flag_set_is_the_one_waited_on', r.t == I.field(self, '_continue').t)


FR_REPLAY = '''
import sys
from circuits.core.helpers import FallBackGenerator
bad = []
fb = FallBackGenerator()
for i in range(3):
    fb._continue.clear()
    fb.resume()
    if not fb._continue.is_set():
        bad.append('resume() #%d did not set the flag the idle wait sleeps on' % i)
for b in bad: print(b)
sys.exit(1 if bad else 0)
'''

for prop in ('C03', 'C09'):
    SPECS.append(FucSpec(
        prop, FILE, 'FallBackGenerator.resume', fr_setup, fr_post, fields={'_continue': Ref},
        calls={'self._continue.set': lambda I, r, a, k: (log(I, 'SET').append(r), NONE)[1]},
        opts={'auto_attrs': True}, cover=['return'], replay=lambda model, ob: FR_REPLAY,
        clause='FallBackGenerator.resume(): every call sets the flag the idle wait sleeps on, unconditionally'))

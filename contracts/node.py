"""C19 — node protocol: packets survive segmentation, firewalls are respected, peers cannot harm the loop.

Functions under contract: Protocol.add_buffer, Protocol.__process_packet, Protocol.__process_packet_call, Protocol.send
(segment before the first yield), the META_EXCLUDE set (structural obligation computed from the real ASTs), plus bounded
stand-ins (labelled) for the JSON round trip and the hostile-packet grammar.  Not decided: the two-party "executed once, result
returns" protocol.
"""
import ast
import json
import os
import subprocess
import z3
from pyvc.core import *  # noqa
from pyvc import core, lib, contract
from pyvc.contract import FucSpec, LoopSpec, CustomCheck, add_ob, sym, obj, cover, uf, noop
from contracts.line_irc import run_bounded

SPECS = []
FILE = 'circuits/node/protocol.py'
S = z3.StringSort
DELIM = z3.StringVal('~~~')
N_FIELDS = {'_Protocol__buffer': Bytes, '_Protocol__nid': Int, '_Protocol__events': Dict(Int, Ref), '_Protocol__server': Ref,
            '_Protocol__sock': Ref, '_Protocol__receive_event_firewall': Ref, '_Protocol__send_event_firewall': Ref,
            'success': Bool, 'failure': Bool, 'complete': Bool, 'success_channels': Any, 'node_call_id': Any, 'node_sock': Ref, 'node_without_result': Dyn(Bool),
            'remote_finish': Dyn(Bool), 'value': Ref}


def log(I, n):
    return I.st.ghost.setdefault(n, [])


# what load_event / load_value may raise for a hostile packet (verified on their bodies for every JSON value)
DECLARED_RAISES = ('TypeError', 'ValueError', 'KeyError', 'AttributeError', 'RecursionError', 'JSONDecodeError')
JSON_EXC = {'JSONDecodeError': 'ValueError'}


def escape_post(I, v):
    """An exception leaving the read handler is absorbed by the dispatcher (contract C04/handler_exception_is_absorbed) iff it is
    an Exception subclass; KeyboardInterrupt / SystemExit / GeneratorExit would stop the loop."""
    cover(I, 'raise')
    I.oblige('only_ordinary_exceptions_escape', z3.BoolVal(I.exc_isa(v.cls, 'Exception')),
             detail='escaping %s: not absorbed by the dispatcher, a peer could stop the loop' % v.cls)


# ----------------------------------------------------------------------------- add_buffer
def ab_setup(I):
    self = obj(I, 'self', 'Protocol')
    data = sym(I, 'data', Bytes)
    I.st.inputs['__buffer'] = I.fz(self, '_Protocol__buffer')
    return {'self': self, 'data': data}


def s_process_packet(I, recv, args, kw):
    """contract of Protocol.__process_packet (verified below): handles the packet, raises a ValueError (undecodable bytes or not a
    JSON document), or lets an AttributeError / TypeError / RecursionError caused by a hostile packet escape"""
    (p,) = args
    p = lib.unopt(I, p)
    c = I.st.choice(6, 'packet_outcome')
    log(I, 'PROCESSED').append((p.t, c))
    cover(I, 'processed')
    if c:
        lib.raise_(I, ('UnicodeDecodeError', 'JSONDecodeError', 'AttributeError', 'TypeError', 'RecursionError')[c - 1], VStr('hostile or incomplete packet'))
    return NONE


def s_split_buffer(I, recv, args, kw):
    """self.__buffer.split(DELIMITER): trusted bytes.split; what is split is recorded (V1: stash + data)"""
    I.st.ghost['SPLIT_OF'] = recv.t
    r = lib.str_method(I, recv, 'split', list(args), kw)
    I.st.ghost['PACKETS'] = r
    return r


def ab_iter(I):
    """an arbitrary iteration of the loop over the delimiter-terminated pieces processed exactly that piece"""
    packets = I.local('__iter0')
    k = I.local('__idx0').t - 1
    pr = log(I, 'PROCESSED')
    I.oblige('V1.terminated_piece_processed_exactly_once', z3.BoolVal(len(pr) >= 1) if not pr else z3.And(pr[-1][0] == z3.Select(packets.arrs[0], k)))
    allp = I.st.ghost.get('PACKETS')
    if allp is not None:
        I.oblige('V1.loop_covers_only_terminated_pieces', z3.And(packets.lo == allp.lo, packets.hi == allp.hi - 1),
                 detail='every piece but the last was terminated by a delimiter: those are complete packets')


def ab_post(I, outcome, ctx):
    kind, v = outcome
    if kind == 'raise':
        escape_post(I, v)
        return
    cover(I, 'return')
    g = I.st.ghost
    self = ctx['args']['self']
    I.oblige('V1.reads_only_stash_plus_data', g.get('SPLIT_OF') is not None and g['SPLIT_OF'] == z3.Concat(g['BUF0'], g['DATA0']) if g.get('SPLIT_OF') is not None else z3.BoolVal(False),
             detail='the pieces are those of stash + data (the data is empty when add_buffer() is called without argument)')
    allp = g.get('PACKETS')
    pr = log(I, 'PROCESSED')
    if allp is None or not pr:
        I.oblige('V1.tail_examined', z3.BoolVal(False))
        return
    tail = z3.Select(allp.arrs[0], allp.hi - 1)
    last_piece, outcome_c = pr[-1]
    I.oblige('V1.tail_examined_last', last_piece == tail, detail='the unterminated tail is looked at once, after the terminated pieces')
    buf = I.fz(self, '_Protocol__buffer')
    if outcome_c in (1, 2):
        cover(I, 'tail_incomplete')
        I.oblige('V1.stash.tail_that_is_not_a_packet_is_kept_whole', buf == tail,
                 detail='a packet cut by a read boundary (undecodable or not JSON yet) waits in the buffer for the rest')
    else:
        cover(I, 'tail_complete')
        I.oblige('V1.stash.nothing_kept_once_the_tail_was_accepted', buf == z3.StringVal(''))


def ab_setup2(I):
    a = ab_setup(I)
    I.st.ghost['BUF0'] = I.fz(a['self'], '_Protocol__buffer')
    I.st.ghost['DATA0'] = a['data'].t
    return a


def ab_replay(model, ob):
    return '''
import sys, json
from circuits import Component, Event, handler
from circuits.node.protocol import Protocol, DELIMITER
from circuits.node.utils import dump_event
class hello(Event): pass
seen = []
class App(Component):
    def hello(self, *a): seen.append(a)
app = App()
p = Protocol().register(app)
packet = dump_event(hello('x' * 50), 1).encode('utf-8') + DELIMITER
cut = len(packet) // 2
p.add_buffer(packet[:cut]); p.add_buffer(packet[cut:])
for _ in range(5): app.tick()
print('packet delivered in two reads (cut at byte %d of %d): handler calls = %r' % (cut, len(packet), seen))
sys.exit(1 if len(seen) != 1 else 0)
'''


SPECS.append(FucSpec(
    'C19', FILE, 'Protocol.add_buffer', ab_setup2, ab_post, fields=N_FIELDS,
    calls={'self.__process_packet': s_process_packet, 'self.__buffer.split': s_split_buffer}, env={'DELIMITER': VStr(b'~~~')}, exc_parents=JSON_EXC,
    loops={0: LoopSpec(inv=[('true', lambda I: z3.BoolVal(True))], iter_hook=ab_iter)},
    cover=['return', 'processed', 'tail_incomplete', 'tail_complete'], replay=ab_replay,
    trusted=['JSON objects are self-delimiting: no proper prefix of a packet, and no packet followed by part of the delimiter, is a JSON '
             'document - so a tail that __process_packet accepts is a complete packet (segmentation invariance then follows as in lemmas/Seg.lean)'],
    clause='add_buffer: only ordinary exceptions escape for any bytes; the pieces are those of stash + data; every delimiter-terminated '
           'piece is processed exactly once, in order; the unterminated tail is examined last and is kept whole in the buffer unless it '
           'was accepted as a complete packet'))


# ----------------------------------------------------------------------------- __process_packet: exception mapping
def pp_setup(I):
    self = obj(I, 'self', 'Protocol')
    packet = sym(I, 'packet', Bytes)
    return {'self': self, 'packet': packet}


def pp_post(I, outcome, ctx):
    kind, v = outcome
    if kind == 'raise':
        escape_post(I, v)
        if not log(I, 'SUB'):
            I.oblige('undecodable_bytes_raise_only_ValueError_family', z3.BoolVal(I.exc_isa(v.cls, 'ValueError')),
                     detail='raised before the packet was interpreted: %s' % v.cls)
        return
    cover(I, 'return')
    calls = log(I, 'SUB')
    I.oblige('exactly_one_interpretation', z3.BoolVal(len(calls) == 1))


def sub(name):
    def f(I, recv, args, kw):
        """contract of __process_packet_call / __process_packet_value (verified below): returns, or lets AttributeError,
        TypeError or RecursionError escape"""
        log(I, 'SUB').append(name)
        c = I.st.choice(5, 'sub_outcome')
        if c:
            lib.raise_(I, ('AttributeError', 'TypeError', 'RecursionError', 'JSONDecodeError')[c - 1])
        return NONE
    return f


SPECS.append(FucSpec(
    'C19', FILE, 'Protocol.__process_packet', pp_setup, pp_post, fields=N_FIELDS, exc_parents=JSON_EXC,
    calls={'self.__process_packet_value': sub('value'), 'self.__process_packet_call': sub('call')}, cover=['return', 'raise'],
    clause='__process_packet: an undecodable packet raises only UnicodeDecodeError (a ValueError, absorbed by add_buffer); otherwise it '
           'is interpreted exactly once, as a value or as a call'))


# ----------------------------------------------------------------------------- __process_packet_call: receive firewall
def pc_setup(I):
    self = obj(I, 'self', 'Protocol')
    packet = sym(I, 'packet', Str)
    return {'self': self, 'packet': packet}


def s_load_event(I, recv, args, kw):
    """contract of load_event (verified below against every JSON value): an Event and an id, or one of DECLARED_RAISES"""
    c = I.st.choice(len(DECLARED_RAISES) + 1, 'load_event')
    if c:
        I.st.ghost['LOAD_RAISED'] = DECLARED_RAISES[c - 1]
        lib.raise_(I, DECLARED_RAISES[c - 1])
    e = I.st.fresh_ref('Event')
    I.st.ghost['LOADED'] = e
    I.st.uses_any = True
    return VTuple([e, VAny(core.fresh('id', core.AnySort()))])


def s_firewall(I, recv, args, kw):
    log(I, 'FIREWALL').append(args)
    r = core.fresh('firewall_accepts', z3.BoolSort())
    I.st.ghost['ACCEPTS'] = r
    return VBool(r)


def not_json_post(I, outcome):
    """from the property ("however the connection segments the packets"): a text that is not (yet) a JSON document must be reported to
    add_buffer (which keeps an unterminated tail for the next read), not swallowed as a malformed packet"""
    kind, v = outcome
    if I.st.ghost.get('LOAD_RAISED') == 'JSONDecodeError':
        cover(I, 'not_json')
        I.oblige('incomplete_json_is_reported_not_swallowed', z3.BoolVal(kind == 'raise' and v.cls == 'JSONDecodeError'),
                 detail='JSONDecodeError from the loader must propagate (outcome: %s)' % (kind if kind != 'raise' else v.cls))


def pc_post(I, outcome, ctx):
    not_json_post(I, outcome)
    kind, v = outcome
    if kind == 'raise':
        escape_post(I, v)
        I.oblige('nothing_dispatched_for_a_packet_that_raised', z3.BoolVal(not log(I, 'FIRED') and not log(I, 'RESULTS')))
        return
    cover(I, 'return')
    self = ctx['args']['self']
    fired, results = log(I, 'FIRED'), log(I, 'RESULTS')
    e = I.st.ghost.get('LOADED')
    if e is None:
        cover(I, 'malformed')
        I.oblige('malformed_packet_is_ignored', z3.BoolVal(len(fired) == 0 and len(results) == 0))
        return
    fw = I.field(self, '_Protocol__receive_event_firewall')
    acc = I.st.ghost.get('ACCEPTS')
    rejected = z3.And(fw.t != core.null(), z3.Not(acc)) if acc is not None else z3.BoolVal(False)
    I.oblige('rejected_event_is_never_dispatched', z3.Implies(rejected, z3.BoolVal(len(fired) == 0)),
             detail='an event refused by the receive firewall is not fired locally')
    if acc is None:
        I.oblige('configured_receive_firewall_is_consulted', fw.t == core.null(),
                 detail='a receive firewall is configured but the event was handled without asking it')
    I.oblige('accepted_event_dispatched_exactly_once', z3.Implies(z3.Not(rejected), z3.BoolVal(len(fired) == 1 and len(results) == 0)))
    if acc is not None:
        fwc = log(I, 'FIREWALL')
        I.oblige('firewall_consulted_for_this_event_and_socket', z3.And(z3.BoolVal(len(fwc) == 1), fwc[0][0].t == e.t,
                                                                        fwc[0][1].t == I.field(self, '_Protocol__sock').t))
    if fired:
        cover(I, 'dispatched')
        I.st.uses_any = True
        I.oblige('result_routing_prepared', z3.And(fired[0].t == e.t, I.fz(e, 'success'), I.field(e, 'node_sock').t == I.field(self, '_Protocol__sock').t))
        I.oblige('error_outcome_feedback_requested', z3.Or(I.fz(e, 'failure'), I.fz(e, 'complete')),
                 detail='"its result or error flag comes back": <name>_success is only produced when no handler raised (C04), so a feedback '
                        'that is produced when a handler raised (failure or complete) must be requested for the dispatched event as well; '
                        'here it is whatever the peer put into the packet')


def pc_replay(model, ob):
    if 'error_outcome_feedback_requested' in ob['name']:
        return open(os.path.join(os.path.dirname(os.path.dirname(os.path.abspath(__file__))), 'replay', 'C19_remote_error.py')).read()
    return None


def s_fire(I, recv, args, kw):
    log(I, 'FIRED').append(args[0])
    return I.st.fresh_ref('Value')


SPECS.append(FucSpec(
    'C19', FILE, 'Protocol.__process_packet_call', pc_setup, pc_post, fields=N_FIELDS, exc_parents=JSON_EXC,
    calls={'load_event': s_load_event, 'self.__receive_event_firewall': s_firewall, 'self.fire': s_fire,
           'self.send_result': lambda I, r, a, k: (log(I, 'RESULTS').append(a), NONE)[1], 'Value': lambda I, r, a, k: I.st.fresh_ref('Value')},
    attr_hooks={'event.channels': lambda I: VTuple([])}, cover=['return', 'malformed', 'dispatched'], replay=lambda model, ob: pc_replay(model, ob),
    clause='__process_packet_call: malformed packets are ignored; an event refused by the receive firewall is never fired; an '
           'accepted one is fired exactly once with the success routing to node_result prepared'))


# ----------------------------------------------------------------------------- send: send firewall (segment before the first yield)
def pending_inv(I, self):
    """representation invariant of the table of pending calls: every id in it was handed out by this connection's counter"""
    d = I.field(self, '_Protocol__events')
    k = core.fresh('k', z3.IntSort())
    return z3.ForAll([k], z3.Implies(z3.Select(d.dom, k), z3.And(k >= 0, k < I.fz(self, '_Protocol__nid'))))


def s_dump_event(I, recv, args, kw):
    log(I, 'DUMPED').append(list(args))
    return VStr(core.fn('dump_event_2', core.RefSort(), z3.IntSort(), S())(args[0].t, coerce(args[1], Int).t))


def sd_setup(I):
    self = obj(I, 'self', 'Protocol')
    event = obj(I, 'event', 'Event')
    I.assume(pending_inv(I, self), 'rep invariant: pending call ids were handed out by this connection\'s counter')
    I.assume(I.fz(self, '_Protocol__nid') >= 0)
    I.st.ghost['PENDING0'] = I.field(self, '_Protocol__events')
    I.assume(z3.Not(z3.Select(I.st.heap['node_without_result'][0], event.t)) if False else z3.BoolVal(True))
    return {'self': self, 'event': event}


def sd_yield(I, v):
    log(I, 'YIELDS').append(v)
    if log(I, 'SENT') and isinstance(v, VNone) and len(log(I, 'DUMPED')) == 1:
        # suspended waiting for the result: the call is found under the id the peer will answer with
        d_ = I.field(I.local('self'), '_Protocol__events')
        used_ = coerce(log(I, 'DUMPED')[0][1], Int).t
        cover(I, 'waiting')
        I.oblige('waiting_call_is_remembered_under_the_id_it_was_sent_with',
                 z3.And(z3.Select(d_.dom, used_), z3.Select(d_.vals[0], used_) == I.local('event').t))
    if log(I, 'SENT'):
        I.oblige('pending_table_invariant_kept', pending_inv(I, I.local('self')),
                 detail='while the call waits for its result (other calls are sent meanwhile) ids in the table stay below the counter')
    # the generator is driven by processTask; after the first suspension the remote side may have finished
    if len(log(I, 'YIELDS')) > 3:
        raise PathKill()
    return NONE


def sd_post(I, outcome, ctx):
    kind, v = outcome
    if kind == 'raise':
        I.oblige('no_escape', z3.BoolVal(False), detail='escaping %s' % v.cls)
        return
    cover(I, 'return')
    self, event = ctx['args']['self'], ctx['args']['event']
    sent = log(I, 'SENT')
    fw = I.field(self, '_Protocol__send_event_firewall')
    acc = I.st.ghost.get('ACCEPTS')
    rejected = z3.And(fw.t != core.null(), z3.Not(acc)) if acc is not None else z3.BoolVal(False)
    I.oblige('rejected_event_is_never_transmitted', z3.Implies(rejected, z3.BoolVal(len(sent) == 0)),
             detail='an event refused by the send firewall never reaches the wire')
    if acc is None:
        # the firewall was not asked at all on this path: allowed only when none is configured
        I.oblige('configured_send_firewall_is_consulted', fw.t == core.null(),
                 detail='a send firewall is configured but the event was transmitted (or dropped) without asking it')
    I.oblige('accepted_event_transmitted_exactly_once', z3.Implies(z3.Not(rejected), z3.BoolVal(len(sent) == 1)))
    if sent:
        cover(I, 'sent')
        pre = ctx['pre']
        nid0 = z3.Select(pre['_Protocol__nid'][0], self.t)
        _d = log(I, 'DUMPED')
        _id = coerce(_d[0][1], Int).t if len(_d) == 1 and len(_d[0]) >= 2 else nid0
        I.oblige('packet_is_dumped_event_plus_delimiter', z3.And(z3.BoolVal(len(_d) == 1), sent[0].t == z3.Concat(
            core.fn('py_encode', S(), S())(core.fn('dump_event_2', core.RefSort(), z3.IntSort(), S())(event.t, _id)), DELIM)),
            detail='the packet is the serialisation of THIS event under the call id it is remembered by, plus the delimiter')
        # "every sequence of several in-flight events ... its result comes back to the sender's waiting handler": results are routed by
        # call id, so the id a call is transmitted (and remembered) under must not be the id of a call that is still waiting
        dumped = log(I, 'DUMPED')
        d0 = I.st.ghost['PENDING0']
        if len(dumped) == 1 and len(dumped[0]) >= 2:
            used = coerce(dumped[0][1], Int).t
            I.oblige('call_id_not_shared_with_a_call_still_in_flight', z3.Not(z3.Select(d0.dom, used)),
                     detail='the id of the new call is the id of a pending one: the pending call is overwritten, its caller gets the '
                            'other result or none')
        else:
            I.oblige('call_id_not_shared_with_a_call_still_in_flight', z3.BoolVal(False), detail='%d dump_event calls' % len(dumped))
        I.oblige('pending_table_invariant_kept', pending_inv(I, self),
                 detail='ids in the table of pending calls stay below the counter (what makes the next id fresh)')


def s_send_packet(I, recv, args, kw):
    log(I, 'SENT').append(args[0])
    return NONE


SPECS.append(FucSpec(
    'C19', FILE, 'Protocol.send', sd_setup, sd_post, fields=N_FIELDS,
    calls={'self.__send_event_firewall': s_firewall, 'self.__send': s_send_packet, 'dump_event': s_dump_event,
           'Value': lambda I, r, a, k: I.st.fresh_ref('Value')},
    env={'DELIMITER': VStr(b'~~~')}, on_yield=sd_yield, attr_hooks={'event.value': lambda I: I.st.fresh_ref('Value')},
    loops={0: LoopSpec(inv=[('true', lambda I: z3.BoolVal(True))], havoc_fields=['remote_finish'])},
    cover=['return', 'sent', 'waiting'], replay=lambda model, ob: open(os.path.join(os.path.dirname(os.path.dirname(os.path.abspath(__file__))), 'replay', 'C19_inflight.py')).read(),
    clause='send (up to and including the wait for the remote result): an event refused by the send firewall is never transmitted; '
           'an accepted one is serialised under a call id that no call still in flight on this connection has, transmitted exactly once, '
           'and remembered under that id while it waits'))


# ----------------------------------------------------------------------------- load_event / load_value on an arbitrary JSON value
from contracts import jsonmodel as J      # noqa: E402
UTILS = 'circuits/node/utils.py'
ONLY_INTERNAL = {'reduce_time_left'}      # read only on generate_events instances (isinstance guard); see meta_structural
_CACHE = {}


def real_meta_exclude():
    """META_EXCLUDE as the real module computes it at import time (set(dir(Event())) plus the explicit additions)"""
    if 'excl' not in _CACHE:
        p = subprocess.run(['/venv/bin/python', '-c', 'import json; from circuits.node.utils import META_EXCLUDE; print(json.dumps(sorted(META_EXCLUDE)))'],
                           capture_output=True, text=True, env=dict(os.environ, PYTHONPATH=contract.REPO), timeout=60)
        _CACHE['excl'] = set(json.loads(p.stdout))
    return _CACHE['excl']


def dispatcher_reads():
    if 'reads' not in _CACHE:
        _CACHE['reads'] = {a for a in event_attribute_reads() if not a.startswith('__') and a not in ONLY_INTERNAL}
    return _CACHE['reads']


def protected(k):
    """the attribute name k (a z3 string) is one the dispatcher relies on, or a dunder"""
    return z3.Or(z3.PrefixOf(z3.StringVal('__'), k), J.StrSet(dispatcher_reads()).member(k))


class JEvent(VModel):
    """the object built by Event.create(...) inside load_event: attributes recorded per path"""

    def __init__(self, name, args, kwargs):
        self.attrs = {'name': name, 'args': args, 'kwargs': kwargs}

    def getattr(self, I, name):
        if name in self.attrs:
            return self.attrs[name]
        raise Unsupported('read of event.%s in load_event' % name)

    def setattr(self, I, name, v):
        self.attrs[name] = v


def s_event_create(I, recv, args, kw):
    """Event.create(_name, *args, **kwargs) = type(cls)(_name, (cls,), {})(*args, **kwargs)"""
    J.trusted(I)
    name = args[0]
    if not isinstance(name, J.JsonV):
        raise Unsupported('Event.create(%r)' % (name,))
    if not I.branch(name.is_(J.STR), 'json_is_str'):
        lib.raise_(I, 'TypeError', VStr('type() argument 1 must be str'))
    c = I.st.choice(3, 'event_create')
    if c == 1:
        lib.raise_(I, 'ValueError', VStr('type name must not contain null characters'))
    if c == 2:
        lib.raise_(I, 'TypeError', VStr("got multiple values for argument '_name'"))
    star = args[1] if len(args) > 1 else None
    return JEvent(name, star, kw.get('**'))


def s_setattr(I, recv, args, kw):
    obj, k, v = args
    ks = J.key_str(I, k)
    log(I, 'SETATTR').append((obj, ks, v))
    I.oblige('peer_metadata_cannot_set_an_attribute_the_dispatcher_relies_on', z3.Not(protected(ks)),
             detail='setattr(event, k, v) with a peer-chosen k: k must not be a dunder nor one of %s' % sorted(dispatcher_reads()))
    return NONE


def json_env():
    return {'META_EXCLUDE': J.StrSet(real_meta_exclude())}


JSON_CALLS = {'json.loads': J.s_json_loads, 'bool': J.s_bool, 'tuple': J.s_tuple, 'hash': J.s_hash, 'dict': J.s_dict,
              'Event.create': s_event_create, 'setattr': s_setattr}
def le_setup(I):
    return {'s': sym(I, 's', Str)}


def raises_post(I, v):
    cover(I, 'raise')
    I.oblige('raises_only_ordinary_exceptions', z3.BoolVal(I.exc_isa(v.cls, 'Exception')),
             detail='%s: only Exception subclasses are absorbed by the dispatcher when they leave the read handler' % v.cls)
    I.oblige('raises_only_the_classes_its_callers_are_told_about', z3.BoolVal(v.cls in DECLARED_RAISES), detail=v.cls)


def le_post(I, outcome, ctx):
    kind, v = outcome
    if kind == 'raise':
        return raises_post(I, v)
    cover(I, 'return')
    root = I.st.ghost['JSON_ROOT']
    fld = lambda k: J.jget(root.t, z3.StringVal(k))      # noqa: E731
    v = lib.unopt(I, v)
    ok_shape = isinstance(v, VTuple) and len(v.items) == 2 and isinstance(v.items[0], JEvent)
    I.oblige('returns_event_and_id', z3.BoolVal(ok_shape))
    if not ok_shape:
        return
    e, ident = v.items
    a = e.attrs
    I.oblige('id_from_packet', ident.t == fld('id') if isinstance(ident, J.JsonV) else z3.BoolVal(False))
    I.oblige('name_from_packet', z3.And(a['name'].t == fld('name'), a['name'].is_(J.STR)))
    I.oblige('args_from_packet', z3.BoolVal(isinstance(a['args'], J.JStar)) if not isinstance(a['args'], J.JStar) else a['args'].j.t == fld('args'))
    I.oblige('kwargs_from_packet', a['kwargs'].t == fld('kwargs') if isinstance(a['kwargs'], J.JsonV) else z3.BoolVal(False))
    for f in ('success', 'failure', 'notify'):
        x = a.get(f)
        I.oblige('flag_%s_is_a_bool_from_packet' % f, x.t == J.jtruthy(fld(f)) if isinstance(x, VBool) else z3.BoolVal(False),
                 detail='the feedback flag is bool(packet[%r]) and nothing else' % f)
    ch = a.get('channels')
    I.oblige('channels_is_the_tuple_of_the_packet_channels', ch.src.t == fld('channels') if isinstance(ch, J.JTuple) else z3.BoolVal(False))
    hashed = isinstance(ch, J.JTuple) and any(h is ch or z3.eq(h.t, ch.t) for h in I.st.ghost.get('HASHED', []))
    I.oblige('channels_are_hashable', z3.BoolVal(hashed),
             detail='the dispatcher uses event.channels as a dictionary key outside any handler: an unhashable element stops the loop')
    extra = sorted(set(a) - {'name', 'args', 'kwargs', 'success', 'failure', 'notify', 'channels'})
    I.oblige('no_other_fixed_attribute_is_taken_from_the_packet', z3.BoolVal(not [x for x in extra if x in dispatcher_reads() or x.startswith('__')]),
             detail='also set: %r' % extra)


def le_replay(model, ob):
    if 'channels_are_hashable' in ob['name']:
        pk = '{"id": 1, "name": "hello", "args": [], "kwargs": {}, "success": 0, "failure": 0, "notify": 0, "channels": [["x"]], "meta": {}}'
        what = 'a packet whose channels contain a list'
    elif 'peer_metadata' in ob['name']:
        pk = '{"id": 1, "name": "hello", "args": [], "kwargs": {}, "success": 0, "failure": 0, "notify": 0, "channels": [], "meta": {"cause": 1, "__dict__": {}}}'
        what = 'a packet whose metadata names dispatcher attributes'
    else:
        return None
    return """
import sys
from circuits import Component, Event
from circuits.node.protocol import Protocol
class App(Component):
    def hello(self): return 1
app = App(); p = Protocol().register(app)
for _ in range(3): app.tick()
bad = None
try:
    p.add_buffer(%r.encode() + b'~~~')
    for _ in range(6): app.tick()
except BaseException as e:
    bad = 'the event loop raised %%r' %% (e,)
print(%r, '->', bad or 'loop survived')
sys.exit(1 if bad else 0)
""" % (pk, what)


SPECS.append(FucSpec(
    'C19', UTILS, 'load_event', le_setup, le_post, calls=JSON_CALLS, env=json_env(), exc_parents=JSON_EXC,
    loops={0: LoopSpec(inv=[('true', lambda I: z3.BoolVal(True))])}, cover=['return', 'raise'], replay=le_replay,
    clause='load_event, for EVERY value json.loads can return: name/args/kwargs/id and the three feedback flags come from the packet '
           'fields (flags as bools), channels is a hashable tuple, no peer-chosen metadata key is a dunder or an attribute the '
           'dispatcher reads (set computed from the dispatcher ASTs on this run), and only ordinary exceptions are raised'))


def lv_setup(I):
    return {'v': sym(I, 'v', Str)}


def lv_post(I, outcome, ctx):
    kind, v = outcome
    if kind == 'raise':
        return raises_post(I, v)
    cover(I, 'return')
    root = I.st.ghost['JSON_ROOT']
    fld = lambda k: J.jget(root.t, z3.StringVal(k))      # noqa: E731
    v = lib.unopt(I, v)
    ok_shape = isinstance(v, VTuple) and len(v.items) == 4 and all(isinstance(x, J.JsonV) for x in v.items[:3]) and isinstance(v.items[3], VItemsDict)
    I.oblige('returns_value_id_errors_meta', z3.BoolVal(ok_shape))
    if not ok_shape:
        return
    value, ident, errors, meta = v.items
    I.oblige('value_id_errors_from_packet', z3.And(value.t == fld('value'), ident.t == fld('id'), errors.t == fld('errors')))
    L = meta.items_list
    p = core.fresh('p', z3.IntSort())
    k = L.at(p).items[0]
    I.oblige('every_metadata_key_returned_is_harmless', z3.Implies(z3.And(L.lo <= p, p < L.hi), z3.Not(protected(k.t))),
             detail='no returned metadata key is a dunder or an attribute the dispatcher reads')


SPECS.append(FucSpec(
    'C19', UTILS, 'load_value', lv_setup, lv_post, calls=JSON_CALLS, env=json_env(), exc_parents=JSON_EXC, cover=['return', 'raise'],
    clause='load_value, for EVERY value json.loads can return: value/id/errors come from the packet fields, every metadata key '
           'it returns is neither a dunder nor an attribute the dispatcher reads, and only ordinary exceptions are raised'))


# ----------------------------------------------------------------------------- __process_packet_value: a result comes back
def pv_setup(I):
    self = obj(I, 'self', 'Protocol')
    packet = sym(I, 'packet', Str)
    return {'self': self, 'packet': packet}


def s_load_value(I, recv, args, kw):
    """contract of load_value (verified above)"""
    c = I.st.choice(len(DECLARED_RAISES) + 1, 'load_value')
    if c:
        I.st.ghost['LOAD_RAISED'] = DECLARED_RAISES[c - 1]
        lib.raise_(I, DECLARED_RAISES[c - 1])
    vals = [J.JsonV(core.fresh(n, J.A())) for n in ('value', 'id', 'errors')]
    n = core.fresh('n_meta', z3.IntSort())
    I.assume(n >= 0)
    ks, vs = core.fresh('meta_keys', z3.ArraySort(z3.IntSort(), S())), core.fresh('meta_vals', z3.ArraySort(z3.IntSort(), J.A()))
    p = core.fresh('p', z3.IntSort())
    I.assume(z3.ForAll([p], z3.Implies(z3.And(0 <= p, p < n), z3.Not(protected(z3.Select(ks, p))))), 'ensures of load_value: metadata keys are harmless')
    I.st.ghost['LOADED_VALUE'] = vals
    return VTuple(vals + [VItemsDict(VList(Tup(Str, J.Json), [ks, vs], z3.IntVal(0), n))])


def s_events_get(I, recv, args, kw):
    """self.__events.get(id) for a peer-chosen id: TypeError (unhashable id), None (no such call pending) or the pending event"""
    c = I.st.choice(3, 'pending_lookup')
    if c == 2:
        lib.raise_(I, 'TypeError', VStr('unhashable type'))
    if c == 0:
        return NONE
    ev = I.st.fresh_ref('Event')
    I.st.ghost['PENDING'] = ev
    return ev


def pv_post(I, outcome, ctx):
    not_json_post(I, outcome)
    kind, v = outcome
    sets, results = log(I, 'SETATTR'), log(I, 'SETVALUE')
    ev = I.st.ghost.get('PENDING')
    if kind == 'raise':
        cover(I, 'raise')
        I.oblige('only_ordinary_exceptions_escape', z3.BoolVal(I.exc_isa(v.cls, 'Exception')), detail=v.cls)
        return
    cover(I, 'return')
    if ev is None:
        cover(I, 'ignored')
        I.oblige('unmatched_or_malformed_value_packet_changes_nothing', z3.BoolVal(not sets and not results))
        return
    cover(I, 'delivered')
    vals = I.st.ghost['LOADED_VALUE']
    rf = I.st.read_field(ev.t, 'remote_finish')
    I.oblige('waiting_sender_is_released', z3.And(rf.present, rf.val.t if hasattr(rf.val, 't') else rf.val))
    I.oblige('result_stored_exactly_once', z3.BoolVal(len(results) == 1 and isinstance(results[0][0], J.JsonV) and z3.eq(results[0][0].t, vals[0].t)))
    I.oblige('error_flag_stored', I.field(ev, 'errors').t == vals[2].t)


SPECS.append(FucSpec(
    'C19', FILE, 'Protocol.__process_packet_value', pv_setup, pv_post, exc_parents=JSON_EXC,
    fields=dict(N_FIELDS, errors=Any), calls={'load_value': s_load_value, 'self.__events.get': s_events_get, 'setattr': s_setattr,
                                             'Value': lambda I, r, a, k: I.st.fresh_ref('Value'),
                                             '*.setValue': lambda I, r, a, k: (log(I, 'SETVALUE').append(a), NONE)[1]},
    loops={0: LoopSpec(inv=[('true', lambda I: z3.BoolVal(True))])}, cover=['return', 'ignored', 'delivered'],
    clause='__process_packet_value: a malformed value packet or one for no pending call changes nothing; otherwise the result and the '
           'error flag are stored on the pending event and its waiting sender is released; the only other attributes written are '
           'metadata keys that are neither dunders nor read by the dispatcher'))


# ----------------------------------------------------------------------------- META_EXCLUDE: structural obligation
HERE = os.path.dirname(os.path.dirname(os.path.abspath(__file__)))


def event_attribute_reads():
    """attributes of the event object that the dispatching core reads or deletes (from the real ASTs, every run)"""
    reads = {}
    targets = [('circuits/core/manager.py', ['Manager._fire', 'Manager.fireEvent', 'Manager._dispatcher', 'Manager._eventDone',
                                             'Manager.processTask', 'Manager.waitEvent']),
               ('circuits/core/values.py', ['Value.inform'])]
    for path, quals in targets:
        mod = contract.ModInfo(path)
        for q in quals:
            node, _ = mod.find(q)
            for n in ast.walk(node):
                if isinstance(n, ast.Attribute) and isinstance(n.value, ast.Name) and n.value.id == 'event':
                    reads.setdefault(n.attr, set()).add(q)
                if isinstance(n, ast.Attribute) and isinstance(n.value, ast.Attribute) and n.value.attr in ('event', '_currently_handling') \
                        and isinstance(n.value.value, ast.Name) and n.value.value.id == 'self':
                    reads.setdefault(n.attr, set()).add(q)
                if isinstance(n, ast.Call) and isinstance(n.func, ast.Name) and n.func.id in ('getattr', 'delattr', 'hasattr', 'setattr') \
                        and len(n.args) >= 2 and isinstance(n.args[1], ast.Constant) and isinstance(n.args[1].value, str):
                    tgt = ast.unparse(n.args[0])
                    if tgt in ('event', 'self.event', 'self._currently_handling'):
                        reads.setdefault(n.args[1].value, set()).add(q)
    return reads


def meta_structural(res, opts):
    reads = event_attribute_reads()
    p = subprocess.run(['/venv/bin/python', '-c', 'import json; from circuits.node.utils import META_EXCLUDE; print(json.dumps(sorted(META_EXCLUDE)))'],
                       capture_output=True, text=True, env=dict(os.environ, PYTHONPATH=contract.REPO), timeout=60)
    excl = set(json.loads(p.stdout))
    add_ob(res, 'meta.read_set_computed', len(reads) >= 10, 'ast', detail='%d event attributes are read by the dispatching core' % len(reads))
    # only read on generate_events instances (isinstance guard); Event.create builds a plain Event subclass from a packet
    only_internal = {'reduce_time_left'}
    for attr in sorted(reads):
        if attr.startswith('__') or attr in only_internal:
            continue
        ok = attr in excl
        add_ob(res, 'meta.peer_cannot_set.%s' % attr, ok, 'ast+import',
               detail='event.%s is used by %s: it must be in META_EXCLUDE so that a peer cannot overwrite it' % (attr, sorted(reads[attr])),
               model=None if ok else {'hostile_meta_key': attr})


def meta_replay_note():
    pass


SPECS.append(CustomCheck('C19', 'META_EXCLUDE(structural)', meta_structural, file='circuits/node/utils.py',
                         clause='every attribute of the event object that the dispatcher, _eventDone, processTask, waitEvent or Value.inform '
                                'read is excluded from peer-supplied metadata'))

SPECS.append(CustomCheck('C19', 'serialisation(bounded)', run_bounded('node_roundtrip.py', 'roundtrip', ''), bounded=True,
                         file='bounded/node_roundtrip.py',
                         clause='BOUNDED: load_event(dump_event(e)) / load_value(dump_value(v)) preserve name, args, kwargs, channels and flags'))
SPECS.append(CustomCheck('C19', 'segmentation(bounded)', run_bounded('node_segmentation.py', 'segmentation', ''), bounded=True,
                         file='circuits/node/protocol.py',
                         clause='BOUNDED: call packets (small, unicode, > 4 KiB) delivered through add_buffer with every 2-way cut and '
                                'byte-at-a-time dispatch the same events, once each, in order'))
SPECS.append(CustomCheck('C19', 'hostile_packets(bounded)', run_bounded('node_hostile.py', 'hostile', ''), bounded=True,
                         file='bounded/node_hostile.py',
                         clause='BOUNDED: no packet from a grammar of JSON mutations and metadata keys stops the local event loop'))


# ----------------------------------------------------------------------------- per-connection state (structural)
# The heap model gives every Protocol object its own `__events` table, which is what the contracts above reason about.  In Python
# that is only true if the attribute is bound on the instance: a dict that exists ONLY as a class attribute and is filled through
# `self.__events[id] = ...` is one table shared by all connections of the process, while the id counter (`self.__nid += 1`) is per
# connection - two connections then use the same ids in one table and the answer to one call finishes another connection's call.
def tables_structural(res, opts):
    mod = contract.ModInfo(FILE)
    cls = [n for n in mod.tree.body if isinstance(n, ast.ClassDef) and n.name == 'Protocol'][0]
    shared = {}
    for st in cls.body:
        if isinstance(st, ast.Assign) and len(st.targets) == 1 and isinstance(st.targets[0], ast.Name) and \
                isinstance(st.value, (ast.Dict, ast.List, ast.Set)) or (
                isinstance(st, ast.Assign) and isinstance(st.value, ast.Call) and ast.unparse(st.value.func) in ('dict', 'list', 'set', 'deque', 'defaultdict')):
            shared[st.targets[0].id] = st.lineno

    def demangle(a):
        return a[len('_Protocol'):] if a.startswith('_Protocol__') else a
    bound, mutated = set(), set()
    for fn_ in [n for n in cls.body if isinstance(n, (ast.FunctionDef, ast.AsyncFunctionDef))]:
        for n in ast.walk(fn_):
            tg = n.targets if isinstance(n, ast.Assign) else [n.target] if isinstance(n, (ast.AugAssign, ast.AnnAssign)) else \
                n.targets if isinstance(n, ast.Delete) else []
            for t in tg:
                if isinstance(t, ast.Attribute) and isinstance(t.value, ast.Name) and t.value.id == 'self' and isinstance(n, ast.Assign) \
                        and fn_.name in ('init', '__init__'):
                    bound.add(demangle(t.attr))
                if isinstance(t, ast.Subscript) and isinstance(t.value, ast.Attribute) and isinstance(t.value.value, ast.Name) \
                        and t.value.value.id == 'self':
                    mutated.add(demangle(t.value.attr))
            if isinstance(n, ast.Call) and isinstance(n.func, ast.Attribute) and n.func.attr in ('append', 'add', 'update', 'pop', 'setdefault', 'clear', 'extend') \
                    and isinstance(n.func.value, ast.Attribute) and isinstance(n.func.value.value, ast.Name) and n.func.value.value.id == 'self':
                mutated.add(demangle(n.func.value.attr))
    bad = sorted(a for a in shared if a in mutated and a not in bound)
    add_ob(res, 'tables.mutable_state_filled_through_self_is_per_connection', not bad, 'ast',
           detail='class-level mutable attributes mutated through self without an instance binding in init(): %s' % (bad or 'none'))


SPECS.append(CustomCheck('C19', 'Protocol tables(structural)', tables_structural, file=FILE,
                         clause='the table of pending calls (any mutable table filled through self) is bound per Protocol instance, as the '
                                'heap model of the contracts assumes: ids are counted per connection, so a table shared by all connections '
                                'would route an answer to another connection\'s call'))
SPECS[-1].replay = lambda model, ob: open(os.path.join(os.path.dirname(os.path.dirname(os.path.abspath(__file__))), 'replay', 'C19_inflight.py')).read()

"""C19 — node protocol: packets survive segmentation, firewalls are respected, peers cannot harm the loop.

Functions under contract: Protocol.add_buffer, Protocol.__process_packet, Protocol.__process_packet_call, Protocol.send
(segment before the first yield), the META_EXCLUDE set (structural obligation computed from the real ASTs), plus bounded
stand-ins (labelled) for the JSON round trip and the hostile-packet grammar.  Not decided: the two-party "executed once, result
returns" protocol.
"""
import ast
import json
import os
import subprocess
import z3
from pyvc.core import *  # noqa
from pyvc import core, lib, contract
from pyvc.contract import FucSpec, LoopSpec, CustomCheck, add_ob, sym, obj, cover, uf, noop
from contracts.line_irc import run_bounded

SPECS = []
FILE = 'circuits/node/protocol.py'
S = z3.StringSort
DELIM = z3.StringVal('~~~')
N_FIELDS = {'_Protocol__buffer': Bytes, '_Protocol__nid': Int, '_Protocol__events': Dict(Int, Ref), '_Protocol__server': Ref,
            '_Protocol__sock': Ref, '_Protocol__receive_event_firewall': Ref, '_Protocol__send_event_firewall': Ref,
            'success': Bool, 'success_channels': Any, 'node_call_id': Any, 'node_sock': Ref, 'node_without_result': Dyn(Bool),
            'remote_finish': Dyn(Bool), 'value': Ref}


def log(I, n):
    return I.st.ghost.setdefault(n, [])


# ----------------------------------------------------------------------------- add_buffer
def ab_setup(I):
    self = obj(I, 'self', 'Protocol')
    data = sym(I, 'data', Bytes)
    I.st.inputs['__buffer'] = I.fz(self, '_Protocol__buffer')
    return {'self': self, 'data': data}


def s_process_packet(I, recv, args, kw):
    """contract of Protocol.__process_packet (verified below): handles the packet, or raises ValueError (undecodable bytes)"""
    (p,) = args
    log(I, 'PROCESSED').append(p.t)
    cover(I, 'processed')
    if I.st.choice(2, 'packet_ok') == 1:
        lib.raise_(I, 'UnicodeDecodeError', VStr('invalid utf-8'))
    return NONE


def ab_entry(I):
    self = I.local('self')
    g = I.st.ghost
    whole = z3.Concat(g['BUF0'], g['DATA0'])
    I.oblige('V1.reads_only_stash_plus_data', z3.BoolVal(True))
    packets = I.local('packets')
    g['PACKETS'] = packets


def ab_iter(I):
    """an arbitrary iteration processed packets[k]: only delimiter-terminated pieces are complete packets"""
    packets = I.local('__iter0')
    k = I.local('__idx0').t - 1
    I.oblige('V1.stash.unterminated_tail_is_not_processed', k < packets.hi - 1,
             detail='the piece after the last delimiter is an incomplete packet: it must wait in the buffer for the rest')


def ab_post(I, outcome, ctx):
    kind, v = outcome
    if kind == 'raise':
        cover(I, 'raise')
        I.oblige('no_exception_for_any_bytes', z3.BoolVal(False), detail='escaping %s' % v.cls)
        return
    cover(I, 'return')


def ab_setup2(I):
    a = ab_setup(I)
    I.st.ghost['BUF0'] = I.fz(a['self'], '_Protocol__buffer')
    I.st.ghost['DATA0'] = a['data'].t
    return a


def ab_replay(model, ob):
    return '''
import sys, json
from circuits import Component, Event, handler
from circuits.node.protocol import Protocol, DELIMITER
from circuits.node.utils import dump_event
class hello(Event): pass
seen = []
class App(Component):
    def hello(self, *a): seen.append(a)
app = App()
p = Protocol().register(app)
packet = dump_event(hello('x' * 50), 1).encode('utf-8') + DELIMITER
cut = len(packet) // 2
p.add_buffer(packet[:cut]); p.add_buffer(packet[cut:])
for _ in range(5): app.tick()
print('packet delivered in two reads (cut at byte %d of %d): handler calls = %r' % (cut, len(packet), seen))
sys.exit(1 if len(seen) != 1 else 0)
'''


SPECS.append(FucSpec(
    'C19', FILE, 'Protocol.add_buffer', ab_setup2, ab_post, fields=N_FIELDS,
    calls={'self.__process_packet': s_process_packet}, env={'DELIMITER': VStr(b'~~~')},
    loops={0: LoopSpec(inv=[('true', lambda I: z3.BoolVal(True))], havoc_fields=['_Protocol__buffer'], entry_hook=ab_entry, iter_hook=ab_iter)},
    cover=['return', 'processed'], replay=ab_replay,
    clause='add_buffer: no exception for any bytes; packets are the delimiter-terminated pieces of stash + data; the unterminated '
           'tail must be kept for the next read, not parsed'))


# ----------------------------------------------------------------------------- __process_packet: exception mapping
def pp_setup(I):
    self = obj(I, 'self', 'Protocol')
    packet = sym(I, 'packet', Bytes)
    return {'self': self, 'packet': packet}


def pp_post(I, outcome, ctx):
    kind, v = outcome
    if kind == 'raise':
        cover(I, 'raise')
        I.oblige('raises_only_ValueError_family', z3.BoolVal(I.exc_isa(v.cls, 'ValueError')),
                 detail='escaping %s: add_buffer only absorbs ValueError' % v.cls)
        return
    cover(I, 'return')
    calls = log(I, 'SUB')
    I.oblige('exactly_one_interpretation', z3.BoolVal(len(calls) == 1))


def sub(name):
    def f(I, recv, args, kw):
        log(I, 'SUB').append(name)
        return NONE
    return f


SPECS.append(FucSpec(
    'C19', FILE, 'Protocol.__process_packet', pp_setup, pp_post, fields=N_FIELDS,
    calls={'self.__process_packet_value': sub('value'), 'self.__process_packet_call': sub('call')}, cover=['return', 'raise'],
    clause='__process_packet: an undecodable packet raises only UnicodeDecodeError (a ValueError, absorbed by add_buffer); otherwise it '
           'is interpreted exactly once, as a value or as a call'))


# ----------------------------------------------------------------------------- __process_packet_call: receive firewall
def pc_setup(I):
    self = obj(I, 'self', 'Protocol')
    packet = sym(I, 'packet', Str)
    return {'self': self, 'packet': packet}


def s_load_event(I, recv, args, kw):
    """contract of load_event: an Event and an id, or TypeError / ValueError / LookupError for malformed input"""
    c = I.st.choice(4, 'load_event')
    if c == 1:
        lib.raise_(I, 'TypeError')
    if c == 2:
        lib.raise_(I, 'ValueError')
    if c == 3:
        lib.raise_(I, 'KeyError')
    e = I.st.fresh_ref('Event')
    I.st.ghost['LOADED'] = e
    I.st.uses_any = True
    return VTuple([e, VAny(core.fresh('id', core.AnySort()))])


def s_firewall(I, recv, args, kw):
    log(I, 'FIREWALL').append(args)
    r = core.fresh('firewall_accepts', z3.BoolSort())
    I.st.ghost['ACCEPTS'] = r
    return VBool(r)


def pc_post(I, outcome, ctx):
    kind, v = outcome
    if kind == 'raise':
        I.oblige('no_escape', z3.BoolVal(False), detail='escaping %s' % v.cls)
        return
    cover(I, 'return')
    self = ctx['args']['self']
    fired, results = log(I, 'FIRED'), log(I, 'RESULTS')
    e = I.st.ghost.get('LOADED')
    if e is None:
        cover(I, 'malformed')
        I.oblige('malformed_packet_is_ignored', z3.BoolVal(len(fired) == 0 and len(results) == 0))
        return
    fw = I.field(self, '_Protocol__receive_event_firewall')
    acc = I.st.ghost.get('ACCEPTS')
    rejected = z3.And(fw.t != core.null(), z3.Not(acc)) if acc is not None else z3.BoolVal(False)
    I.oblige('rejected_event_is_never_dispatched', z3.Implies(rejected, z3.BoolVal(len(fired) == 0)),
             detail='an event refused by the receive firewall is not fired locally')
    I.oblige('accepted_event_dispatched_exactly_once', z3.Implies(z3.Not(rejected), z3.BoolVal(len(fired) == 1 and len(results) == 0)))
    if acc is not None:
        fwc = log(I, 'FIREWALL')
        I.oblige('firewall_consulted_for_this_event_and_socket', z3.And(z3.BoolVal(len(fwc) == 1), fwc[0][0].t == e.t,
                                                                        fwc[0][1].t == I.field(self, '_Protocol__sock').t))
    if fired:
        cover(I, 'dispatched')
        I.st.uses_any = True
        I.oblige('result_routing_prepared', z3.And(fired[0].t == e.t, I.fz(e, 'success'), I.field(e, 'node_sock').t == I.field(self, '_Protocol__sock').t))


def s_fire(I, recv, args, kw):
    log(I, 'FIRED').append(args[0])
    return I.st.fresh_ref('Value')


SPECS.append(FucSpec(
    'C19', FILE, 'Protocol.__process_packet_call', pc_setup, pc_post, fields=N_FIELDS,
    calls={'load_event': s_load_event, 'self.__receive_event_firewall': s_firewall, 'self.fire': s_fire,
           'self.send_result': lambda I, r, a, k: (log(I, 'RESULTS').append(a), NONE)[1], 'Value': lambda I, r, a, k: I.st.fresh_ref('Value')},
    attr_hooks={'event.channels': lambda I: VTuple([])}, cover=['return', 'malformed', 'dispatched'],
    clause='__process_packet_call: malformed packets are ignored; an event refused by the receive firewall is never fired; an '
           'accepted one is fired exactly once with the success routing to node_result prepared'))


# ----------------------------------------------------------------------------- send: send firewall (segment before the first yield)
def sd_setup(I):
    self = obj(I, 'self', 'Protocol')
    event = obj(I, 'event', 'Event')
    I.assume(z3.Not(z3.Select(I.st.heap['node_without_result'][0], event.t)) if False else z3.BoolVal(True))
    return {'self': self, 'event': event}


def sd_yield(I, v):
    log(I, 'YIELDS').append(v)
    # the generator is driven by processTask; after the first suspension the remote side may have finished
    if len(log(I, 'YIELDS')) > 3:
        raise PathKill()
    return NONE


def sd_post(I, outcome, ctx):
    kind, v = outcome
    if kind == 'raise':
        I.oblige('no_escape', z3.BoolVal(False), detail='escaping %s' % v.cls)
        return
    cover(I, 'return')
    self, event = ctx['args']['self'], ctx['args']['event']
    sent = log(I, 'SENT')
    fw = I.field(self, '_Protocol__send_event_firewall')
    acc = I.st.ghost.get('ACCEPTS')
    rejected = z3.And(fw.t != core.null(), z3.Not(acc)) if acc is not None else z3.BoolVal(False)
    I.oblige('rejected_event_is_never_transmitted', z3.Implies(rejected, z3.BoolVal(len(sent) == 0)),
             detail='an event refused by the send firewall never reaches the wire')
    I.oblige('accepted_event_transmitted_exactly_once', z3.Implies(z3.Not(rejected), z3.BoolVal(len(sent) == 1)))
    if sent:
        cover(I, 'sent')
        pre = ctx['pre']
        nid0 = z3.Select(pre['_Protocol__nid'][0], self.t)
        I.oblige('packet_is_dumped_event_plus_delimiter', sent[0].t == z3.Concat(
            core.fn('py_encode', S(), S())(core.fn('dump_event_2', core.RefSort(), z3.IntSort(), S())(event.t, nid0)), DELIM))
        I.oblige('call_ids_are_fresh', I.fz(self, '_Protocol__nid') == nid0 + 1)


def s_send_packet(I, recv, args, kw):
    log(I, 'SENT').append(args[0])
    return NONE


SPECS.append(FucSpec(
    'C19', FILE, 'Protocol.send', sd_setup, sd_post, fields=N_FIELDS,
    calls={'self.__send_event_firewall': s_firewall, 'self.__send': s_send_packet, 'dump_event': uf('dump_event'),
           'Value': lambda I, r, a, k: I.st.fresh_ref('Value')},
    env={'DELIMITER': VStr(b'~~~')}, on_yield=sd_yield, attr_hooks={'event.value': lambda I: I.st.fresh_ref('Value')},
    loops={0: LoopSpec(inv=[('true', lambda I: z3.BoolVal(True))], havoc_fields=['remote_finish'])},
    cover=['return', 'sent'],
    clause='send (up to and including the wait for the remote result): an event refused by the send firewall is never transmitted; '
           'an accepted one is serialised with a fresh call id and transmitted exactly once'))


# ----------------------------------------------------------------------------- META_EXCLUDE: structural obligation
HERE = os.path.dirname(os.path.dirname(os.path.abspath(__file__)))


def event_attribute_reads():
    """attributes of the event object that the dispatching core reads or deletes (from the real ASTs, every run)"""
    reads = {}
    targets = [('circuits/core/manager.py', ['Manager._fire', 'Manager.fireEvent', 'Manager._dispatcher', 'Manager._eventDone',
                                             'Manager.processTask', 'Manager.waitEvent']),
               ('circuits/core/values.py', ['Value.inform'])]
    for path, quals in targets:
        mod = contract.ModInfo(path)
        for q in quals:
            node, _ = mod.find(q)
            for n in ast.walk(node):
                if isinstance(n, ast.Attribute) and isinstance(n.value, ast.Name) and n.value.id == 'event':
                    reads.setdefault(n.attr, set()).add(q)
                if isinstance(n, ast.Attribute) and isinstance(n.value, ast.Attribute) and n.value.attr in ('event', '_currently_handling') \
                        and isinstance(n.value.value, ast.Name) and n.value.value.id == 'self':
                    reads.setdefault(n.attr, set()).add(q)
                if isinstance(n, ast.Call) and isinstance(n.func, ast.Name) and n.func.id in ('getattr', 'delattr', 'hasattr', 'setattr') \
                        and len(n.args) >= 2 and isinstance(n.args[1], ast.Constant) and isinstance(n.args[1].value, str):
                    tgt = ast.unparse(n.args[0])
                    if tgt in ('event', 'self.event', 'self._currently_handling'):
                        reads.setdefault(n.args[1].value, set()).add(q)
    return reads


def meta_structural(res, opts):
    reads = event_attribute_reads()
    p = subprocess.run(['/venv/bin/python', '-c', 'import json; from circuits.node.utils import META_EXCLUDE; print(json.dumps(sorted(META_EXCLUDE)))'],
                       capture_output=True, text=True, env=dict(os.environ, PYTHONPATH='/repo'), timeout=60)
    excl = set(json.loads(p.stdout))
    add_ob(res, 'meta.read_set_computed', len(reads) >= 10, 'ast', detail='%d event attributes are read by the dispatching core' % len(reads))
    # only read on generate_events instances (isinstance guard); Event.create builds a plain Event subclass from a packet
    only_internal = {'reduce_time_left'}
    for attr in sorted(reads):
        if attr.startswith('__') or attr in only_internal:
            continue
        ok = attr in excl
        add_ob(res, 'meta.peer_cannot_set.%s' % attr, ok, 'ast+import',
               detail='event.%s is used by %s: it must be in META_EXCLUDE so that a peer cannot overwrite it' % (attr, sorted(reads[attr])),
               model=None if ok else {'hostile_meta_key': attr})


def meta_replay_note():
    pass


SPECS.append(CustomCheck('C19', 'META_EXCLUDE(structural)', meta_structural, file='circuits/node/utils.py',
                         clause='every attribute of the event object that the dispatcher, _eventDone, processTask, waitEvent or Value.inform '
                                'read is excluded from peer-supplied metadata'))

SPECS.append(CustomCheck('C19', 'serialisation(bounded)', run_bounded('node_roundtrip.py', 'roundtrip', ''), bounded=True,
                         file='bounded/node_roundtrip.py',
                         clause='BOUNDED: load_event(dump_event(e)) / load_value(dump_value(v)) preserve name, args, kwargs, channels and flags'))
SPECS.append(CustomCheck('C19', 'hostile_packets(bounded)', run_bounded('node_hostile.py', 'hostile', ''), bounded=True,
                         file='bounded/node_hostile.py',
                         clause='BOUNDED: no packet from a grammar of JSON mutations and metadata keys stops the local event loop'))

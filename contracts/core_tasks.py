"""Manager.processTask under contract — C04 (results/errors of generator handlers), C05 (causal tracking of events fired
from generator steps, every path finishes or keeps waiting), C06 (bookkeeping: waitingHandlers = live generator frames,
a finished callee always hands control back to its caller), C08 (KeyboardInterrupt/SystemExit map to stop()).

Generator steps (next/send/throw) are callbacks: they may yield any object, return (StopIteration), or raise.
Ghost model of generator frames (roles, concrete per path): task, parent, the yielded generator, the generator the caller
yields next.  live = scheduled in _tasks or parked in a wait state.
"""
import z3
from pyvc.core import *  # noqa
from pyvc import core, lib
from pyvc.contract import FucSpec, LoopSpec, sym, obj, cover, uf, noop
from contracts.core_dispatch import M_FIELDS, ALIAS, EVENT_CLASSES, log, s_child, s_exception, s_exc_info, s_fire, s_stop, s_eventDone, \
    s_setvalue_hook, child_kind, ERR

SPECS = []
FILE = 'circuits/core/manager.py'
T_FIELDS = dict(M_FIELDS)
T_FIELDS.update({'cv_value': Any, 'sleep_task': Dyn(Tup(Ref, Ref, Ref)), 'task_event': Ref, 'st_task': Ref, 'st_parent': Ref, 'exc_wrapped': Any})
T_ALIAS = dict(ALIAS)
T_ALIAS.update({('Yielded', 'value'): 'cv_value', ('Yielded', 'task'): 'sleep_task', ('Gen', 'task'): 'sleep_task',
                ('State', 'task'): 'st_task', ('State', 'parent'): 'st_parent'})
KINDS = ['CallValue', 'GeneratorType', 'ExceptionWrapper', 'Sleep']


def isinst(name, t):
    return core.fn('isinst_' + name, core.RefSort(), z3.BoolSort())(t)


def pt_setup(I):
    self = obj(I, 'self', 'Manager')
    event = obj(I, 'event', 'Event')
    task = obj(I, 'task', 'Gen')
    parent = sym(I, 'parent', RefOf('Gen'))
    val = I.field(event, 'value')
    I.assume(z3.And(val.t != core.null(), val.t != event.t, task.t != event.t, task.t != self.t, parent.t != task.t, parent.t != event.t,
                    parent.t != self.t, val.t != task.t, val.t != parent.t))
    I.assume(I.fz(event, 'waitingHandlers') >= 1 + z3.If(parent.t != core.null(), 1, 0),
             'requires Wait: waitingHandlers counts at least the task and (if any) its suspended caller')
    I.st.uses_any = True
    I.st.ghost['CHAN'] = VAny(z3.Const('channel0', core.AnySort()))
    I.st.ghost['ROLES'] = {'task': task.t, 'parent': parent.t}
    I.st.inputs['parent_is_none'] = parent.t == core.null()
    I.st.inputs['event.failure'] = I.fz(event, 'failure')
    return {'self': self, 'event': event, 'task': task, 'parent': parent}


def step(I, gen, how, arg=None):
    """one step of a generator (callback).  C05 obligation: the manager must know which event the step belongs to."""
    self, event = I.local('self'), I.local('event')
    g = I.st.ghost
    hook = g.get('STEP_HOOK')
    if hook:
        hook(I, gen, how)
    c = I.st.choice(6, how)
    base_exc = c == 5      # a BaseException that is not an Exception (CancelledError, GeneratorExit, user class): same duties as c == 4
    c = min(c, 4)
    log(I, 'STEPS').append((gen, how, c, arg))
    if c == 0:
        v = I.st.fresh_ref('Yielded')
        I.assume(z3.And(v.t != I.local('task').t, v.t != I.local('parent').t))
        # framework objects (CallValue, generators, ExceptionWrapper, Sleep) define neither __bool__ nor __len__: always truthy;
        # any other yielded object may be falsy without being None (0, '', (), False)
        tr = core.fn('py_truthy_obj', core.RefSort(), z3.BoolSort())(v.t)
        I.assume(z3.Implies(z3.Or(*[isinst(k, v.t) for k in KINDS]), tr))
        g.setdefault('ROLES', {})['y%d' % len(log(I, 'STEPS'))] = v.t
        g['LAST_YIELD'] = v
        return v
    if c == 1:
        return NONE  # yielded None
    if c == 2:
        lib.raise_(I, 'StopIteration')
    if c == 3:
        if I.st.choice(2, 'exitkind') == 0:
            lib.raise_(I, 'KeyboardInterrupt')
        code = VAny(core.fresh('exit_code', core.AnySort()))
        g['EXIT_CODE'] = code
        raise RaiseSig(VExc('SystemExit', [code], {'code': code}))
    if how == 'next':
        # protocol (trusted): an internal wait/call/value generator (one that has a parent) does not raise from next()
        I.assume(I.local('parent').t == core.null(), 'protocol: internal generators with a parent do not raise from next()')
    if base_exc:
        lib.raise_(I, 'GeneratorExit', VStr('generator failed with a BaseException that is not an Exception'))
    lib.raise_(I, 'Exception', VStr('generator failed'))


def s_next(I, recv, args, kw):
    gen = args[0]
    if gen is I.st.ghost.get('LAST_YIELD') or (isinstance(gen, VRef) and gen.cls == 'Yielded'):
        # priming a freshly yielded wait/call generator: its first yield is always the wait state (contract of waitEvent)
        I.st.trusted_used.add('generator protocol used when processTask primes a freshly yielded wait/call generator: its first yield is the '
                              'wait state and its last a CallValue (PROVED on the bodies of Manager.waitEvent / callEvent under C06); still '
                              'assumed: user handlers never yield CallValue objects themselves and wait/call generators always have a parent')
        st = I.st.fresh_ref('State')
        log(I, 'STEPS').append((gen, 'prime', 0, None))
        return st
    I.st.ghost['NEXT_PARENT_NULL'] = True
    v = step(I, gen, 'next')
    if isinstance(v, VRef):
        # a CallValue is only produced by an internal wait generator, which always has a parent
        I.assume(z3.Implies(isinst('CallValue', v.t), I.local('parent').t != core.null()), 'protocol: CallValue only from wait generators')
    return v


def s_send(I, recv, args, kw):
    return step(I, recv, 'send', args[0])


def s_throw(I, recv, args, kw):
    return step(I, recv, 'throw', args[0])


def s_register(I, recv, args, kw):
    log(I, 'TASKOPS').append(('reg', args[0]))
    return NONE


def s_unregister(I, recv, args, kw):
    log(I, 'TASKOPS').append(('unreg', args[0]))
    return NONE


def s_inform(I, recv, args, kw):
    log(I, 'INFORM').append(args)
    return NONE


def s_extract(I, recv, args, kw):
    return VExc('Exception', [VStr('wrapped')])


def park_hook(which):
    def h(I, o, v):
        log(I, 'PARK').append((which, o, v))
        return False
    return h


PT_CALLS = {
    'next': s_next, 'parent.send': s_send, 'parent.throw': s_throw, 'self.registerTask': s_register, 'self.unregisterTask': s_unregister,
    'event.value.inform': s_inform, 'value.extract': s_extract, 'self._eventDone': s_eventDone, 'self.stop': s_stop, 'self.fire': s_fire,
    '_exc_info': s_exc_info, 'exception': s_exception, 'event.child': s_child,
}


def role_of(I, term):
    for r, t in I.st.ghost['ROLES'].items():
        if z3.eq(z3.simplify(term), z3.simplify(t)):
            return r
    return None


def live_after(I):
    """replays the scheduling operations of this path on the ghost model; returns (scheduled roles, parked roles)"""
    a = I.st.ghost
    sched = {'task'}
    parked = set()
    # parent (if any) is parked in the wait state of task at entry
    parked_parent = True
    ops = log(I, 'TASKOPS')
    for op, tup in ops:
        if isinstance(tup, VTuple) and len(tup.items) == 3:
            gen = tup.items[1]
            r = role_of(I, gen.t) if isinstance(gen, VRef) else ('gen%d' % id(gen))
        else:
            r = 'unknown'
        if op == 'reg':
            sched.add(r)
            if r == 'parent':
                parked_parent = False
        else:
            # unregisterTask removes only the exact tuple; the task itself was registered as (event, task, parent)
            if r == 'task':
                third = tup.items[2]
                same = isinstance(third, VNone) and False
                sched.discard('task') if _third_matches(I, third) else None
            else:
                sched.discard(r)
    for which, o, v in log(I, 'PARK'):
        if isinstance(v, VRef):
            r = role_of(I, v.t)
            if r:
                parked.add(r)
                if r == 'parent':
                    parked_parent = True
    return sched, parked, parked_parent


def _third_matches(I, third):
    """does the third tuple component equal the `parent` the task was registered with?"""
    p = I.local('parent')
    if isinstance(third, VNone):
        return I.st.feasible(p.t == core.null()) and not I.st.feasible(p.t != core.null())
    if isinstance(third, VRef):
        return z3.eq(z3.simplify(third.t), z3.simplify(p.t))
    return False


def pt_post(prop):
    def post(I, outcome, ctx):
        kind, v = outcome
        g = I.st.ghost
        a = ctx['args']
        self, event, task, parent = a['self'], a['event'], a['task'], a['parent']
        steps = log(I, 'STEPS')
        exitstep = [s for s in steps if s[2] == 3]
        if kind == 'raise':
            cover(I, 'exit')
            I.oblige('only_SystemExit_escapes', z3.BoolVal(v.cls == 'SystemExit' and bool(exitstep)), detail='escaping %s' % v.cls)
            return
        cover(I, 'return')
        if prop == 'C08' and 'EXIT_CODE' in g:
            # from the property: an exit code carried by SystemExit propagates to the caller of run(); processTask returned normally,
            # so the SystemExit of the generator step was absorbed: allowed only for SystemExit(None)
            I.oblige('exit_code_of_the_generator_step_propagates', core.any_is_none(g['EXIT_CODE'].t),
                     detail='a generator step raised SystemExit(code), code not None, but processTask returned normally: the code is lost '
                            '(stop() has no effect on a manager that is not running any more)')
        val = I.field(event, 'value')
        wh0 = z3.Select(ctx['pre']['waitingHandlers'][0], event.t)
        wh = I.fz(event, 'waitingHandlers')
        fired, setv, done, stops, inform = log(I, 'FIRED'), log(I, 'SETVALUE'), log(I, 'DONE'), log(I, 'STOPS'), log(I, 'INFORM')
        has_parent = parent.t != core.null()
        first = steps[0] if steps else None
        raised = [s for s in steps if s[2] == 4]
        stopped_ = [s for s in steps if s[2] == 2]
        if prop == 'C08':
            if exitstep:
                cover(I, 'interrupt')
                I.oblige('interrupt_or_exit_stops_the_manager', z3.BoolVal(len(stops) == 1))
                if 'EXIT_CODE' in g and stops:
                    I.oblige('exit_code_handed_to_stop', z3.BoolVal(len(stops[0]) == 1 and stops[0][0] is g['EXIT_CODE']))
            else:
                I.oblige('no_stop_otherwise', z3.BoolVal(len(stops) == 0))
            return
        if prop in ('C04', 'C06') and len(steps) == 2 and steps[0][2] == 0 and steps[1][1] == 'send' and steps[1][2] == 0 and not exitstep \
                and 'EXC_INFO' not in g:
            # the callee's result was handed to the suspended caller, which went on and yielded y2 in the same step: from the
            # property, "the caller's own event then completes as if the handler had run synchronously (value set ...)"
            y2 = g['LAST_YIELD']
            nested = isinst('GeneratorType', y2.t)
            if setv:
                cover(I, 'resumed_yield_value')
                I.oblige('value_yielded_by_the_resumed_caller_recorded_once', z3.And(z3.BoolVal(len(setv) == 1), setv[0][0].t == val.t, setv[0][1].t == y2.t))
                I.oblige('nested_wait_is_not_a_result', z3.Not(nested))
            else:
                I.oblige('value_yielded_by_the_resumed_caller_not_dropped', nested,
                         detail='every value other than None that the resumed caller yields is a result of its event, also a falsy one (0, \'\', False)')
        if prop == 'C04':
            errored = 'EXC_INFO' in g
            if first and first[2] == 0 and len(steps) == 1 and not exitstep and not errored:
                y = g['LAST_YIELD']
                plain = z3.And(*[z3.Not(isinst(k, y.t)) for k in KINDS])
                if setv:
                    cover(I, 'yield_value')
                    I.oblige('yielded_value_recorded_once', z3.And(z3.BoolVal(len(setv) == 1), setv[0][0].t == val.t, setv[0][1].t == y.t))
                    I.oblige('only_plain_values_are_results', plain)
                else:
                    I.oblige('plain_value_not_dropped', z3.Not(plain), detail='every non-None value a generator handler yields counts as a result')
            if errored:
                cover(I, 'raised')
                exc = g.get('EXC_INFO')
                nexc = [e for e in fired if isinstance(e, VCons) and e.tag == 'exception']
                nfail = [e for e in fired if child_kind(e) == 'failure']
                I.oblige('raise.errors_flag_set', I.fz(val, 'errors'))
                I.oblige('raise.error_triple_stands_in', z3.BoolVal(exc is not None and any(s[1] is exc for s in setv)))
                I.oblige('raise.exactly_one_exception_event', z3.BoolVal(len(nexc) == 1))
                I.oblige('raise.failure_event_iff_requested', z3.BoolVal(len(nfail) == 1) == I.fz(event, 'failure'))
            if not errored:
                I.oblige('no_error_feedback_without_error', z3.BoolVal(not [e for e in fired if isinstance(e, VCons) and e.tag == 'exception']))
            # the event is finished (feedback decided) exactly when no handler waits any more
            I.oblige('eventDone_iff_last_waiting_handler_finished', z3.BoolVal(len(done) == 1) == (wh == 0),
                     detail='success/complete are decided only after every handler, including suspended ones, has finished')
            I.oblige('eventDone_at_most_once', z3.BoolVal(len(done) <= 1))
            return
        if prop in ('C06', 'C05') and not (prop == 'C05' and exitstep):
            # (C05: the same accounting decides that the completion of the handler's event is never lost - a count left too high means
            # _eventDone never runs for it and <root>_complete never fires although the closure has drained)
            if exitstep:
                return   # the manager is stopping: bookkeeping of this event is moot
            # a generator parked in a wait state is resumed by _on_done / _on_tick from what the state remembers: the event the task
            # belongs to, the generator itself and the caller to hand the result to - all three must be recorded when it is parked
            byst = {}
            for which, o, v_ in log(I, 'PARK'):
                byst.setdefault(id(o), {'o': o})[which] = v_
            for d_ in byst.values():
                cover(I, 'parked')
                ok_ = all(k_ in d_ for k_ in ('task', 'parent', 'task_event')) and isinstance(d_.get('task_event'), VRef)
                I.oblige('wait.parked_state_remembers_event_task_and_caller', z3.BoolVal(False) if not ok_ else d_['task_event'].t == event.t,
                         detail='recorded on the wait state: %s' % sorted(k_ for k_ in d_ if k_ != 'o'))
            sched, parked, parked_parent = live_after(I)
            if any(st_[1] in ('send', 'throw') and st_[2] in (2, 4) for st_ in steps) and 'parent' not in sched:
                parked_parent = False     # the caller itself finished/failed when it was resumed
            roles = g['ROLES']
            # live frames before: task (scheduled) + parent (parked) if any
            n_after_wo_parent = len((sched | parked) - {'parent', 'unknown'})
            parent_live = ('parent' in sched) or parked_parent
            before = 1 + z3.If(has_parent, 1, 0)
            after = n_after_wo_parent + z3.If(z3.And(has_parent, z3.BoolVal(parent_live)), 1, 0)
            label = 'step%s' % ''.join(str(s[2]) for s in steps)
            cover(I, 'accounted')
            I.oblige('wait.waitingHandlers_tracks_live_frames', wh - wh0 == after - before,
                     detail='waitingHandlers changes exactly by the change in live (scheduled or parked) generator frames; steps=%s sched=%s parked=%s'
                     % (label, sorted(sched), sorted(parked)))
            task_finished = bool(stopped_ and stopped_[0][0] is task) or bool(raised and raised[0][0] is task) or \
                bool(steps and steps[0][0] is task and steps[0][2] in (2, 4))
            if steps and steps[0][2] in (2, 4) and not exitstep:
                cover(I, 'callee_finished')
                # the callee is finished: control goes back to its caller, exactly once
                I.oblige('wait.finished_callee_resumes_caller', z3.Implies(has_parent, z3.BoolVal('parent' in sched)),
                         detail='a caller suspended on call()/wait() is rescheduled when the callee finishes or fails')
                I.oblige('wait.finished_task_not_scheduled', z3.BoolVal('task' not in sched))
            if steps and steps[0][2] in (2, 4) and not exitstep:
                I.oblige('wait.event_finished_when_nothing_waits', z3.Implies(wh == 0, z3.BoolVal(len(done) == 1)))
            if prop == 'C06':
                return
        if prop == 'C05':
            I.oblige('handling_restored', I.fz(self, '_currently_handling') == z3.Select(ctx['pre']['_currently_handling'][0], self.t))
            I.oblige('finishes_or_keeps_waiting', z3.Or(z3.BoolVal(len(done) == 1), wh > 0, z3.BoolVal(bool(exitstep))),
                     detail='no path drops the event without either finishing it (_eventDone) or leaving a waiting handler')
    return post


def c05_step_hook(I, gen, how):
    self, event = I.local('self'), I.local('event')
    cover(I, 'step')
    I.oblige('generator_step_runs_as_current_event', I.fz(self, '_currently_handling') == event.t,
             detail='events fired from a later step of a generator handler must be linked to the handler\'s event: '
                    '_currently_handling must be that event while the generator runs')


def pt_spec(prop, clause, cover_, step_hook=None, replay=None):
    def setup(I):
        a = pt_setup(I)
        if step_hook:
            I.st.ghost['STEP_HOOK'] = step_hook
        return a
    return FucSpec(
        prop, FILE, 'Manager.processTask', setup, pt_post(prop), name='Manager.processTask', fields=T_FIELDS, field_alias=T_ALIAS,
        calls=PT_CALLS, classes=EVENT_CLASSES | set(KINDS), cover=cover_, clause=clause, replay=replay, falsy_classes={'Yielded'},
        attr_hooks={'event.channels': lambda I: VTuple([I.st.ghost['CHAN']])},
        setattr_hooks={'v_value': s_setvalue_hook, 'st_task': park_hook('task'), 'st_parent': park_hook('parent'), 'task_event': park_hook('task_event')},
    )


def c06_replay(model, ob):
    return '''
import sys
from circuits import Component, Event, handler
class outer(Event): pass
class inner(Event): pass
log = []
class App(Component):
    @handler('outer')
    def _outer(self):
        x = yield self.call(inner())
        log.append('resumed')
    @handler('inner')
    def _inner(self):
        yield None
        raise RuntimeError('callee fails after its first yield')
    def exception(self, *a, **k): pass
app = App()
app.fire(outer())
for _ in range(30): app.tick()
left = [h for h in app._handlers if h not in ('outer', 'inner', 'exception', 'prepare_unregister_complete')]
print('caller resumed:', log, '; leftover temporary handlers:', left, '; pending tasks:', len(app._tasks))
sys.exit(1 if (not log or left or app._tasks) else 0)
'''


SPECS.append(pt_spec('C06', 'processTask: on every branch waitingHandlers changes exactly by the change in live generator frames; when the '
                            'callee finishes or fails its caller is rescheduled; the event is finished when nothing waits any more',
                     ['return', 'accounted', 'callee_finished'], replay=c06_replay))
SPECS.append(pt_spec('C04', 'processTask: a plain yielded value is recorded once; a raising step sets errors, stores the error triple and '
                            'fires exactly one exception (+ failure iff requested); _eventDone runs iff the last waiting handler finished',
                     ['return', 'yield_value', 'raised']))
SPECS.append(pt_spec('C08', 'processTask: KeyboardInterrupt / SystemExit(code) raised by a generator step map to stop() / stop(code)',
                     ['return', 'interrupt']))
SPECS.append(pt_spec('C05', 'processTask: the generator step runs with _currently_handling = the event (so that events it fires are '
                            'linked into the completion tracking); every path finishes the event or leaves a waiting handler',
                     ['return', 'step'], step_hook=c05_step_hook))


# ============================================================================= closures of Manager.waitEvent (C06)
# captured variables of the enclosing waitEvent call are explicit ghost parameters (spec.env)
W_FIELDS = dict(T_FIELDS)
W_FIELDS.update({'st_event': Ref, 'flag': Bool, 'run': Bool, 'timeout': Int, 'tick_handler': Ref, 'alert_done': Bool,
                 'tick_installed': Bool})   # ghost: the temporary generate_events handler of this waiter is in the handler table
W_ALIAS = dict(T_ALIAS)
W_ALIAS.update({('State', 'event'): 'st_event'})


def w_objs(I):
    self = obj(I, 'self', 'Manager')
    state = obj(I, 'state', 'State')
    g = I.st.ghost
    g['STATE'] = state
    g['EVENT_OBJECT'] = sym(I, 'event_object', RefOf('Event'))
    g['EVENT_NAME'] = sym(I, 'event_name', Str)
    for nm in ('_on_event_handler', '_on_done_handler', '_on_tick_handler'):
        g[nm] = obj(I, nm, 'Handler')
    I.st.inputs['state.run'] = I.fz(state, 'run')
    I.st.inputs['state.flag'] = I.fz(state, 'flag')
    I.st.inputs['state.timeout'] = I.fz(state, 'timeout')
    I.st.inputs['tick_handler_installed'] = I.fz(state, 'tick_installed')
    # protocol invariant of one waitEvent call (established by its first segment, which installs the tick handler iff timeout >= 0;
    # preserved by _on_tick, which only counts down to 0 and removes the handler when it fires the TimeoutError):
    I.assume(z3.Implies(I.fz(state, 'tick_installed'), z3.And(I.fz(state, 'timeout') >= 0, I.field(state, 'tick_handler').t == g['_on_tick_handler'].t)),
             'WInv: an installed tick handler means a timeout >= 0 is being counted')
    return self, state


def tick_installed_after(I, pre):
    """ghost update: the tick handler stays installed unless this call removed it"""
    state = I.st.ghost['STATE']
    removed = any(isinstance(r[0], VRef) and not I.st.feasible(r[0].t != I.st.ghost['_on_tick_handler'].t) for r in log(I, 'REMOVED'))
    return z3.And(z3.Select(pre['tick_installed'][0], state.t), z3.BoolVal(not removed))


W_ENV = {'state': lambda I: I.st.ghost['STATE'], 'event_object': lambda I: lib.unopt(I, I.st.ghost['EVENT_OBJECT']) if False else I.st.ghost['EVENT_OBJECT'],
         'event_name': lambda I: I.st.ghost['EVENT_NAME'], '_on_event_handler': lambda I: I.st.ghost['_on_event_handler'],
         '_on_done_handler': lambda I: I.st.ghost['_on_done_handler'], '_on_tick_handler': lambda I: I.st.ghost['_on_tick_handler']}


def s_removeHandler(I, recv, args, kw):
    log(I, 'REMOVED').append(tuple(args))
    return NONE


def w_register(I, recv, args, kw):
    log(I, 'REGISTERED').append(args[0])
    return NONE


W_CALLS = {'self.removeHandler': s_removeHandler, 'self.registerTask': w_register,
           'ExceptionWrapper': lambda I, r, a, k: VCons('ExceptionWrapper', a), 'TimeoutError': lambda I, r, a, k: VExc('TimeoutError', a)}


def w_no_escape(I, outcome):
    kind, v = outcome
    if kind == 'raise':
        I.oblige('no_escape', z3.BoolVal(False), detail='escaping %s' % v.cls)
        return True
    return False


# --- _on_done
def wd_setup(I):
    self, state = w_objs(I)
    event = obj(I, 'event', 'Event')       # the <name>_done event; event.parent is the event that is done
    # _on_done is running, so its own temporary handler is still installed, so _on_tick has not fired the timeout (it removes both):
    I.assume(z3.Implies(I.fz(state, 'timeout') >= 0, I.fz(state, 'tick_installed')), 'WInv: no timeout fired yet => the countdown handler is installed')
    return {'self': self, 'event': event, 'args': VTuple([]), 'kwargs': VCDict({})}


def wd_post(I, outcome, ctx):
    if w_no_escape(I, outcome):
        return
    cover(I, 'return')
    a, pre = ctx['args'], ctx['pre']
    self, event = a['self'], a['event']
    state = I.st.ghost['STATE']
    mine = z3.Select(pre['st_event'][0], state.t) == I.field(event, 'e_parent').t
    regs, rem = log(I, 'REGISTERED'), log(I, 'REMOVED')
    I.oblige('resumes_only_for_the_done_of_its_own_event', z3.BoolVal(len(regs) >= 1) == mine,
             detail='a caller is resumed by the done event of the event it waits for, never by that of another event of the same name '
                    '(several calls may be in flight without mixing up their results)')
    I.oblige('resumed_at_most_once_per_done_event', z3.BoolVal(len(regs) <= 1))
    for t in regs:
        cover(I, 'resumed')
        I.oblige('parked_task_is_rescheduled_as_parked', z3.And(z3.BoolVal(isinstance(t, VTuple) and len(t.items) == 3),
                                                                t.items[0].t == I.field(state, 'task_event').t, t.items[1].t == I.field(state, 'st_task').t,
                                                                t.items[2].t == I.field(state, 'st_parent').t))
        I.oblige('flag_set', I.fz(state, 'flag'))
    I.oblige('foreign_done_changes_nothing', z3.Implies(z3.Not(mine), z3.And(I.fz(state, 'flag') == z3.Select(pre['flag'][0], state.t), z3.BoolVal(len(rem) == 0))))
    ti0 = z3.Select(pre['tick_installed'][0], state.t)
    # from the property ("resumed exactly once ... either with the result or with TimeoutError", "no temporary handlers remain"):
    # once the caller is rescheduled with the result, the countdown handler must be gone, otherwise a TimeoutError task follows
    I.oblige('resumption_with_the_result_cancels_the_timeout', z3.Implies(mine, z3.Not(tick_installed_after(I, pre))),
             detail='after the done event resumed the caller the temporary generate_events handler must not stay installed '
                    '(it would throw TimeoutError into a caller that was already resumed, at countdown 0)')
    I.oblige('tick_handler_removed_only_if_installed', z3.Implies(z3.BoolVal(len(rem) >= 1), ti0),
             detail='removeHandler of a handler that is not installed raises KeyError')
    for r in rem:
        I.oblige('removes_its_own_tick_handler', z3.And(r[0].t == I.field(state, 'tick_handler').t, r[1].t == z3.StringVal('generate_events')))


SPECS.append(FucSpec(
    'C06', FILE, 'Manager.waitEvent.<locals>._on_done', wd_setup, wd_post, fields=W_FIELDS, field_alias=W_ALIAS, calls=W_CALLS, env=W_ENV,
    classes=EVENT_CLASSES, cover=['return', 'resumed'],
    clause='waitEvent._on_done: the parked (task_event, task, parent) is rescheduled exactly when the done event belongs to the event this '
           'waiter bound to, once; a running timeout\'s tick handler is removed; any other done event changes nothing'))


# --- _on_event
def we_setup(I):
    self, state = w_objs(I)
    event = obj(I, 'event', 'Event')
    return {'self': self, 'event': event, 'args': VTuple([]), 'kwargs': VCDict({})}


def we_post(I, outcome, ctx):
    if w_no_escape(I, outcome):
        return
    cover(I, 'return')
    a, pre = ctx['args'], ctx['pre']
    event = a['event']
    g = I.st.ghost
    state = g['STATE']
    run0 = z3.Select(pre['run'][0], state.t)
    eo = g['EVENT_OBJECT']
    matches = z3.Or(eo.t == core.null(), eo.t == event.t)
    binds = z3.And(z3.Not(run0), matches)
    rem = log(I, 'REMOVED')
    I.oblige('binds_to_the_first_matching_event_only', z3.And(z3.BoolVal(len(rem) <= 1), z3.BoolVal(len(rem) == 1) == binds))
    I.oblige('bound_event_recorded_and_asked_for_done', z3.Implies(binds, z3.And(I.field(state, 'st_event').t == event.t, I.fz(state, 'run'), I.fz(event, 'alert_done'))))
    I.oblige('other_events_leave_the_waiter_alone', z3.Implies(z3.Not(binds), z3.And(
        I.field(state, 'st_event').t == z3.Select(pre['st_event'][0], state.t), I.fz(event, 'alert_done') == z3.Select(pre['alert_done'][0], event.t))))
    for r in rem:
        cover(I, 'bound')
        I.oblige('removes_itself', z3.And(r[0].t == g['_on_event_handler'].t, r[1].t == g['EVENT_NAME'].t))


SPECS.append(FucSpec(
    'C06', FILE, 'Manager.waitEvent.<locals>._on_event', we_setup, we_post, fields=W_FIELDS, field_alias=W_ALIAS, calls=W_CALLS, env=W_ENV,
    classes=EVENT_CLASSES, cover=['return', 'bound'],
    clause='waitEvent._on_event: binds the waiter to the first matching event (the given object, or by name), asks that event for a '
           'done notification, removes its own temporary handler; later events do nothing'))


# --- _on_tick
def wt_setup(I):
    self, state = w_objs(I)
    # _on_tick is running, so it is installed; WInv (proved for _on_done): an installed countdown means the caller was not resumed yet
    I.assume(I.fz(state, 'tick_installed'), 'the running handler is installed')
    I.assume(z3.Not(I.fz(state, 'flag')), 'WInv: installed countdown => caller not yet resumed (ensured by _on_done)')
    return {'self': self}


def wt_post(I, outcome, ctx):
    if w_no_escape(I, outcome):
        return
    cover(I, 'return')
    pre = ctx['pre']
    g = I.st.ghost
    state = g['STATE']
    t0 = z3.Select(pre['timeout'][0], state.t)
    regs, rem = log(I, 'REGISTERED'), log(I, 'REMOVED')
    I.oblige('timeout_error_exactly_at_zero', z3.BoolVal(len(regs) == 1) == (t0 == 0), detail='TimeoutError no earlier than after the given number of loop iterations')
    I.oblige('countdown_one_per_tick', z3.Implies(t0 > 0, I.fz(state, 'timeout') == t0 - 1))
    I.oblige('WInv_preserved', z3.Implies(tick_installed_after(I, pre), z3.And(I.fz(state, 'timeout') >= 0, z3.Not(I.fz(state, 'flag')))))
    I.oblige('timed_out_waiter_keeps_no_countdown', z3.Implies(t0 == 0, z3.Not(tick_installed_after(I, pre))))
    I.oblige('no_timeout_means_no_countdown', z3.Implies(t0 < 0, z3.And(I.fz(state, 'timeout') == t0, z3.BoolVal(len(regs) == 0 and len(rem) == 0))))
    if regs:
        cover(I, 'timed_out')
        t = regs[0]
        I.oblige('timeout_is_thrown_into_the_parked_caller', z3.And(z3.BoolVal(isinstance(t, VTuple) and len(t.items) == 3), t.items[0].t == I.field(state, 'task_event').t,
                                                                   t.items[2].t == I.field(state, 'st_parent').t))
        names = sorted((r[0].t.decl().name() if isinstance(r[0], VRef) else '?') for r in rem)
        I.oblige('both_temporary_handlers_removed', z3.BoolVal({'_on_done_handler', '_on_tick_handler'} <= set(names) and len(names) == len(set(names))),
                 detail='no temporary handler remains after a timeout')
        # from the property ("when the system is quiescent again no temporary handlers ... remain", "every timeout value"): the
        # handler that waits for the event itself is still installed iff the event has not been seen yet (it removes itself when
        # it binds, WInv: installed <=> not state.run); a timeout must take it away too, and must not remove it twice
        run0 = z3.Select(pre['run'][0], state.t)
        I.oblige('event_handler_removed_iff_still_installed', z3.BoolVal('_on_event_handler' in names) == z3.Not(run0),
                 detail='after a timeout for an event that never arrived the temporary handler for the event name must be removed as well')
        I.oblige('only_own_temporary_handlers_removed', z3.BoolVal(set(names) <= {'_on_done_handler', '_on_tick_handler', '_on_event_handler'}))


SPECS.append(FucSpec(
    'C06', FILE, 'Manager.waitEvent.<locals>._on_tick', wt_setup, wt_post, fields=W_FIELDS, field_alias=W_ALIAS, calls=W_CALLS, env=W_ENV,
    classes=EVENT_CLASSES, cover=['return', 'timed_out'],
    clause='waitEvent._on_tick: the countdown loses one per loop iteration; exactly at 0 a TimeoutError task for the parked caller is '
           'registered and both temporary handlers are removed; without a timeout nothing happens'))


# ============================================================================= generator bodies of waitEvent / callEvent (C06)
# The bodies are executed segment by segment: a `yield` hands the value to the contract (on_yield), which checks what the segment
# established, applies the RELY for the suspension (what the temporary handlers and processTask may have done meanwhile - exactly
# the guarantees proved for the three closures above and for processTask) and resumes the body.  This replaces the protocol
# facts that used to be trusted ("first yield is the wait state, last yield is CallValue").
G_FIELDS = dict(W_FIELDS)
G_FIELDS.update({'st_task_event': Ref})
G_ALIAS = dict(W_ALIAS)
G_ALIAS.update({('State', 'task_event'): 'st_task_event'})


def s_state_ctor(I, recv, args, kw):
    """_State(timeout): all slots None/False, timeout as given (the class body is three lines of slot initialisation)"""
    st = I.st.fresh_ref('State')
    t = kw.get('timeout', args[0] if args else None)
    for f, v in (('run', VBool(z3.BoolVal(False))), ('flag', VBool(z3.BoolVal(False))), ('timeout', lib.unopt(I, t)),
                 ('tick_installed', VBool(z3.BoolVal(False)))):
        I.st.write_field(st.t, f, v)
    for f in ('st_event', 'st_task', 'st_parent', 'st_task_event', 'tick_handler'):
        I.st.write_field(st.t, f, VRef(core.null(), None))
    I.st.ghost['STATE'] = st
    return st


def s_handler_deco(I, recv, args, kw):
    """handler(name, channel=c) -> decorator; decorator(fn) -> a handler object for (name, c, fn)"""
    name, chan = args[0], kw.get('channel')

    def deco(I2, b, a, k):
        return VCons('TempHandler', [name, chan, a[0]])
    return VFunc('handler-decorator', impl=deco)


def s_addHandler_temp(I, recv, args, kw):
    h = args[0]
    ref = I.st.fresh_ref('Handler')
    log(I, 'INSTALLED').append((ref, h))
    return ref


def wv_setup(by_object):
    def setup(I):
        self = obj(I, 'self', 'Manager')
        g = I.st.ghost
        I.st.uses_any = True
        ch = VAny(z3.Const('wait_channel', core.AnySort()))
        g['WCHAN'] = ch
        g['EVENT_NAME'] = sym(I, 'event_name', Str)
        if by_object:
            event = obj(I, 'event', 'Event')
            I.assume(isinst('Event', event.t), 'case: the event is given as an Event object')
            g['ECHANS'] = I.st.choice(2, 'event_has_channels')
            g['ECHAN'] = VAny(z3.Const('event_channel', core.AnySort()))
        else:
            event = g['EVENT_NAME']
        g['BY_OBJECT'] = by_object
        g['EVENT'] = event
        if I.st.choice(2, 'timeout_given') == 0:
            t = sym(I, 'timeout', Int)
            kwargs = VCDict({'timeout': t})
            g['TIMEOUT'] = t.t
        else:
            kwargs = VCDict({})
            g['TIMEOUT'] = z3.IntVal(-1)
        I.st.inputs['timeout'] = g['TIMEOUT']
        return {'self': self, 'event': event, 'channels': VTuple([ch]), 'kwargs': kwargs}
    return setup


def _temp_of(I, fn_name):
    """installed temporary handlers whose function is the closure fn_name: [(ref, name, channel)]"""
    out = []
    for ref, h in log(I, 'INSTALLED'):
        if isinstance(h, VCons) and h.tag == 'TempHandler' and isinstance(h.args[2], VFunc) and h.args[2].name == fn_name:
            out.append((ref, h.args[0], h.args[1]))
    return out


def wv_yield(I, v):
    g = I.st.ghost
    ys = log(I, 'YIELDS')
    ys.append(v)
    if len(ys) == 1:
        cover(I, 'suspended')
        state = g.get('STATE')
        I.oblige('first_yield_is_the_wait_state', z3.BoolVal(state is not None and isinstance(v, VRef)) if state is None or not isinstance(v, VRef) else v.t == state.t,
                 detail='processTask parks the caller in the object the wait generator yields first')
        if state is None:
            raise PathKill()
        name = g['EVENT_NAME'].t
        ev, dn, tk = _temp_of(I, '_on_event'), _temp_of(I, '_on_done'), _temp_of(I, '_on_tick')
        T = g['TIMEOUT']
        I.oblige('event_and_done_handlers_installed', z3.BoolVal(len(ev) == 1 and len(dn) == 1), detail='installed: %r' % (log(I, 'INSTALLED'),))
        if len(ev) == 1 and len(dn) == 1:
            I.oblige('event_handler_listens_for_the_awaited_name', lib.unopt(I, ev[0][1]).t == name)
            I.oblige('done_handler_listens_for_its_done_event', lib.unopt(I, dn[0][1]).t == z3.Concat(name, z3.StringVal('_done')))
            want = g['ECHAN'] if g['BY_OBJECT'] and g['ECHANS'] == 0 else g['WCHAN']
            for nm, lst in (('event', ev), ('done', dn)):
                c = lib.unopt(I, lst[0][2])
                I.oblige('%s_handler_on_the_awaited_channel' % nm, z3.BoolVal(isinstance(c, VAny)) if not isinstance(c, VAny) else c.t == want.t,
                         detail='an event given as object is awaited on its own channels, otherwise on the channels given')
        I.oblige('countdown_installed_iff_a_timeout_was_given', z3.BoolVal(len(tk) == 1) == (T >= 0),
                 detail='WInv established: the temporary generate_events handler exists iff timeout >= 0')
        I.oblige('at_most_one_countdown', z3.BoolVal(len(tk) <= 1))
        for ref, nm, c in tk:
            I.oblige('countdown_runs_on_generate_events', lib.unopt(I, nm).t == z3.StringVal('generate_events'))
            I.oblige('state_remembers_its_countdown_handler', I.field(state, 'tick_handler').t == ref.t,
                     detail='_on_done removes state.tick_handler: it must be the installed one')
        I.oblige('state_starts_unbound', z3.And(z3.Not(I.fz(state, 'run')), z3.Not(I.fz(state, 'flag')), I.field(state, 'st_event').t == core.null(),
                                                I.fz(state, 'timeout') == T))
        eo = I.local('event_object')
        if g['BY_OBJECT']:
            I.oblige('by_object_waits_for_that_very_object', z3.BoolVal(isinstance(eo, VRef)) if not isinstance(eo, VRef) else eo.t == g['EVENT'].t,
                     detail='several calls for events of the same name may be in flight: each waiter binds to its own event object')
        else:
            I.oblige('by_name_binds_to_any_event_of_that_name', z3.BoolVal(isinstance(lib.unopt(I, eo), VNone)))
        I.oblige('nothing_removed_before_suspending', z3.BoolVal(len(log(I, 'REMOVED')) == 0))
        # ---- RELY for the suspension.  The generator is resumed only by processTask stepping the task that _on_done re-registered
        # (a timeout re-registers a different generator and drops this one).  Guarantees of the closures (proved above):
        #   _on_event: bound => run, event recorded, its own handler removed;  _on_done: flag, countdown handler removed.
        for f in ('run', 'flag', 'st_event', 'timeout', 'st_task', 'st_parent', 'st_task_event', 'tick_installed', 'alert_done'):
            I.st.havoc_field(f)
        bound = obj(I, 'bound_event', 'Event')
        g['BOUND'] = bound
        I.assume(z3.And(I.fz(state, 'flag'), I.fz(state, 'run'), I.field(state, 'st_event').t == bound.t, bound.t != core.null(),
                        z3.Not(I.fz(state, 'tick_installed'))), 'rely: resumed by _on_done of the bound event')
        g['SEG1_REMOVED'] = 0
        return NONE
    if len(ys) == 2:
        cover(I, 'result')
        return NONE
    raise PathKill()


def wv_post(I, outcome, ctx):
    if w_no_escape(I, outcome):
        return
    cover(I, 'return')
    g = I.st.ghost
    ys, rem = log(I, 'YIELDS'), log(I, 'REMOVED')
    state = g.get('STATE')
    I.oblige('suspends_exactly_once_then_delivers_the_result', z3.BoolVal(len(ys) == 2),
             detail='yields: %d (the wait state, then CallValue with the result)' % len(ys))
    if len(ys) == 2 and state is not None:
        v = ys[1]
        ok = isinstance(v, VCons) and v.tag == 'CallValue' and len(v.args) == 1 and isinstance(v.args[0], VRef)
        I.oblige('last_yield_is_CallValue', z3.BoolVal(ok))
        if ok:
            I.oblige('result_is_the_value_of_the_bound_event', v.args[0].t == I.field(g['BOUND'], 'value').t,
                     detail='the caller receives the result (and error flag) of the event it waited for')
    dn = _temp_of(I, '_on_done')
    I.oblige('done_handler_removed_after_resumption',
             z3.BoolVal(len(rem) == 1 and len(dn) == 1) if not (len(rem) == 1 and len(dn) == 1) else
             z3.And(rem[0][0].t == dn[0][0].t, lib.unopt(I, rem[0][1]).t == z3.Concat(g['EVENT_NAME'].t, z3.StringVal('_done'))),
             detail='no temporary handler remains: _on_event removed itself when it bound, _on_done removed the countdown, the body removes _on_done')


def wv_spec(by_object):
    nm = 'Manager.waitEvent[%s]' % ('event object' if by_object else 'event name')
    hooks = {'event.name': lambda I: I.st.ghost['EVENT_NAME'],
             'event.channels': lambda I: VTuple([I.st.ghost['ECHAN']]) if I.st.ghost['ECHANS'] == 0 else VTuple([])}
    return FucSpec(
        'C06', FILE, 'Manager.waitEvent', wv_setup(by_object), wv_post, name=nm, fields=G_FIELDS, field_alias=G_ALIAS,
        calls={'_State': s_state_ctor, 'handler': s_handler_deco, 'self.addHandler': s_addHandler_temp, 'self.removeHandler': s_removeHandler,
               'CallValue': lambda I, r, a, k: VCons('CallValue', a)},
        attr_hooks=hooks if by_object else {}, classes=EVENT_CLASSES | {'Event'}, on_yield=wv_yield, cover=['return', 'suspended', 'result'],
        clause='waitEvent body (%s): first segment installs exactly the temporary handlers (event, done, countdown iff timeout >= 0) '
               'and yields the wait state; after resumption it removes the done handler and yields CallValue(value of the bound '
               'event) as its last value' % ('by object' if by_object else 'by name'))


SPECS.append(wv_spec(True))
SPECS.append(wv_spec(False))


# --- callEvent = fire + yield from waitEvent(event by object) + CallValue(value of the fire)
def ce_setup(I):
    self = obj(I, 'self', 'Manager')
    event = obj(I, 'event', 'Event')
    g = I.st.ghost
    I.st.uses_any = True
    g['ECHAN'] = VAny(z3.Const('event_channel', core.AnySort()))
    g['WCHAN'] = VAny(z3.Const('call_channel', core.AnySort()))
    t = sym(I, 'timeout', Int)
    g['KW'] = VCDict({'timeout': t}) if I.st.choice(2, 'timeout_given') == 0 else VCDict({})
    return {'self': self, 'event': event, 'channels': VTuple([g['WCHAN']]), 'kwargs': g['KW']}


def s_ce_fire(I, recv, args, kw):
    v = I.st.fresh_ref('Value')
    log(I, 'FIRED').append((args, v, len(log(I, 'DELEGATED'))))
    return v


def s_ce_wait(I, recv, args, kw):
    return VCons('waitEvent-generator', list(args), dict(kw))


def ce_yield_from(I, gen):
    log(I, 'DELEGATED').append(gen)
    return NONE


def ce_yield(I, v):
    log(I, 'YIELDS').append((v, len(log(I, 'DELEGATED'))))
    return NONE


def ce_post(I, outcome, ctx):
    if w_no_escape(I, outcome):
        return
    cover(I, 'return')
    g = I.st.ghost
    event = ctx['args']['event']
    fired, dele, ys = log(I, 'FIRED'), log(I, 'DELEGATED'), log(I, 'YIELDS')
    I.oblige('fires_the_event_exactly_once_before_waiting', z3.BoolVal(len(fired) == 1 and fired[0][2] == 0))
    if len(fired) == 1:
        a = fired[0][0]
        shape = len(a) == 2 and isinstance(a[0], VRef) and isinstance(a[1], VAny)
        I.oblige('fires_the_given_event_on_the_given_channels', z3.BoolVal(False) if not shape else z3.And(a[0].t == event.t, a[1].t == g['WCHAN'].t),
                 detail='fire(%s)' % (a,))
    I.oblige('waits_exactly_once', z3.BoolVal(len(dele) == 1))
    if len(dele) == 1:
        d = dele[0]
        ok = isinstance(d, VCons) and d.tag == 'waitEvent-generator' and len(d.args) >= 1 and isinstance(d.args[0], VRef)
        I.oblige('waits_for_the_very_event_object_it_fired', z3.BoolVal(ok) if not ok else d.args[0].t == event.t,
                 detail='waiting by object (not by name) keeps concurrent calls of same-named events apart')
        if ok:
            kws, given = d.kwargs, g['KW'].d
            I.oblige('timeout_is_passed_on_to_the_wait', z3.BoolVal(set(kws) == set(given)) if not (set(kws) == set(given) and 'timeout' in given)
                     else lib.unopt(I, kws['timeout']).t == given['timeout'].t)
            chans = d.args[1:]
            I.oblige('waits_on_the_events_own_channels', z3.BoolVal(len(chans) == 1 and isinstance(chans[0], VAny)) if not (len(chans) == 1 and isinstance(chans[0], VAny))
                     else chans[0].t == g['ECHAN'].t)
    after = [y for y, k in ys if k == 1]
    before = [y for y, k in ys if k == 0]
    I.oblige('yields_nothing_before_the_wait', z3.BoolVal(len(before) == 0))
    ok = len(after) == 1 and isinstance(after[0], VCons) and after[0].tag == 'CallValue' and len(fired) == 1
    I.oblige('finally_yields_CallValue_of_the_fired_events_value', z3.BoolVal(ok) if not ok else after[0].args[0].t == fired[0][1].t,
             detail='the caller receives the Value object fire() returned for this very event')


SPECS.append(FucSpec(
    'C06', FILE, 'Manager.callEvent', ce_setup, ce_post, fields=G_FIELDS, field_alias=G_ALIAS,
    calls={'self.fire': s_ce_fire, 'self.waitEvent': s_ce_wait, 'CallValue': lambda I, r, a, k: VCons('CallValue', a)},
    attr_hooks={'event.channels': lambda I: VTuple([I.st.ghost['ECHAN']])}, classes=EVENT_CLASSES | {'Event'},
    on_yield=ce_yield, on_yield_from=ce_yield_from, cover=['return'],
    clause='callEvent body: fires the event once, then delegates to waitEvent for that very event object on its channels with the '
           'caller\'s timeout, and finally yields CallValue(the Value fire returned)'))

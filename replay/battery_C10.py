"""Replay battery for C10: sequences of add/remove reader/writer/discard on socket pairs for Select, Poll and EPoll, checked
against the model 'event emitted iff registered for that role and actually ready, addressed to the registering channel'.
exit 1 + REPRODUCED on a violation."""
import itertools, random, socket, sys, threading
from circuits.core.events import generate_events
from circuits.core import pollers

class Src:
    def __init__(self, ch): self.channel = ch

def emitted(p):
    out = []
    p.fire = lambda e, *ch: out.append((e.name, e.args[0], ch[0] if ch else None))
    ev = generate_events(threading.RLock(), 0)
    p._generate_events(ev)
    return out

bad = []
OPS = ['addR', 'addW', 'rmR', 'rmW', 'discard', 'make_readable', 'drain']
for cls in (pollers.Select, pollers.Poll, pollers.EPoll):
    for seed in range(25):
        rnd = random.Random(seed)
        p = cls()
        pairs = [socket.socketpair() for _ in range(2)]
        socks = [a for a, b in pairs]
        peers = {a: b for a, b in pairs}
        for s in socks: s.setblocking(False)
        reading, writing, readable = set(), set(), set()
        src = {s: Src('chan%d' % i) for i, s in enumerate(socks)}
        hist = []
        for step in range(14):
            op = rnd.choice(OPS); s = rnd.choice(socks); hist.append((op, socks.index(s)))
            if op == 'addR' and s not in reading: p.addReader(src[s], s); reading.add(s)
            elif op == 'addW' and s not in writing: p.addWriter(src[s], s); writing.add(s)
            elif op == 'rmR': p.removeReader(s); reading.discard(s)
            elif op == 'rmW': p.removeWriter(s); writing.discard(s)
            elif op == 'discard': p.discard(s); reading.discard(s); writing.discard(s)
            elif op == 'make_readable': peers[s].send(b'x'); readable.add(s)
            elif op == 'drain':
                try:
                    s.recv(100)
                except BlockingIOError:
                    pass
                readable.discard(s)
            got = emitted(p)
            want = {('_read', s2, src[s2].channel) for s2 in reading if s2 in readable} | {('_write', s2, src[s2].channel) for s2 in writing}
            gotset = set(got)
            if gotset != want or len(got) != len(gotset):
                bad.append('%s seed %d after %r: emitted %r, expected %r' % (cls.__name__, seed, hist, sorted((n, socks.index(x), c) for n, x, c in got),
                                                                          sorted((n, socks.index(x), c) for n, x, c in want)))
                break
        for a, b in pairs: a.close(); b.close()
        if bad: break
    if bad: break
for b in bad[:4]: print(b)
if bad: print('REPRODUCED')
sys.exit(1 if bad else 0)

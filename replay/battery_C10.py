"""Replay battery for C10: sequences of add/remove reader/writer/discard on socket pairs for Select, Poll and EPoll, checked
against the model 'event emitted iff registered for that role and actually ready, addressed to the registering channel'.
exit 1 + REPRODUCED on a violation."""
import itertools, random, socket, sys, threading
from circuits.core.events import generate_events
from circuits.core import pollers

class Src:
    def __init__(self, ch): self.channel = ch

def emitted(p):
    out = []
    p.fire = lambda e, *ch: out.append((e.name, e.args[0], ch[0] if ch else None))
    ev = generate_events(threading.RLock(), 0)
    p._generate_events(ev)
    return out

bad = []
OPS = ['addR', 'addW', 'rmR', 'rmW', 'discard', 'make_readable', 'drain']
for cls in (pollers.Select, pollers.Poll, pollers.EPoll):
    for seed in range(25):
        rnd = random.Random(seed)
        p = cls()
        pairs = [socket.socketpair() for _ in range(2)]
        socks = [a for a, b in pairs]
        peers = {a: b for a, b in pairs}
        for s in socks: s.setblocking(False)
        reading, writing, readable = set(), set(), set()
        src = {s: Src('chan%d' % i) for i, s in enumerate(socks)}
        hist = []
        for step in range(14):
            op = rnd.choice(OPS); s = rnd.choice(socks); hist.append((op, socks.index(s)))
            if op == 'addR' and s not in reading: p.addReader(src[s], s); reading.add(s)
            elif op == 'addW' and s not in writing: p.addWriter(src[s], s); writing.add(s)
            elif op == 'rmR': p.removeReader(s); reading.discard(s)
            elif op == 'rmW': p.removeWriter(s); writing.discard(s)
            elif op == 'discard': p.discard(s); reading.discard(s); writing.discard(s)
            elif op == 'make_readable': peers[s].send(b'x'); readable.add(s)
            elif op == 'drain':
                try:
                    s.recv(100)
                except BlockingIOError:
                    pass
                readable.discard(s)
            got = emitted(p)
            want = {('_read', s2, src[s2].channel) for s2 in reading if s2 in readable} | {('_write', s2, src[s2].channel) for s2 in writing}
            gotset = set(got)
            if gotset != want or len(got) != len(gotset):
                bad.append('%s seed %d after %r: emitted %r, expected %r' % (cls.__name__, seed, hist, sorted((n, socks.index(x), c) for n, x, c in got),
                                                                          sorted((n, socks.index(x), c) for n, x, c in want)))
                break
        for a, b in pairs: a.close(); b.close()
        if bad: break
    if bad: break

# ---- descriptor-number re-use: a descriptor goes away (peer hang-up handled by the poller itself, plain discard, or a close the
# poller is not told about), its number is taken by a NEW descriptor registered for the same or other roles: the new descriptor
# must be reported when ready (it is writable at once), addressed to its own channel, and the old object must never be reported.
def reuse_scenarios():
    for cls in (pollers.Select, pollers.Poll, pollers.EPoll):
        for roles0 in ('W', 'R', 'RW'):
            for how in ('hangup', 'discard', 'close_untold'):
                for roles1 in ('W', 'RW'):
                    yield cls, roles0, how, roles1

for cls, roles0, how, roles1 in ([] if bad else reuse_scenarios()):
    p = cls()
    a, b = socket.socketpair()
    a.setblocking(False)
    src_a = Src('old')
    if 'R' in roles0: p.addReader(src_a, a)
    if 'W' in roles0: p.addWriter(src_a, a)
    emitted(p)
    num = a.fileno()
    if how == 'hangup':
        b.close()
        first = emitted(p)
        # what the socket layer does on _disconnect / EOF: drop whatever is still registered, then close
        p.discard(a)
    elif how == 'discard':
        p.discard(a)
    if how == 'close_untold' and cls is pollers.Select:
        p.discard(a)      # select() itself raises on a closed descriptor; Select users must discard before closing
    if how != 'close_untold' and any(v is a for v in getattr(p, '_map', {}).values()):
        bad.append('%s: after %s the poller still maps a number to the discarded descriptor (old roles %s): state retained for a '
                   'descriptor that is gone' % (cls.__name__, how, roles0))
    a.close()
    if how != 'hangup':
        b.close()
    # obtain a new descriptor with the same number
    keep, c, d = [], None, None
    for _ in range(64):
        x, y = socket.socketpair()
        if x.fileno() == num:
            c, d = x, y
            break
        if y.fileno() == num:
            c, d = y, x
            break
        keep += [x, y]
    for k in keep: k.close()
    if c is None:
        continue
    c.setblocking(False)
    src_c = Src('new')
    if how == 'close_untold' and cls is not pollers.Select:
        p.discard(a)      # late clean-up of the stale object, as sockets.py does when it finally notices
    if 'R' in roles1: p.addReader(src_c, c)
    if 'W' in roles1: p.addWriter(src_c, c)
    got = emitted(p)
    if ('_write', c, 'new') not in got or any(x is a for _, x, _ in got):
        bad.append('%s: descriptor number %d re-used after %s (old roles %s, new roles %s): new descriptor registered for writing and '
                   'writable, emitted %r' % (cls.__name__, num, how, roles0, roles1, [(n, 'old' if x is a else 'new', ch) for n, x, ch in got]))
    p.discard(c); c.close(); d.close()
print('registration histories under Select/Poll/EPoll incl. descriptor-number reuse, against a set model: %d violating' % len(bad))
for b in bad[:4]: print(b)
if bad: print('REPRODUCED')
sys.exit(1 if bad else 0)

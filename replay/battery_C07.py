"""Replay battery for C07 (used when a failed obligation has no specific counter-example adapter): seeded random histories of
register / unregister / fire / tick over a pool of components, checked against the forest oracle on the real code.
exit 1 + REPRODUCED when some history violates the property."""
import random, sys
from circuits import Component, Event, handler
SEED = int(sys.argv[1]) if len(sys.argv) > 1 else 0

class ping(Event):
    pass

log = []
seen_ev = set()
keep = []
class Node(Component):
    def __init__(self, name):
        super().__init__()
        self.nm = name
    def registered(self, event, c, p):
        if id(event) not in seen_ev:
            seen_ev.add(id(event)); keep.append(event); log.append(('registered', getattr(c, 'nm', '?'), getattr(p, 'nm', '?')))
    def unregistered(self, event, c, p):
        if id(event) not in seen_ev:
            seen_ev.add(id(event)); keep.append(event); log.append(('unregistered', getattr(c, 'nm', '?'), getattr(p, 'nm', '?')))
    def ping(self, who):
        log.append(('ping', self.nm, who))

def subtree(c):
    out = [c]
    for k in c.components:
        out += subtree(k)
    return out

def check(pool, where):
    bad = []
    for c in pool:
        if c.parent is not c and c not in c.parent.components: bad.append('%s: parent %s does not list it' % (c.nm, c.parent.nm))
        for k in c.components:
            if k.parent is not c: bad.append('%s lists %s whose parent is %s' % (c.nm, k.nm, k.parent.nm))
        top = c
        n = 0
        while top.parent is not top and n < 50: top = top.parent; n += 1
        if n >= 50: bad.append('cycle above %s' % c.nm)
        elif c.root is not top: bad.append('%s.root is %s but the top of its tree is %s' % (c.nm, c.root.nm, top.nm))
    return ['%s: %s' % (where, b) for b in bad]

def run(seed):
    rnd = random.Random(seed)
    del log[:]
    pool = [Node('n%d' % i) for i in range(5)]
    problems = []
    expected_reg = expected_unreg = 0
    pending = set()
    for step in range(40):
        op = rnd.choice(['reg', 'reg', 'unreg', 'tick', 'fire'])
        c = rnd.choice(pool)
        if op == 'reg':
            p = rnd.choice(pool)
            if c.parent is c and c not in pending and p not in subtree(c):
                # events queued on c before it is registered must be dispatched by the new root
                c.fire(ping('queued-on-%s-before-register-%d' % (c.nm, step)))
                c.register(p); expected_reg += 1
        elif op == 'unreg':
            if c.parent is not c and c not in pending:
                c.unregister(); pending.add(c)
        elif op == 'fire':
            c.fire(ping('step%d' % step))
        else:
            for r in {x.root for x in pool}:
                for _ in range(6): r.tick()
            done = {x for x in pending if x.parent is x}
            expected_unreg += len(done)
            pending -= done
        problems += check(pool, 'seed %d step %d after %s(%s)' % (seed, step, op, c.nm))
        if problems: return problems
    for r in {x.root for x in pool}:
        for _ in range(10): r.tick()
    expected_unreg += len({x for x in pending if x.parent is x})
    problems += check(pool, 'seed %d end' % seed)
    nreg = len([l for l in log if l[0] == 'registered']); nun = len([l for l in log if l[0] == 'unregistered'])
    if nreg != expected_reg: problems.append('seed %d: %d registrations but %d registered events' % (seed, expected_reg, nreg))
    if nun != expected_unreg: problems.append('seed %d: %d unregistrations completed but %d unregistered events' % (seed, expected_unreg, nun))
    queued = [l for l in log if l[0] == 'ping' and 'queued-on' in l[2]]
    want = {l[2] for l in queued}
    fired_q = {('queued-on-%s-before-register-%d' % (n, s)) for n in [p.nm for p in pool] for s in range(40)}
    return problems

bad = []
for s in range(SEED, SEED + 60):
    bad += run(s)
    if bad: break
# events queued before registration are not lost: targeted scenario (nested parent)
del log[:]
a, b, c = Node('a'), Node('b'), Node('c')
b.register(a)
for _ in range(3): a.tick()
c.fire(ping('early'))
c.register(b)
for _ in range(6): a.tick()
if not [l for l in log if l[0] == 'ping' and l[2] == 'early']:
    bad.append('event queued on c before c.register(b) (b nested under a) was never dispatched')
if not [l for l in log if l == ('registered', 'c', 'b')]:
    bad.append('registered(c, b) was not delivered')
print('random register/unregister histories (60 seeds) against a forest model + hand-written scenarios: %d violating' % len(bad))
for b_ in bad[:6]: print(b_)
if bad: print('REPRODUCED')
sys.exit(1 if bad else 0)

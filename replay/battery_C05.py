"""Replay battery for C04 (results, feedback events, error isolation) and C05 (complete fires once, after the causal closure):
every program of 1-3 handlers for one event drawn from {return value, return None, raise Exception, raise a BaseException that is
not an Exception, raise KeyboardInterrupt / SystemExit() (mapped to stop(): no result, no error), generator yielding a value, generator raising after its first yield, fire a child event (which may itself fire a
grandchild, be cancelled, or raise)}, with every combination of the success / failure / complete flags, driven by tick() on the
real code.  Oracle from the statements: results in handler order (one -> the value, several -> list), one `exception` (and one
`<name>_failure` iff requested) per raising handler with the remaining handlers still run, `<name>_success` once iff requested and
nothing raised, `<name>_complete` exactly once iff requested and only after every descendant event has been dispatched or cancelled.
exit 1 + REPRODUCED on a violation."""
import itertools, sys
from circuits import Component, Event, handler


class Boom(BaseException):
    pass


KINDS = ['ret', 'none', 'raise', 'raise_base', 'gen', 'gen_raise', 'child', 'child_cancelled', 'child_raises', 'child_complete', 'falsy',
         'kbint', 'sysexit']      # interrupted handlers: mapped to stop() (a no-op here: tick-driven manager), they have no result


def build(kinds, flags):
    log = []

    class work(Event):
        success, failure, complete = flags

    class sub(Event):
        pass

    class subsub(Event):
        pass

    class subc(Event):        # a descendant that asks for completion tracking itself
        complete = True

    class App(Component):
        def sub(self, mode):
            log.append(('sub', mode))
            if mode == 'child_raises':
                raise ValueError('child failed')
            self.fire(subsub())

        def subsub(self):
            log.append(('subsub',))

        def subc(self, mode):
            log.append(('sub', mode))
            self.fire(subsub())

        def work_success(self, e, v):
            log.append(('success', v))

        def work_failure(self, e, err):
            log.append(('failure', err[0].__name__))

        def work_complete(self, e, v):
            log.append(('complete', sum(1 for l in log if l[0] in ('sub', 'subsub'))))

        def exception(self, etype, evalue, tb, handler=None, fevent=None):
            log.append(('exception', etype.__name__, getattr(fevent, 'name', None)))

    app = App()

    def mk(i, kind):
        def h(self, *a):
            log.append(('handler', i))
            if kind == 'ret':
                return 'v%d' % i
            if kind == 'falsy':
                return 0
            if kind == 'raise':
                raise ValueError('h%d' % i)
            if kind == 'raise_base':
                raise Boom('h%d' % i)
            if kind == 'kbint':
                raise KeyboardInterrupt
            if kind == 'sysexit':
                raise SystemExit
            if kind in ('gen', 'gen_raise'):
                def g():
                    yield None
                    if kind == 'gen_raise':
                        raise KeyError('g%d' % i)
                    yield 'g%d' % i
                return g()
            if kind.startswith('child'):
                e = subc(kind) if kind == 'child_complete' else sub(kind)
                self.fire(e)
                if kind == 'child_cancelled':
                    e.cancel()
            return None
        return handler('work', priority=10 - i)(h)

    for i, k in enumerate(kinds):
        app.addHandler(mk(i, k))
    return app, work, log


def expected_children(kinds):
    n = 0
    for k in kinds:
        if k in ('child', 'child_complete'):
            n += 2           # sub + subsub
        elif k == 'child_raises':
            n += 1           # sub only (raises before firing)
    return n


bad = []
n = 0
for size in (1, 2, 3):
    for kinds in itertools.product(KINDS, repeat=size):
        if size == 3 and len(set(kinds)) < 2:
            continue
        for flags in itertools.product((False, True), repeat=3):
            if size == 3 and flags not in ((True, True, True), (True, False, True)):
                continue
            n += 1
            app, work, log = build(kinds, flags)
            e = work()
            v = app.fire(e)
            try:
                for _ in range(14):
                    app.tick()
            except BaseException as x:
                bad.append('%s flags=%s: %r escaped from tick()' % (kinds, flags, x))
                continue
            pr = []
            ran = [l[1] for l in log if l[0] == 'handler']
            if ran != list(range(size)):
                pr.append('handlers run %r, expected each of %d once in priority order' % (ran, size))
            raising = [k for k in kinds if k in ('raise', 'raise_base', 'gen_raise')]
            sync_vals = ['v%d' % i if k == 'ret' else 0 for i, k in enumerate(kinds) if k in ('ret', 'falsy')]
            gen_vals = ['g%d' % i for i, k in enumerate(kinds) if k == 'gen']
            nexc = len([l for l in log if l[0] == 'exception' and l[2] == 'work'])
            if nexc != len(raising):
                pr.append('%d exception events for the event, %d handlers raised' % (nexc, len(raising)))
            nfail = len([l for l in log if l[0] == 'failure'])
            if nfail != (len(raising) if flags[1] else 0):
                pr.append('%d work_failure events, expected %d' % (nfail, len(raising) if flags[1] else 0))
            nsucc = len([l for l in log if l[0] == 'success'])
            want_succ = 1 if (flags[0] and not raising) else 0
            if nsucc != want_succ:
                pr.append('work_success fired %d times, expected %d' % (nsucc, want_succ))
            if bool(v.errors) != bool(raising):
                pr.append('errors flag %r with %d raising handlers' % (v.errors, len(raising)))
            if not raising:
                vals = sync_vals + gen_vals
                want = None if not vals else (vals[0] if len(vals) == 1 else vals)
                got = v.value
                if isinstance(got, list) and isinstance(want, list):
                    ok = sorted(map(str, got)) == sorted(map(str, want)) and [x for x in got if x in sync_vals] == sync_vals
                else:
                    ok = got == want
                if not ok:
                    pr.append('value %r, expected %r' % (got, want))
            comps = [l for l in log if l[0] == 'complete']
            if len(comps) != (1 if flags[2] else 0):
                pr.append('work_complete fired %d times, expected %d' % (len(comps), 1 if flags[2] else 0))
            elif comps and comps[0][1] != expected_children(kinds):
                pr.append('work_complete fired after %d of %d descendant events had been dispatched' % (comps[0][1], expected_children(kinds)))
            if app._tasks:
                pr.append('%d tasks left' % len(app._tasks))
            if pr:
                bad.append('handlers %s success/failure/complete=%s: %s' % (list(kinds), flags, '; '.join(pr[:3])))
print('%d programs, %d violating' % (n, len(bad)))
for b in bad[:6]:
    print(b)
if bad:
    print('REPRODUCED')
sys.exit(1 if bad else 0)

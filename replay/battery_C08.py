"""Replay battery for C08: programs of handlers around a stop() placed in `started`, mid-chain, or in a generator step, with and
without an exit code (stop(code), raise SystemExit(code)), chains of follow-up events of depth 0..8 fired around the stop, two
run/stop cycles on the same manager; run() executes in this thread.
Oracle (from the property): `started` once and `stopped` once per cycle, every chained event dispatched before run() returns,
queue empty at return, the exit code reaches the caller of run() (SystemExit(code)), none without a code.
exit 1 + REPRODUCED on a violation."""
import itertools, sys
from circuits import Component, Event


class kick(Event):
    pass


class step(Event):
    pass


def build(where, how, code, depth):
    log = []

    class App(Component):
        def started(self, *a):
            log.append('started')
            if where == 'started':
                return self._stop()
            self.fire(kick())

        def kick(self):
            log.append('kick')
            if where == 'handler':
                return self._stop()
            return self._gen()

        def _gen(self):
            yield None
            self._stop()
            yield None

        def _stop(self):
            if depth:
                self.fire(step(1))
            if how == 'stop':
                self.stop(code) if code is not None else self.stop()
            else:
                raise SystemExit(code)

        def step(self, n):
            log.append('step%d' % n)
            if n < depth:
                self.fire(step(n + 1))

        def stopped(self, *a):
            log.append('stopped')

    return App(), log


bad = []
n = 0
for where, how, code, depth in itertools.product(('started', 'handler', 'generator'), ('stop', 'sysexit'), (None, 0, 3, 'msg'), (0, 1, 4, 5, 8)):
    n += 1
    app, log = build(where, how, code, depth)
    problems = []
    for cycle in (1, 2):
        del log[:]
        got = 'returned'
        try:
            app.run()
        except SystemExit as e:
            got = ('SystemExit', e.code)
        except BaseException as e:
            got = ('raised', type(e).__name__, str(e)[:80])
        want = 'returned' if code is None else ('SystemExit', code)
        if got != want:
            problems.append('cycle %d: run() %s, expected %s' % (cycle, got, want))
        if log.count('started') != 1 or log.count('stopped') != 1:
            problems.append('cycle %d: started x%d, stopped x%d' % (cycle, log.count('started'), log.count('stopped')))
        missing = [i for i in range(1, depth + 1) if 'step%d' % i not in log]
        if missing:
            problems.append('cycle %d: chained events never dispatched: %s' % (cycle, ['step%d' % i for i in missing]))
        if len(app._queue):
            problems.append('cycle %d: %d events still queued when run() returned' % (cycle, len(app._queue)))
        if app.running:
            problems.append('cycle %d: still running after run() returned' % cycle)
    if problems:
        bad.append('stop in %s via %s, code=%r, chain depth %d: %s' % (where, how, code, depth, '; '.join(problems[:3])))
print('%d programs, %d violating' % (n, len(bad)))
for b in bad[:6]:
    print(b)
if bad:
    print('REPRODUCED')
sys.exit(1 if bad else 0)

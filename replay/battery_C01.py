"""Replay battery for C01: component forests with named / catch-all / global handlers on several channels, and histories of
addHandler / removeHandler / register / unregister interleaved with fires, compared with the spec set on the real code.
exit 1 + REPRODUCED on a violation."""
import itertools, random, sys
from circuits import BaseComponent, Component, Event, handler

class hello(Event): pass
class other(Event): pass

calls = []
def mk(name, channel, names=('hello',), hchannel=None):
    class C(BaseComponent):
        pass
    C.channel = channel
    c = C()
    c.nm = name
    def h(self, *a):
        calls.append(name)
    h.__name__ = 'h_' + name
    kw = {} if hchannel is None else {'channel': hchannel}
    c.addHandler(handler(*names, **kw)(h))
    return c

def expected(root, evname, channel):
    out = []
    def walk(c):
        for nm, hs in c._handlers.items():
            for h in hs:
                if not h.__name__.startswith('h_'): continue
                if nm not in ('*', evname): continue
                hc = h.channel if h.channel is not None else c.channel
                if channel == '*' or hc in ('*', channel) or channel is c:
                    out.append(h.__name__[2:])
        for h in c._globals:
            if h.__name__.startswith('h_'): out.append(h.__name__[2:])
        for k in c.components: walk(k)
    walk(root)
    return sorted(out)

def fire_and_collect(root, ev, channel):
    del calls[:]
    root.fire(ev, channel)
    for _ in range(4): root.flush()
    return sorted(calls)

bad = []
dyn = {}
for seed in range(120):
    rnd = random.Random(seed)
    pool = [mk('c%d' % i, rnd.choice(['x', 'y', '*']), names=rnd.choice([('hello',), ('other',), ('hello', 'other'), ()]),
               hchannel=rnd.choice([None, None, 'x', '*'])) for i in range(5)]
    root = pool[0]
    pend = set()
    for step in range(16):
        op = rnd.choice(['reg', 'reg', 'unreg', 'fire', 'fire', 'fire', 'addh', 'addh', 'rmh', 'tick'])
        c = rnd.choice(pool[1:])
        if op == 'reg':
            p = rnd.choice(pool)
            def sub(x): return [x] + [y for k in x.components for y in sub(k)]
            if c.parent is c and c not in pend and p not in sub(c): c.register(p)
        elif op == 'unreg':
            if c.parent is not c and c not in pend: c.unregister(); pend.add(c)
        elif op == 'tick':
            for r in {x.root for x in pool}:
                for _ in range(6): r.flush()
            pend = {x for x in pend if x.parent is not x}
        elif op == 'addh':
            # dynamically added handlers: named, for several names, for all events by the name '*', catch-all (no names), with or
            # without a channel of their own - added while the cache may be warm for the same event
            tag = c.nm + '+%d' % step
            def h2(self, *a, _t=tag): calls.append(_t)
            h2.__name__ = 'h_' + tag
            names = rnd.choice([('hello',), ('other',), ('*',), ('*',), (), ('hello', 'other')])
            kw = rnd.choice([{}, {}, {'channel': 'x'}, {'channel': '*'}])
            m = c.addHandler(handler(*names, **kw)(h2))
            dyn.setdefault((seed, c.nm), []).append((m, names))
        elif op == 'rmh':
            hs = dyn.get((seed, c.nm))
            if hs:
                m, names = hs.pop(rnd.randrange(len(hs)))
                if names and names != ('*',) and rnd.random() < 0.5:
                    for nm_ in names: c.removeHandler(m, nm_)
                else:
                    c.removeHandler(m)
        else:
            r = rnd.choice(pool).root
            for _ in range(6): r.flush()
            chan = rnd.choice(['x', 'y', '*', r])
            evc = rnd.choice([hello, other])
            exp = expected(r, evc.__name__, chan)
            got = fire_and_collect(r, evc(), chan)
            if got != exp:
                bad.append('seed %d step %d: fire %s on %r at root %s: handlers called %r, expected %r' % (seed, step, evc.__name__, getattr(chan, 'nm', chan), r.nm, got, exp))
                break
    if bad: break
print('random register/unregister/addHandler/removeHandler histories (120 seeds; dynamic handlers named, multi-name, "*", catch-all, removed again) with a set-model oracle: %d violating' % len(bad))
for b in bad[:4]: print(b)
if bad: print('REPRODUCED')
sys.exit(1 if bad else 0)

"""Replay for the call-id obligations of Protocol.send (C19): several calls in flight on one connection, and on two connections of
one process; every answer must reach the waiting call it answers - and only that one.  exit 1 when a result is misrouted / lost."""
import json, sys
from circuits import Event, Manager
from circuits.core import Value
from circuits.node.protocol import Protocol, DELIMITER
from circuits.node.utils import dump_value


class call(Event):
    pass


bad = []
sent = {}


def mkproto(m, sock):
    p = Protocol(sock=sock, server=object()).register(m)
    sent[sock] = []
    orig_fire = p.fire
    def fire(e, *ch, **kw):
        if e.name == 'write':
            sent[sock].append(e.args[-1])
            return None
        return orig_fire(e, *ch, **kw)
    p.fire = fire
    return p


def start(p, sock, ev):
    g = p.send(ev)
    next(g)
    pkt = sent[sock][-1]
    cid = json.loads(pkt[:-len(DELIMITER)].decode())['id']
    return g, cid


def answer(p, m, ev, cid, result):
    v = Value(ev, m)
    v.value = result
    v.node_call_id = cid
    v.errors = False
    p.add_buffer(dump_value(v).encode() + DELIMITER)


def finished(ev):
    return getattr(ev, 'remote_finish', False)


def result(ev):
    return getattr(getattr(ev, 'value', None), 'value', None)


# 1. one connection: a, b in flight; a answered and collected; c sent while b still waits; c and b answered
m = Manager()
p = mkproto(m, 's1')
a, b, c = call('a'), call('b'), call('c')
ga, ia = start(p, 's1', a)
gb, ib = start(p, 's1', b)
if ia == ib:
    bad.append('calls a and b in flight on one connection share the call id %r' % ia)
answer(p, m, a, ia, 'ra')
try:
    while True:
        next(ga)
except StopIteration:
    pass
gc, ic = start(p, 's1', c)
if ic == ib:
    bad.append('call c was sent under id %r while call b is still waiting under it' % ic)
answer(p, m, c, ic, 'rc')
if finished(b) and not finished(c):
    bad.append('the answer to call c finished call b (result %r); c still waits' % (result(b),))
if finished(c) and result(c) != 'rc':
    bad.append('call c got result %r instead of rc' % (result(c),))
answer(p, m, b, ib, 'rb')
for ev, want in ((a, 'ra'), (b, 'rb'), (c, 'rc')):
    if not finished(ev) or result(ev) != want:
        bad.append('call %s: finished=%r result=%r, expected result %r' % (ev.args[0], finished(ev), result(ev), want))
# 2. two connections of one process, one call each, the first answered
m2 = Manager()
p1, p2 = mkproto(m2, 't1'), mkproto(m2, 't2')
e1, e2 = call('one'), call('two')
g1, i1 = start(p1, 't1', e1)
g2, i2 = start(p2, 't2', e2)
answer(p1, m2, e1, i1, 'r1')
if finished(e2) or not finished(e1) or result(e1) != 'r1':
    bad.append('two connections: the answer on connection 1 finished call one=%r (result %r), call two (connection 2)=%r (result %r)'
               % (finished(e1), result(e1), finished(e2), result(e2)))
for b_ in bad:
    print(b_)
sys.exit(1 if bad else 0)

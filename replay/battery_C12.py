"""Replay battery for C12 (and the residue clause of C10): a TCPServer under Select, Poll and EPoll, stepped by hand, serves
several loopback connections with different endings (orderly close after two sends, half-close, reset via SO_LINGER 0, server-side
close with a late write and a late close to the dead socket, fatal send error).  Oracle: per connection exactly one connect, the
bytes in order, exactly one disconnect, nothing afterwards; at quiescence the server (_clients, _buffers, _closeq) and the poller
(_read, _write, _targets, _map) hold nothing for any connection that is gone.  exit 1 + REPRODUCED on a violation."""
import socket, struct, sys, time
from circuits import Component, handler
from circuits.core import pollers
from circuits.net.sockets import TCPServer
from circuits.net.events import write, close


class Log(Component):
    channel = 'server'

    def init(self):
        self.events = []

    def connect(self, sock, *a):
        self.events.append(('connect', sock))

    def read(self, sock, data):
        self.events.append(('read', sock, data))

    def disconnect(self, sock):
        self.events.append(('disconnect', sock))


def pump(m, n=6):
    for _ in range(n):
        m.tick(0.02)


def scenario(Poller):
    problems = []
    m = Log()
    srv = TCPServer(('127.0.0.1', 0), channel='server').register(m)
    poller = Poller().register(m)
    m._running = True            # tick() then asks the pollers for events
    pump(m, 4)
    addr = srv._sock.getsockname()
    conns = {}
    peers = []
    for name in ('orderly', 'halfclose', 'reset', 'server_closes', 'late_ops'):
        c = socket.create_connection(addr)
        pump(m, 4)
        ss = [e[1] for e in m.events if e[0] == 'connect' and e[1] not in conns.values()]
        if len(ss) != 1:
            problems.append('%s: %d connect events for one connection' % (name, len(ss)))
            continue
        conns[name] = ss[0]
        peers.append((name, c))
    for name, c in peers:
        if name == 'orderly':
            c.sendall(b'one'); pump(m, 3); c.sendall(b'two'); pump(m, 3); c.close()
        elif name == 'halfclose':
            c.sendall(b'half'); c.shutdown(socket.SHUT_WR); pump(m, 4); c.close()
        elif name == 'reset':
            c.sendall(b'rst'); pump(m, 3)
            c.setsockopt(socket.SOL_SOCKET, socket.SO_LINGER, struct.pack('ii', 1, 0)); c.close()
        elif name == 'server_closes':
            m.fire(write(conns[name], b'bye'), 'server'); m.fire(close(conns[name]), 'server'); pump(m, 6)
            try:
                c.recv(100)
            except OSError:
                pass
            c.close()
        elif name == 'late_ops':
            c.close(); pump(m, 6)
            m.fire(write(conns[name], b'late'), 'server'); m.fire(close(conns[name]), 'server')
        pump(m, 8)
    pump(m, 10)
    for name, s in conns.items():
        evs = [e for e in m.events if e[1] is s]
        kinds = [e[0] for e in evs]
        if kinds.count('connect') != 1 or kinds.count('disconnect') != 1 or kinds[0] != 'connect' or kinds[-1] != 'disconnect':
            problems.append('%s: event sequence %r (expected connect, read*, disconnect)' % (name, kinds))
        data = b''.join(e[2] for e in evs if e[0] == 'read')
        want = {'orderly': b'onetwo', 'halfclose': b'half', 'reset': b'rst'}.get(name, b'')
        if name in ('orderly', 'halfclose') and data != want:
            problems.append('%s: bytes read %r, sent %r' % (name, data, want))
        left = []
        if s in srv._clients: left.append('server._clients')
        if s in srv._buffers: left.append('server._buffers')
        if s in srv._closeq: left.append('server._closeq')
        if s in poller._read: left.append('poller._read')
        if s in poller._write: left.append('poller._write')
        if s in poller._targets: left.append('poller._targets')
        if any(v is s for v in getattr(poller, '_map', {}).values()): left.append('poller._map')
        if left:
            problems.append('%s: state retained after its disconnect: %s' % (name, ', '.join(left)))
    m._running = False
    try:
        srv._sock.close()
    except Exception:
        pass
    return problems


bad = []
for P in (pollers.Select, pollers.Poll, pollers.EPoll):
    try:
        pr = scenario(P)
    except Exception as e:
        pr = ['scenario raised %r' % (e,)]
    bad += ['%s: %s' % (P.__name__, p) for p in pr]
print('3 pollers x 5 connections, %d problems' % len(bad))
for b in bad[:8]:
    print(b)
if bad:
    print('REPRODUCED')
sys.exit(1 if bad else 0)

"""C19: a remote event whose handler raises on the peer: the error flag must come back to the sender's waiting handler.
Two Protocol components wired back to back in one manager (writes of one are fed to add_buffer of the other)."""
import sys
from circuits import Component, Event, Manager, handler
from circuits.node.protocol import Protocol

class boom(Event): pass
class fine(Event): pass
class relay(Event): pass

class Side(Component):
    def init(self, channel=None):
        self.peer = None
        self.done = []
    def write(self, data):
        self.peer.protocol.add_buffer(data)
    @handler('relay')
    def _relay(self, e):
        v = yield self.protocol.send(e)
        self.done.append((e.name, getattr(e, 'errors', None), v))

class Remote(Component):
    channel = 'b'
    def boom(self):
        raise RuntimeError('remote failure')
    def fine(self):
        return 42

m = Manager()
a = Side(channel='a').register(m); b = Side(channel='b').register(m)
a.protocol = Protocol(channel='a').register(a); b.protocol = Protocol(channel='b').register(b)
a.peer, b.peer = b, a
Remote().register(m)
for _ in range(20): m.tick(0)
out = {}
for ev in (fine(), boom()):
    ev.channels = ('b',)
    a.fire(relay(ev), 'a')
    for _ in range(200): m.tick(0)
    out[ev.name] = (getattr(ev, 'remote_finish', False), getattr(ev, 'errors', None))
print(out, a.done)
bad = not out['fine'][0] or not out['boom'][0] or not out['boom'][1]
if not out['fine'][0]:
    print('harness problem: even the successful remote event did not come back')
    sys.exit(3)
if bad:
    print('remote handler raised, but neither a result nor an error flag came back to the sender within 200 ticks')
    print('REPRODUCED')
sys.exit(1 if bad else 0)

"""Replay battery for C02: programs of fire(priority=p) from outside and from handlers (with nested flushes) and handler
priorities / stop(), run on the real Manager and checked against the ordering oracle.  exit 1 + REPRODUCED on a violation."""
import itertools, random, sys
from circuits import Component, Event, handler

class ev(Event):
    pass

def run_program(outer, inner, nested_flush):
    """outer: list of (name, priority) fired before the flush; inner: {name: [(name, priority)]} fired by the handler of name"""
    order = []
    class App(Component):
        @handler('ev')
        def _on(self, name):
            order.append(name)
            for n, p in inner.get(name, []):
                self.fire(ev(n), priority=p)
            if nested_flush and name in inner:
                self.flush()
    app = App()
    for n, p in outer:
        app.fire(ev(n), priority=p)
    app.flush()
    first_pass = list(order)
    for _ in range(5):
        app.flush()
    return first_pass, order

bad = []
PR = [0, 1, -1, 4.5, 5]
for p1, p2, p3 in itertools.product(PR, repeat=3):
    for nested in (False, True):
        outer = [('a', p1), ('b', p2)]
        inner = {'a': [('x', p3)], 'b': []} if True else {}
        first, order = run_program(outer, inner, nested)
        # oracle: snapshot events in ascending (priority, fire order); x (fired from a handler) never before snapshot events
        snap = [n for n, p in sorted(outer, key=lambda t: (t[1], [o[0] for o in outer].index(t[0])))]
        got_snap = [n for n in order if n in ('a', 'b')]
        if got_snap != snap:
            bad.append('outer %r: dispatched %r, expected snapshot order %r' % (outer, order, snap))
        if 'x' in order and order.index('x') < max(order.index('a'), order.index('b')):
            bad.append('outer %r inner x@%r nested_flush=%r: %r - x dispatched before an event already queued when the pass began' % (outer, p3, nested, order))
        if order.count('x') != 1 or sorted(order) != ['a', 'b', 'x']:
            bad.append('outer %r: events lost or duplicated: %r' % (outer, order))
# random multi-pass programs: handlers fire SEVERAL events with different priorities (in any order, e.g. 2, 1, 0), nothing is fired
# from outside afterwards; every pass must dispatch exactly the events queued before it, ascending priority then fire order
def run_random(seed):
    rnd = random.Random(seed)
    names = iter('n%d' % i for i in range(1000))
    plan, model_q, seq, order = {}, [], [0], []
    def grow(name, depth):
        if depth >= 3:
            return
        kids = [(next(names), rnd.choice([0, 0, 1, 2, -1, 5, 0.5])) for _ in range(rnd.choice([0, 1, 2, 3, 3]))]
        plan[name] = kids
        for k, _ in kids:
            grow(k, depth + 1)
    class AppR(Component):
        @handler('ev')
        def _on(self, name):
            order.append(name)
            for n, p in plan.get(name, []):
                self.fire(ev(n), priority=p)
                seq[0] += 1
                model_q.append((p, seq[0], n))
    app = AppR()
    for _ in range(rnd.choice([1, 1, 2])):
        n, p = next(names), rnd.choice([0, 0, 0, 1])
        grow(n, 0)
        app.fire(ev(n), priority=p)
        seq[0] += 1
        model_q.append((p, seq[0], n))
    for pass_ in range(6):
        snap = [n for _, _, n in sorted(model_q)]
        del model_q[:]
        del order[:]
        app.flush()
        if order != snap:
            return 'seed %d pass %d: dispatched %r, expected %r (events queued before the pass, ascending priority then FIFO)' % (seed, pass_ + 1, order, snap)
    return None
for seed in range(200):
    r = run_random(seed)
    if r:
        bad.append(r)
        break
# handler priorities and stop()
for prios in itertools.permutations([3, 1, 2, -100.5]):
    for stop_at in (None, 0, 1, 2):
        calls = []
        class App2(Component):
            pass
        app = App2()
        for i, pr in enumerate(prios):
            def mk(i=i, pr=pr):
                def h(self, event):
                    calls.append(pr)
                    if stop_at is not None and sorted(prios, reverse=True).index(pr) == stop_at:
                        event.stop()
                h.__name__ = 'h%d' % i
                return handler('go', priority=pr)(h)
            app.addHandler(mk())
        class go(Event): pass
        app.fire(go()); app.flush()
        exp = sorted(prios, reverse=True)
        if stop_at is not None: exp = exp[:stop_at + 1]
        if calls != exp:
            bad.append('handler priorities %r stop after #%r: ran %r expected %r' % (prios, stop_at, calls, exp))
# one event fired to SEVERAL channels: the handlers of all the channels together run in descending priority, stop() cuts the rest
class Sub(Component):
    pass
for layout in itertools.permutations([(5, 'a'), (1, 'a'), (3, 'b'), (2.5, 'b'), (4, 'c')], 5):
    if layout[0][0] not in (5, 3, 4):       # sample: three different registration orders are enough per stop position
        continue
    for stop_pr in (None, 3, 4):
        calls = []
        root_ = Sub()
        comps = {ch: Sub(channel=ch).register(root_) for ch in 'abc'}
        for pr, ch in layout:
            def mk(pr=pr, ch=ch):
                def h(self, event):
                    calls.append(pr)
                    if pr == stop_pr:
                        event.stop()
                h.__name__ = 'h_%s_%s' % (ch, str(pr).replace('.', '_'))
                return handler('multi', priority=pr)(h)
            comps[ch].addHandler(mk())
        class multi(Event): pass
        while len(root_): root_.flush()
        del calls[:]
        root_.fire(multi(), 'a', 'b', 'c'); root_.flush()
        exp = sorted([pr for pr, ch in layout], reverse=True)
        if stop_pr is not None: exp = exp[:exp.index(stop_pr) + 1]
        if calls != exp:
            bad.append('event fired to channels a, b, c; handler priorities %r, stop() in %r: ran %r, expected %r' % (layout, stop_pr, calls, exp))
            break
    if bad: break
# fire() never runs a handler re-entrantly
ran = []
class App3(Component):
    def ev(self, name):
        ran.append(name)
a3 = App3()
a3.fire(ev('q'))
if ran: bad.append('fire() ran a handler')
print('queue-priority, handler-priority and stop() programs (enumerated): %d violating' % len(bad))
for b in bad[:6]: print(b)
if bad: print('REPRODUCED')
sys.exit(1 if bad else 0)

"""Replay battery for C20: the demonstrations kept with the seeded changes of this property (seeded/C20-*/demo.py, written by
independent sub-agents from the property text alone; each is a self-contained program that drives the real code through the history /
input family that property-breaking change needed and exits 1 when the statement is violated, 0 when it holds) are run against the
tree under check.  A bounded exploration, used as stand-in when the verifier cannot decide and in the thorough tier; never counted
as proved.  A demonstration counts as reproducing a violation only if it exits 1 without a Python traceback, twice in a row
(socket / thread timing under load).  exit 1 + REPRODUCED on a violation."""
import glob, os, subprocess, sys
PROP = 'C20'
here = os.path.dirname(os.path.abspath(__file__))
root = here
while root != '/' and not os.path.isdir(os.path.join(root, 'seeded')):
    root = os.path.dirname(root)
repo = os.environ.get('PYVC_REPO') or os.getcwd()


def run(demo):
    try:
        p = subprocess.run([sys.executable, demo], capture_output=True, text=True, timeout=240, cwd=repo,
                           env=dict(os.environ, PYTHONPATH=repo))
    except subprocess.TimeoutExpired:
        return None, 'timeout'
    out = (p.stdout + p.stderr).strip()
    if p.returncode == 1 and 'Traceback (most recent call last)' not in out:
        return 1, out
    return (0 if p.returncode == 0 else None), out


bad, ran = [], 0
for demo in sorted(glob.glob(os.path.join(root, 'seeded', PROP + '-*', 'demo.py'))):
    if os.path.basename(os.path.dirname(demo)) in os.environ.get('PYVC_BATTERY_EXCLUDE', '').split(','):
        continue                          # evaluating that very seeded change: its own demonstration must not be what catches it
    rc, out = run(demo)
    if rc == 1:
        rc, out = run(demo)               # once more: timing
    if rc is None:
        continue                          # the demonstration does not run on this tree (tied to its own checkout, or timed out)
    ran += 1
    if rc == 1:
        bad.append('%s: %s' % (os.path.basename(os.path.dirname(demo)), ' | '.join(out.splitlines()[-3:])[:400]))
print('%d demonstrations of %s run on the real code, %d violating' % (ran, PROP, len(bad)))
for b in bad[:5]:
    print(b)
if bad:
    print('REPRODUCED')
sys.exit(1 if bad else 0)

"""Replay battery for C17: WebSocket frame streams built by an INDEPENDENT RFC 6455 encoder (masked and unmasked, the three length
forms, empty payloads, fragmented messages with control frames in between, text and binary, close), delivered to the real
WebSocketCodec._parse_messages in one piece, with every 2-way cut and byte-at-a-time; plus encode -> decode round trips through
_encode_tail.  Oracle: the decoded messages and the pongs written equal those of the reference decoder, for every segmentation;
no exception escapes.  exit 1 + REPRODUCED on a violation."""
import itertools, os, struct, sys
from circuits.protocols.websocket import WebSocketCodec


def frame(opcode, payload, fin=True, mask=None):
    b0 = (0x80 if fin else 0) | opcode
    n = len(payload)
    out = bytearray([b0])
    m = 0x80 if mask is not None else 0
    if n < 126:
        out.append(m | n)
    elif n < 65536:
        out.append(m | 126)
        out += struct.pack('!H', n)
    else:
        out.append(m | 127)
        out += struct.pack('!Q', n)
    if mask is not None:
        out += mask
        payload = bytes(c ^ mask[i % 4] for i, c in enumerate(payload))
    out += payload
    return bytes(out)


def new_codec(written):
    c = WebSocketCodec.__new__(WebSocketCodec)
    c._sock = None
    c._pending_payload = bytearray()
    c._pending_type = None
    c._close_received = False
    c._close_sent = False
    c._buffer = bytearray()
    c.parent = c

    def fire(ev, *ch):
        written.append((ev.name, tuple(ev.args)))
        return ev
    c.fire = fire
    return c


def deliver(stream, cuts):
    written = []
    c = new_codec(written)
    msgs = []
    pos = 0
    for cut in list(cuts) + [len(stream)]:
        r = c._parse_messages(bytearray(stream[pos:cut]))
        msgs.extend(r or [])
        pos = cut
    pongs = [a for n, a in written if n == 'write']
    return [m if isinstance(m, str) else bytes(m) for m in msgs], [bytes(a[-1]) for a in pongs], bytes(c._buffer)


MASKS = [None, b'\x01\x02\x03\x04', b'\x00\x00\x00\x00', b'\xff\x80\x7f\x0a']
scenarios = []
for mask in MASKS:
    t = lambda op, p, fin=True: frame(op, p, fin, mask)   # noqa: E731
    scenarios.append(('single text', t(1, b'hello'), ['hello'], 0))
    scenarios.append(('empty text then text', t(1, b'') + t(1, b'x'), ['', 'x'], 0))
    scenarios.append(('binary 125/126/127 bytes', t(2, b'a' * 125) + t(2, b'b' * 126) + t(2, b'c' * 127), [b'a' * 125, b'b' * 126, b'c' * 127], 0))
    scenarios.append(('fragmented with ping inside', t(1, b'He', False) + t(9, b'p') + t(0, b'llo'), ['Hello'], 1))
    scenarios.append(('empty ping between messages', t(1, b'a') + t(9, b'') + t(1, b'b'), ['a', 'b'], 1))
    scenarios.append(('three fragments, empty middle', t(2, b'ab', False) + t(0, b'', False) + t(0, b'cd'), [b'abcd'], 0))
    scenarios.append(('message then close then garbage', t(1, b'bye') + t(8, b'\x03\xe8') + t(1, b'late'), ['bye'], None))
scenarios.append(('64k binary, unmasked', frame(2, b'z' * 65536), [b'z' * 65536], 0))
scenarios.append(('64k binary, masked', frame(2, b'z' * 65537, True, b'\x11\x22\x33\x44'), [b'z' * 65537], 0))

bad = []
n = 0
for name, stream, want, npongs in scenarios:
    big = len(stream) > 2000
    cutsets = [()] + [(k,) for k in (range(1, len(stream)) if not big else list(range(1, 16)) + [len(stream) - 1])]
    if not big:
        cutsets.append(tuple(range(1, len(stream))))      # byte at a time
    for cuts in cutsets:
        n += 1
        try:
            msgs, pongs, rest = deliver(stream, cuts)
        except Exception as e:
            bad.append('%s, cuts %r: %r escaped' % (name, cuts[:4], e))
            break
        if msgs != want or (npongs is not None and len(pongs) != npongs):
            bad.append('%s, delivered with cuts %r: decoded %r (pongs %d), expected %r (pongs %s)'
                       % (name, cuts[:4], [m[:12] for m in msgs], len(pongs), [w[:12] for w in want], npongs))
            break
# encode -> independent decode round trip through the real encoder
for size in (0, 1, 125, 126, 127, 65535, 65536, 70000):
    for masked in (False, True):
        c = new_codec([])
        data = bytes((i * 7 + 3) % 256 for i in range(size))
        tail = bytes(c._encode_tail(bytearray(data), masked))
        n += 1
        ln = tail[0] & 0x7f
        off = 1
        if ln == 126:
            ln = struct.unpack('!H', tail[1:3])[0]; off = 3
        elif ln == 127:
            ln = struct.unpack('!Q', tail[1:9])[0]; off = 9
        if bool(tail[0] & 0x80) != masked:
            bad.append('encode size %d masked=%r: mask bit wrong' % (size, masked)); continue
        if masked:
            key = tail[off:off + 4]; off += 4
            body = bytes(b ^ key[i % 4] for i, b in enumerate(tail[off:]))
        else:
            body = tail[off:]
        if ln != size or body != data:
            bad.append('encode size %d masked=%r: length field %d, payload equal: %r' % (size, masked, ln, body == data))
print('%d deliveries / round trips, %d violating' % (n, len(bad)))
for b in bad[:6]:
    print(b)
if bad:
    print('REPRODUCED')
sys.exit(1 if bad else 0)

"""Replay battery for C09 (timers): every set of 1-3 timers drawn from intervals {0, 0.5, 1, 1, 2.5} x {one-shot, persistent}, all
created at the same instant or one of them created later from a handler, driven by Manager.tick() on a VIRTUAL clock (time() of
circuits.core.timers and the wait of the fallback generator's threading.Event are replaced: a wait advances the clock by exactly
its timeout; every loop iteration costs 0.01 s; a sentinel timer of 1000 s keeps the idle budget finite, so an unbounded wait
is itself a violation).
Oracle (from the statement): a timer never fires before its expiry; a timer that is due at the start of a loop iteration has fired
by the end of that iteration (so every timer fires, and a persistent one again and again, while the clock runs to t0 + 6 s); a one-shot
timer fires at most once; consecutive firings of a persistent timer are at least an
interval apart; the idle wait never runs past the earliest pending expiry.
exit 1 + REPRODUCED on a violation."""
import itertools, sys
import circuits.core.timers as timers_mod
import circuits.core.helpers as helpers_mod
from circuits import Component, Event, Timer

CLOCK = [100.0]
UNBOUNDED = [False]
WAITS = [0]
timers_mod.time = lambda: CLOCK[0]


class VEvent:
    """stands in for threading.Event in the fallback generator"""

    def __init__(self):
        self._set = False

    def clear(self):
        self._set = False

    def set(self):
        self._set = True

    def is_set(self):
        return self._set

    def wait(self, timeout=None):
        WAITS[0] += 1
        if WAITS[0] > 20000:
            raise SystemExit('runaway idle loop')       # leaves tick(): reported by the scenario
        if self._set:
            return True
        if timeout is None or timeout >= 10000:
            # never legitimate here: a sentinel timer (1000 s) is always pending, so the idle budget is always finite
            UNBOUNDED[0] = True
            raise SystemExit('unbounded idle wait')
        CLOCK[0] += max(0.0, timeout)
        return False


helpers_mod.Event = VEvent


class tick_(Event):
    pass


def scenario(specs, late):
    """specs: [(interval, persist)]; late: index of a timer created from a handler at t0 + 0.75, or None"""
    CLOCK[0] = 100.0
    fired = {i: [] for i in range(len(specs))}
    timers = {}

    class App(Component):
        def make_late(self):
            mk(late)

    app = App()

    def mk(i):
        iv, persist = specs[i]
        t = Timer(iv, Event.create('t%d' % i), persist=persist)
        orig = t.fire

        def fire(e, *c, _i=i, _orig=orig, _t=t):
            if e is _t.event:                 # (the component also fires registered / prepare_unregister through this method)
                fired[_i].append(CLOCK[0])
            return _orig(e, *c)
        t.fire = fire
        t._born = CLOCK[0]
        timers[i] = t
        t.register(app)

    for i in range(len(specs)):
        if i != late:
            mk(i)
    if late is not None:
        Timer(0.75, Event.create('make_late')).register(app)
    Timer(1000.0, Event.create('sentinel'), persist=True).register(app)     # keeps every idle wait bounded; ends the run
    WAITS[0] = 0
    app._running = True
    pr = []
    it = 0
    while CLOCK[0] < 106.0 and it < 2000:
        it += 1
        CLOCK[0] += 0.01                  # every loop iteration takes a little (virtual) time even when nothing waits
        before = CLOCK[0]
        pending = {i: t.expiry for i, t in timers.items() if t.expiry is not None and t.parent is not t and not t.unregister_pending}
        nfired = {i: len(fired[i]) for i in fired}
        try:
            app.tick()
        except SystemExit as e:
            pr.append('%s with timers %s pending' % (e.code, sorted(pending)))
            break
        after = CLOCK[0]
        for i, exp in pending.items():
            if exp <= before and len(fired[i]) == nfired[i]:
                pr.append('timer %d (interval %s) was due at %.3f, the iteration starting at %.3f did not fire it' % (i, specs[i][0], exp, before))
        future = [exp for exp in pending.values() if exp > before]
        if future and after > min(future) + 1e-9:
            pr.append('idle wait ran from %.3f to %.3f, past the earliest pending expiry %.3f' % (before, after, min(future)))
        if pr:
            break
    app._running = False
    for i, (iv, persist) in enumerate(specs):
        ts = fired[i]
        if i not in timers:
            continue
        born = timers[i]._born
        if ts and ts[0] < born + iv - 1e-9:
            pr.append('timer %d fired at %.3f, before its expiry %.3f' % (i, ts[0], born + iv))
        if not persist and len(ts) > 1:
            pr.append('one-shot timer %d fired %d times' % (i, len(ts)))
        if persist:
            gaps = [b - a for a, b in zip(ts, ts[1:])]
            if gaps and any(g < iv - 1e-9 for g in gaps):
                pr.append('persistent timer %d: firings %.3f apart, interval %s' % (i, min(gaps), iv))
    return pr


bad = []
n = 0
IVS = (0, 0.5, 1, 1, 2.5)
for size in (1, 2, 3):
    for ivs in itertools.combinations(range(len(IVS)), size):
        for flags in itertools.product((False, True), repeat=size):
            specs = [(IVS[k], f) for k, f in zip(ivs, flags)]
            for late in [None] + list(range(size)):
                n += 1
                try:
                    pr = scenario(specs, late)
                except Exception as e:                       # noqa: BLE001
                    pr = ['scenario raised %r' % (e,)]
                if pr:
                    bad.append('timers %s%s: %s' % (specs, '' if late is None else ' (timer %d created later)' % late, '; '.join(pr[:2])))
print('%d timer programs, %d violating' % (n, len(bad)))
for b in bad[:6]:
    print(b)
if bad:
    print('REPRODUCED')
sys.exit(1 if bad else 0)

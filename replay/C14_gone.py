"""Replay for the C14 residue obligations of HTTP._on_response / _on_stream / _on_disconnect: connections that send something and hang
up at different moments relative to the `response` event of their message.  After the disconnect has been handled and the loop has
drained, no attribute of the HTTP component (dict, set, list, ... created by whatever the constructor creates) may still mention the
socket.  exit 1 when one does."""
import sys
from circuits import Component, handler
from circuits.net.events import read, disconnect
from circuits.web.http import HTTP


class FakeServer(Component):
    channel = 'web'
    secure, host, port, display_banner = False, '127.0.0.1', 8000, False


class Sock:
    def __init__(self, n): self.n = n
    def getpeername(self): return ('127.0.0.1', 40000 + self.n)
    def __repr__(self): return '<sock %d>' % self.n


class App(Component):
    channel = 'web'

    @handler('request', priority=0.1)
    def _on_request(self, event, req, res):
        return 'hello'


def mentions(http, sock):
    out = []
    for k, v in vars(http).items():
        try:
            if isinstance(v, dict) and sock in v or isinstance(v, (set, list, tuple, frozenset)) and sock in v:
                out.append(k)
        except TypeError:
            pass
    return out


INPUTS = [b'GET / HTTP/1.1\r\nHost: x\r\n\r\n', b'GET / HTTP/1.0\r\n\r\n', b'\x00\x01garbage\r\n\r\n', b'GET / HTTP/1.1\r\n\r\n',
          b'GET /a/../b HTTP/1.1\r\nHost: x\r\n\r\n', b'GET / HTTP/9.9\r\nHost: x\r\n\r\n', b'GET / HTTP/1.1\r\nHost: x']
bad = []
n = 0
for data in INPUTS:
    for ticks_before_hangup in range(0, 6):
        n += 1
        srv = FakeServer()
        http = HTTP(srv).register(srv)
        App().register(srv)
        for _ in range(5):
            srv.tick() if hasattr(srv, 'tick') else srv.flush()
        s = Sock(n)
        srv.fire(read(s, data), 'web')
        for _ in range(ticks_before_hangup):
            srv.flush()
        srv.fire(disconnect(s), 'web')
        for _ in range(30):
            srv.flush()
        left = mentions(http, s)
        if left:
            bad.append('%r, hang-up after %d loop passes: HTTP.%s still mention(s) the disconnected socket' % (data[:30], ticks_before_hangup, ', HTTP.'.join(left)))
for b in bad[:8]:
    print(b)
sys.exit(1 if bad else 0)

"""Replay battery for C06: small call()/wait() programs driven deterministically by tick(0) on the real code.
Oracle (from the property): the suspended caller is resumed exactly once, with the callee's result or - no earlier than after
`timeout` loop iterations - with TimeoutError; the caller's own event then finishes (success/complete once each, value as if run
synchronously); at quiescence no task and no temporary handler remains and no internal error was reported.
exit 1 + REPRODUCED on a violation."""
import itertools, sys
from circuits import Component, Event, handler


class outer(Event):
    success = True
    complete = True


class inner(Event):
    pass


class third(Event):
    pass


def build(mode, timeout, callee, payload):
    log = []

    class App(Component):
        def outer(self, tag):
            log.append(('start', tag))
            kw = {} if timeout is None else {'timeout': timeout}
            try:
                if mode == 'call':
                    x = yield self.call(inner(tag), **kw)
                elif mode == 'wait_obj':
                    e = inner(tag)
                    self.fire(e)
                    x = yield self.wait(e, **kw)
                elif mode == 'wait_never':
                    x = yield self.wait('never_fired', **kw)
                else:
                    self.fire(inner(tag))
                    x = yield self.wait('inner', **kw)
                log.append(('resumed', tag, getattr(x, 'value', x), bool(getattr(x, 'errors', False))))
            except Exception as e:
                if type(e).__name__ != 'TimeoutError':
                    raise
                log.append(('timeout', tag, self.ticks))
            yield payload

        def inner(self, tag):
            if callee == 'sync':
                return 'r-%s' % tag
            if callee == 'raise':
                raise ValueError('boom')
            if callee.startswith('gen'):
                return self._gen(tag, int(callee[3:]))
            if callee == 'gen_raise':
                return self._gen_raise()
            if callee == 'nested':
                return self._nested(tag)

        def _gen(self, tag, k):
            for _ in range(k):
                yield None
            yield 'r-%s' % tag

        def _gen_raise(self):
            yield None
            raise ValueError('late boom')

        def _nested(self, tag):
            v = yield self.call(third(tag))
            yield 'r-%s' % v.value

        def third(self, tag):
            return tag

        def outer_success(self, e, v):
            log.append(('success', e.args[0], v))

        def outer_complete(self, e, v):
            log.append(('complete', e.args[0]))

        def exception(self, etype, evalue, tb, handler=None, fevent=None):
            log.append(('exception', etype.__name__, str(evalue)))

    return App(), log


def snapshot(app):
    return {k: len(v) for k, v in app._handlers.items() if v}


def run_one(mode, timeout, callee, payload, nroots):
    app, log = build(mode, timeout, callee, payload)
    app.ticks = 0
    before = snapshot(app)
    app._running = True
    values = [app.fire(outer('t%d' % i)) for i in range(nroots)]
    for _ in range(40):
        app.tick(0)
        app.ticks += 1
    app._running = False
    problems = []
    for i in range(nroots):
        tag = 't%d' % i
        res = [l for l in log if l[0] in ('resumed', 'timeout') and l[1] == tag]
        if len(res) != 1:
            problems.append('%s: caller resumed %d times: %r' % (tag, len(res), res))
            continue
        r = res[0]
        if r[0] == 'timeout':
            if timeout is None:
                problems.append('%s: TimeoutError without a timeout' % tag)
            elif r[2] < timeout:
                problems.append('%s: TimeoutError after %d loop iterations, timeout was %d' % (tag, r[2], timeout))
        elif mode == 'wait_never':
            problems.append('%s: resumed with a result although the awaited event was never fired' % tag)
        else:
            if callee in ('sync', 'nested') or callee.startswith('gen') and callee != 'gen_raise':
                want = 'r-%s' % tag
                if r[2] != want or r[3]:
                    problems.append('%s: resumed with %r errors=%r, callee returned %r' % (tag, r[2], r[3], want))
            if callee in ('raise', 'gen_raise') and not r[3]:
                problems.append('%s: resumed without the error flag although the callee raised (%r)' % (tag, r))
        for what in ('success', 'complete'):
            n = len([l for l in log if l[0] == what and l[1] == tag])
            if n != 1:
                problems.append('%s: outer_%s fired %d times' % (tag, what, n))
        v = values[i]
        if not (v.result and v.value == payload and not v.errors):
            problems.append('%s: root value (result=%r, value=%r, errors=%r), synchronous handler gives (True, %r, False)' % (tag, v.result, v.value, v.errors, payload))
    internal = [l for l in log if l[0] == 'exception' and l[1] not in ('ValueError',)]
    if internal:
        problems.append('internal errors reported: %r' % internal[:2])
    if callee not in ('raise', 'gen_raise') and [l for l in log if l[0] == 'exception']:
        problems.append('exception events although nothing raised: %r' % [l for l in log if l[0] == 'exception'][:2])
    if app._tasks:
        problems.append('%d tasks left at quiescence' % len(app._tasks))
    if snapshot(app) != before:
        problems.append('temporary handlers left: %r (initially %r)' % (snapshot(app), before))
    return problems


bad = []
n = 0
for mode, timeout, callee, payload, nroots in itertools.product(
        ('call', 'wait_obj', 'wait_name', 'wait_never'), (None, 0, 1, 2, 3, 5, 30), ('sync', 'gen1', 'gen3', 'raise', 'gen_raise', 'nested'), ('p', 0, ''), (1, 2)):
    if mode == 'wait_name' and nroots == 2:
        continue   # by-name waiters bind to the first matching event: two roots are ambiguous by design
    if mode == 'wait_never' and (timeout is None or callee != 'sync'):
        continue   # waiting without timeout for an event nobody fires never ends (by design); the callee plays no role
    n += 1
    try:
        pr = run_one(mode, timeout, callee, payload, nroots)
    except Exception as e:  # an exception escaping tick() is itself a violation
        pr = ['tick() raised %r' % (e,)]
    if pr:
        bad.append('mode=%s timeout=%r callee=%s payload=%r roots=%d: %s' % (mode, timeout, callee, payload, nroots, '; '.join(pr[:3])))
print('%d programs, %d violating' % (n, len(bad)))
for b in bad[:6]:
    print(b)
if bad:
    print('REPRODUCED')
sys.exit(1 if bad else 0)

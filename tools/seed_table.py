#!/usr/bin/env python3
"""Regenerate the seeded-changes table in DESIGN.md (between the BEGIN/END markers)
from seeded/*/meta.json and seeded/*/notes (first line of SEED notes if present)."""
import glob
import json
import os
import re

ROOT = os.path.dirname(os.path.dirname(os.path.abspath(__file__)))
BEGIN = '<!-- SEEDED-TABLE-BEGIN -->'
END = '<!-- SEEDED-TABLE-END -->'

EXTRA = {}
try:
    EXTRA = json.load(open(os.path.join(ROOT, 'seeded', 'strengthened.json')))
except Exception:
    pass


def catching(meta):
    chk = meta.get('check_with_change')
    if isinstance(chk, str):
        try:
            chk = eval(chk, {'__builtins__': {}}, {})
        except Exception:
            chk = {'violations': [chk]}
    chk = chk or {}
    if 'violations' not in chk:       # round-2 format: one entry per property check that was run
        vs = []
        for pr, c in chk.items():
            vs += c.get('violations', [])
        chk = {'violations': vs}
    obs = []
    for v in chk.get('violations', []):
        m = re.match(r'failed obligation: (\S+?/.+?) \[path', v)
        if m:
            o = m.group(1)
            if o not in obs:
                obs.append(o)
        elif v.startswith('undecided obligations') and 'bounded replay battery' not in obs:
            obs.append('x/undecided -> bounded replay battery')
    return chk, obs


def main():
    rows = []
    for mf in sorted(glob.glob(os.path.join(ROOT, 'seeded', '*', 'meta.json'))):
        meta = json.load(open(mf))
        name = meta['name']
        chk, obs = catching(meta)
        rc_ = meta.get('recheck')
        if rc_:
            # latest re-run of the registered check against the current tree + this change (tools/seed_recheck.py)
            _, obs2 = catching({'check_with_change': {'violations': rc_.get('failed', [])}})
            obs = obs2 or obs
            meta = dict(meta, caught=rc_['caught'])
        files = []
        try:
            for ln in open(os.path.join(os.path.dirname(mf), 'patch.diff')):
                if ln.startswith('+++ b/'):
                    files.append(ln[6:].strip())
        except Exception:
            pass
        ob = '; '.join('`%s`' % o.split('/', 1)[1] for o in obs[:3])
        if len(obs) > 3:
            ob += ' (+%d more)' % (len(obs) - 3)
        rows.append('| %s | %s | %s | %s | %s | %s |' % (
            meta['property'], name.split('-', 1)[1], ', '.join('`%s`' % f for f in files),
            'yes' if meta.get('confirmed') else 'NO',
            ('yes' if meta.get('caught') else ('n/a (no violation)' if meta.get('valid') is False else 'NO')),
            (ob or '-') + ((' — ' + EXTRA[name]) if name in EXTRA else '')))
    table = ['| prop | seeded change | file | demo confirmed | caught (exit 1) | failing obligation(s) / note |',
             '|---|---|---|---|---|---|'] + rows
    p = os.path.join(ROOT, 'DESIGN.md')
    s = open(p).read()
    block = BEGIN + '\n' + '\n'.join(table) + '\n' + END
    if BEGIN in s:
        s = re.sub(re.escape(BEGIN) + r'.*?' + re.escape(END), lambda m: block, s, flags=re.S)
    else:
        s = s.replace('SEEDED_TABLE_PLACEHOLDER', block)
    open(p, 'w').write(s)
    print('\n'.join(table))


if __name__ == '__main__':
    main()

#!/bin/sh
# offline setup: nothing to build; sanity-check the tool chain the checks rely on
set -e
cd "$(dirname "$0")/.."
python3-vt -c "import z3, sys; assert z3.get_version_string() >= '4.8', z3.get_version_string()"
python3-vt -m compileall -q pyvc contracts >/dev/null
test -x /venv/bin/python
if [ -f lemmas/Seg.lean ]; then lean lemmas/Seg.lean; fi
echo setup ok

#!/usr/bin/env python3
"""records the canonical local-variable lists of every function under contract (contracts/locals.json); run when a contract
is written or deliberately re-based on changed code.  usage: python3-vt tools/gen_locals.py"""
import ast, json, os, sys
HERE = os.path.dirname(os.path.dirname(os.path.abspath(__file__)))
sys.path.insert(0, HERE)
sys.path.insert(0, os.path.join(HERE, 'tools'))
from mutation_sweep import targets, find, REPO  # noqa: E402
from pyvc.locals_ import canonical_locals, TABLE  # noqa: E402
tg, _ = targets()
out = {}
for (file, qual) in sorted(tg):
    fn = find(ast.parse(open(os.path.join(REPO, file), encoding='utf-8').read()), qual)
    if fn is not None:
        out['%s:%s' % (file, qual)] = canonical_locals(fn)
json.dump(out, open(TABLE, 'w'), indent=0, sort_keys=True)
print('%d functions recorded in %s' % (len(out), TABLE))

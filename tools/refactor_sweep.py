#!/usr/bin/env python3
"""Refactoring sweep: semantics-preserving edits of the functions under contract must NOT raise an alarm.

For every deductive FUC the following behaviour-preserving transformations of the real function are generated, each written
to a scratch copy (never /repo) and checked with PYVC_REPO=<copy>:
  rename     one local variable (not a parameter, not global/nonlocal) renamed consistently within the function
  ifswap     `if c: A else: B`  ->  `if not c: B else: A`
  augassign  `x += e`  ->  `x = x + e`   (names only)
  pass       a `pass` statement inserted at the top of the body (shifts nothing but statement ordinals)
  comment    blank lines + a comment inserted above the function (shifts line numbers)
Expected verdict: exit 0.  Anything else is a false alarm (exit 1) or brittleness (exit 2/3) of the contracts.
usage: python3-vt tools/refactor_sweep.py [--props C01,C02] [--jobs 6] [--out refactor.json] [--only substr]
"""
import argparse, ast, json, os, random, shutil, subprocess, sys, tempfile, time
from concurrent.futures import ThreadPoolExecutor
HERE = os.path.dirname(os.path.dirname(os.path.abspath(__file__)))
sys.path.insert(0, HERE)
sys.path.insert(0, os.path.join(HERE, 'tools'))
from mutation_sweep import targets, find, REPO, run_group  # noqa: E402


def local_names(fn):
    params = {a.arg for a in fn.args.posonlyargs + fn.args.args + fn.args.kwonlyargs}
    if fn.args.vararg:
        params.add(fn.args.vararg.arg)
    if fn.args.kwarg:
        params.add(fn.args.kwarg.arg)
    stores, declared = set(), set()
    nested_uses = set()

    def walk(node, top):
        for ch in ast.iter_child_nodes(node):
            if isinstance(ch, (ast.FunctionDef, ast.Lambda, ast.ClassDef)):
                for n in ast.walk(ch):
                    if isinstance(n, ast.Name):
                        nested_uses.add(n.id)
                if isinstance(ch, ast.FunctionDef):
                    stores.add(ch.name)
                    nested_uses.add(ch.name)     # keep closure names as they are (FUC lookup is by name)
                continue
            if isinstance(ch, (ast.Global, ast.Nonlocal)):
                declared.update(ch.names)
            if isinstance(ch, ast.Name) and isinstance(ch.ctx, (ast.Store, ast.Del)):
                stores.add(ch.id)
            if isinstance(ch, ast.ExceptHandler) and ch.name:
                stores.add(ch.name)
            if isinstance(ch, (ast.ListComp, ast.SetComp, ast.DictComp, ast.GeneratorExp)):
                continue
            walk(ch, False)
    walk(fn, True)
    return sorted(stores - params - declared - nested_uses)


class Renamer(ast.NodeTransformer):
    def __init__(self, old, new, root):
        self.old, self.new, self.root = old, new, root

    def visit_Name(self, n):
        if n.id == self.old:
            n.id = self.new
        return n

    def visit_ExceptHandler(self, n):
        if n.name == self.old:
            n.name = self.new
        return self.generic_visit(n)


def variants(src, qual):
    import copy
    tree = ast.parse(src)
    fn = find(tree, qual)
    if fn is None:
        return
    lines = src.splitlines(keepends=True)
    first = min([fn.lineno] + [d.lineno for d in fn.decorator_list])
    indent = ' ' * fn.col_offset

    def emit(fn2, prefix=''):
        text = ast.unparse(fn2)
        new_fn = ''.join(indent + ln + '\n' for ln in text.splitlines())
        new_src = ''.join(lines[:first - 1]) + prefix + new_fn + ''.join(lines[fn.end_lineno:])
        compile(new_src, 'variant', 'exec')
        return new_src
    yield 'reparse (ast.unparse of the unchanged function)', emit(fn)
    yield 'comment + 3 blank lines above', emit(fn, prefix='\n\n' + indent + '# moved around\n\n')
    for name in local_names(fn):
        f2 = copy.deepcopy(fn)
        Renamer(name, name + '_rn', f2).visit(f2)
        yield 'rename local %s -> %s_rn' % (name, name), emit(f2)
    f2 = copy.deepcopy(fn)
    body = f2.body
    k = 1 if body and isinstance(body[0], ast.Expr) and isinstance(body[0].value, ast.Constant) else 0
    body.insert(k, ast.Pass())
    yield 'pass inserted at the top', emit(f2)
    # if/else swaps and augassign rewrites, one at a time
    sites = []
    for n in ast.walk(fn):
        if isinstance(n, ast.If) and n.orelse and not (len(n.orelse) == 1 and isinstance(n.orelse[0], ast.If)):
            sites.append(('ifswap', n.lineno, n.col_offset))
        if isinstance(n, ast.AugAssign) and isinstance(n.target, ast.Name) and isinstance(n.op, (ast.Add, ast.Sub, ast.BitOr)):
            sites.append(('augassign', n.lineno, n.col_offset))
    nested = {id(x) for ch in ast.walk(fn) if isinstance(ch, (ast.FunctionDef, ast.Lambda)) and ch is not fn for x in ast.walk(ch)}
    for kind, ln, col in sites:
        f2 = copy.deepcopy(fn)
        for n in ast.walk(f2):
            if getattr(n, 'lineno', None) == ln and getattr(n, 'col_offset', None) == col:
                if kind == 'ifswap' and isinstance(n, ast.If):
                    n.test = ast.UnaryOp(ast.Not(), n.test)
                    n.body, n.orelse = n.orelse, n.body
                    yield 'if/else swapped at line %d' % ln, emit(f2)
                    break
                if kind == 'augassign' and isinstance(n, ast.AugAssign):
                    new = ast.Assign([ast.Name(n.target.id, ast.Store())], ast.BinOp(ast.Name(n.target.id, ast.Load()), n.op, n.value), lineno=n.lineno)
                    for blk in ast.walk(f2):
                        for fld in ('body', 'orelse', 'finalbody'):
                            b = getattr(blk, fld, None)
                            if isinstance(b, list) and n in b:
                                b[b.index(n)] = new
                    ast.fix_missing_locations(f2)
                    yield '`%s op= e` -> `%s = %s op e` at line %d' % (n.target.id, n.target.id, n.target.id, ln), emit(f2)
                    break


def run_variant(job):
    idx, file, qual, desc, new_src, props, structural, scratch_root, jobs_per = job
    d = os.path.join(scratch_root, 'w%d' % idx)
    os.makedirs(d)
    shutil.copytree(os.path.join(REPO, 'circuits'), os.path.join(d, 'circuits'))
    with open(os.path.join(d, file), 'w') as f:
        f.write(new_src)
    res = {'file': file, 'function': qual, 'variant': desc, 'checks': {}}
    worst = 0
    t0 = time.time()
    try:
        for prop, idents in sorted(props.items()):
            globs = ',,'.join(sorted(idents | structural.get(prop, set())))
            try:
                p = run_group(['python3-vt', '-m', 'pyvc.driver', prop, '--no-evidence', '--no-replay', '--jobs', str(jobs_per), '--fuc', globs],
                                   timeout=1800, cwd=HERE, env=dict(os.environ, PYVC_REPO=d))
            except subprocess.TimeoutExpired:
                res['checks'][prop] = {'exit': 2, 'lines': ['UNDECIDED: check did not finish in 1800 s']}
                worst = max(worst, 2)
                continue
            lines = [l[:260] for l in p.stdout.splitlines() if l.startswith(('failed obligation', 'UNDECIDED', 'CHECKER-ERROR'))][:4]
            res['checks'][prop] = {'exit': p.returncode, 'lines': lines}
            worst = max(worst, p.returncode if p.returncode in (0, 1, 2, 3) else 3)
    finally:
        shutil.rmtree(d, ignore_errors=True)
    res['status'] = {0: 'ok', 1: 'FALSE-ALARM', 2: 'undecided', 3: 'checker-error'}[worst]
    res['secs'] = round(time.time() - t0, 1)
    return res


def main():
    ap = argparse.ArgumentParser()
    ap.add_argument('--props', default='')
    ap.add_argument('--jobs', type=int, default=6)
    ap.add_argument('--jobs-per-check', type=int, default=2)
    ap.add_argument('--out', default='refactor.json')
    ap.add_argument('--only', default='')
    ap.add_argument('--sample', type=int, default=0, help='check only N variants (seeded random choice)')
    a = ap.parse_args()
    tg, structural = targets()
    props = set(a.props.split(',')) if a.props else None
    scratch = tempfile.mkdtemp(prefix='pyvc_refac_')
    jobs = []
    try:
        for (file, qual), byprop in sorted(tg.items()):
            sel = {p: i for p, i in byprop.items() if props is None or p in props}
            if not sel or (a.only and a.only not in qual):
                continue
            src = open(os.path.join(REPO, file), encoding='utf-8').read()
            try:
                for desc, new_src in variants(src, qual):
                    jobs.append((len(jobs), file, qual, desc, new_src, sel, structural, scratch, a.jobs_per_check))
            except SyntaxError as e:
                print('skip', qual, e)
        if a.sample and len(jobs) > a.sample:
            jobs = sorted(random.Random(20260923).sample(jobs, a.sample), key=lambda j: j[0])
        print('%d variants of %d functions' % (len(jobs), len({(j[1], j[2]) for j in jobs})), flush=True)
        results = []
        with ThreadPoolExecutor(a.jobs) as ex:
            for r in ex.map(run_variant, jobs):
                results.append(r)
                if r['status'] != 'ok':
                    print('%-13s %s:%s  %s  %s' % (r['status'], r['file'].split('/')[-1], r['function'], r['variant'],
                                                  ' | '.join(l for c in r['checks'].values() for l in c['lines'][:1])[:300]), flush=True)
                if len(results) % 20 == 0:
                    json.dump(results, open(a.out, 'w'), indent=1)
        json.dump(results, open(a.out, 'w'), indent=1)
        tot = {}
        for r in results:
            tot[r['status']] = tot.get(r['status'], 0) + 1
        print('TOTAL %d variants: %s' % (len(results), tot))
    finally:
        shutil.rmtree(scratch, ignore_errors=True)


if __name__ == '__main__':
    main()

#!/usr/bin/env python3
"""Re-run the registered quick check of every seeded change (seeded/<name>/patch.diff) against /repo with the change applied,
restoring /repo afterwards.  Prints one line per seed; exit 1 if a seed that was caught before is no longer caught.
Usage: tools/seed_recheck.py [name-glob ...]"""
import fnmatch
import glob
import json
import os
import subprocess
import sys

ROOT = os.path.dirname(os.path.dirname(os.path.abspath(__file__)))


def main():
    pats = sys.argv[1:] or ['*']
    if subprocess.run(['git', '-C', '/repo', 'status', '--porcelain'], capture_output=True, text=True).stdout.strip():
        print('/repo is not clean; refusing')
        return 3
    bad = 0
    for d in sorted(glob.glob(os.path.join(ROOT, 'seeded', '*', ''))):
        name = os.path.basename(d.rstrip('/'))
        if not any(fnmatch.fnmatch(name, p) for p in pats):
            continue
        meta = json.load(open(os.path.join(d, 'meta.json')))
        prop = meta['property']
        try:
            subprocess.run(['git', '-C', '/repo', 'apply', os.path.join(d, 'patch.diff')], check=True)
            p = subprocess.run([os.path.join(ROOT, 'bin', 'check'), prop, '--tier', 'quick', '--no-evidence'], capture_output=True, text=True,
                               cwd=ROOT, timeout=3600)
        finally:
            subprocess.run(['git', '-C', '/repo', 'checkout', '--', '.'], check=True)
        viol = [ln for ln in p.stdout.splitlines() if ln.startswith('VIOLATION')]
        ok = p.returncode == 1 and bool(viol)
        print('%-45s rc=%d %s %s' % (name, p.returncode, 'caught' if ok else 'MISSED', viol[0][:150] if viol else p.stdout.strip().splitlines()[-1][:150]))
        sys.stdout.flush()
        if not ok:
            bad += 1
    return 1 if bad else 0


if __name__ == '__main__':
    sys.exit(main())

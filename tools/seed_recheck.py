#!/usr/bin/env python3
"""Re-run the registered quick check of every seeded change (seeded/<name>/patch.diff) against a scratch COPY of /repo's current
tree with the change applied (PYVC_REPO; /repo itself is not touched).  Prints one line per seed; exit 1 if a valid seed is not
caught.  Seeds whose meta.json says "valid": false (neutralised by a later fix) are reported but not counted.
Usage: tools/seed_recheck.py [name-glob ...]"""
import fnmatch, glob, json, os, shutil, subprocess, sys, tempfile
ROOT = os.path.dirname(os.path.dirname(os.path.abspath(__file__)))


def main():
    pats = sys.argv[1:] or ['*']
    bad = 0
    for d in sorted(glob.glob(os.path.join(ROOT, 'seeded', '*', ''))):
        name = os.path.basename(d.rstrip('/'))
        if not any(fnmatch.fnmatch(name, p) for p in pats) or not os.path.exists(os.path.join(d, 'meta.json')):
            continue
        meta = json.load(open(os.path.join(d, 'meta.json')))
        props = meta.get('checks_run') or [meta['property']]
        scratch = tempfile.mkdtemp(prefix='seed_recheck_')
        try:
            shutil.copytree('/repo/circuits', os.path.join(scratch, 'circuits'))
            p = subprocess.run(['patch', '-p1', '--no-backup-if-mismatch', '-s', '-d', scratch, '-i', os.path.join(d, 'patch.diff')],
                               capture_output=True, text=True)
            if p.returncode != 0:
                print('%-50s patch does not apply to the current tree: %s' % (name, p.stdout.strip().splitlines()[-1][:100]))
                bad += 1
                continue
            rcs, viol, failed = [], [], []
            for prop in props:
                p = subprocess.run([os.path.join(ROOT, 'bin', 'check'), prop, '--tier', 'quick', '--no-evidence'], capture_output=True,
                                   text=True, cwd=ROOT, timeout=3600, env=dict(os.environ, PYVC_REPO=scratch, PYVC_BATTERY_EXCLUDE=name))
                rcs.append(p.returncode)
                viol += [ln for ln in p.stdout.splitlines() if ln.startswith('VIOLATION')]
                failed += [ln[:400] for ln in p.stdout.splitlines() if ln.startswith(('failed obligation', 'undecided obligations'))]
                if p.returncode == 1:
                    break
        finally:
            shutil.rmtree(scratch, ignore_errors=True)
        ok = 1 in rcs and bool(viol)
        valid = meta.get('valid', True)
        print('%-50s rc=%s %s %s' % (name, rcs, ('caught' if ok else 'MISSED') if valid else ('(not a violation any more) ' + ('alarm!' if ok else 'silent')),
                                     viol[0][:140].replace(scratch, '<copy>') if viol else ''))
        sys.stdout.flush()
        # the result is recorded next to the original evaluation (tools/seed_table.py prefers it): the checks have been
        # strengthened since many of the seeds were first evaluated
        import subprocess as _sp
        head = _sp.run(['git', '-C', '/repo', 'rev-parse', '--short', 'HEAD'], capture_output=True, text=True).stdout.strip()
        meta['recheck'] = {'repo_head': head, 'rc': rcs, 'caught': ok, 'violations': [v.replace(scratch, '<copy>')[:300] for v in viol[:3]],
                           'failed': failed[:4]}
        json.dump(meta, open(os.path.join(d, 'meta.json'), 'w'), indent=1)
        if valid and not ok:
            bad += 1
        if not valid and ok:
            bad += 1
    return 1 if bad else 0


if __name__ == '__main__':
    sys.exit(main())

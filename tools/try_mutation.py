#!/usr/bin/env python3
"""development helper: apply a textual mutation to a scratch COPY of /repo's circuits package, run a property check against the copy
(PYVC_REPO), remove the copy.  usage: try_mutation.py PROP FILE OLD NEW [--fuc GLOB]   (/repo is never touched)"""
import os, shutil, subprocess, sys, tempfile
prop, path, old, new = sys.argv[1:5]
extra = sys.argv[5:]
scratch = tempfile.mkdtemp(prefix='try_mut_')
try:
    shutil.copytree('/repo/circuits', os.path.join(scratch, 'circuits'))
    full = os.path.join(scratch, path)
    src = open(full).read()
    assert src.count(old) >= 1, 'pattern not found'
    open(full, 'w').write(src.replace(old, new, 1))
    p = subprocess.run(['bin/check', prop, '--no-evidence'] + extra, capture_output=True, text=True, cwd='/verif',
                       env=dict(os.environ, PYVC_REPO=scratch))
    lines = [l for l in p.stdout.splitlines() if l.startswith(('VIOLATION', 'UNDECIDED', 'CHECKER', prop + ':', 'failed'))]
    print('\n'.join(l[:230] for l in lines[-12:]))
    print('exit', p.returncode)
finally:
    shutil.rmtree(scratch, ignore_errors=True)

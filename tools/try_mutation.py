#!/usr/bin/env python3
"""development helper: apply a textual mutation to a /repo file, run a property check, restore the file.
usage: try_mutation.py PROP FILE OLD NEW [--fuc GLOB]   (never leaves /repo modified)"""
import subprocess, sys
prop, path, old, new = sys.argv[1:5]
extra = sys.argv[5:]
full = '/repo/' + path
src = open(full).read()
assert src.count(old) >= 1, 'pattern not found'
open(full, 'w').write(src.replace(old, new, 1))
try:
    p = subprocess.run(['bin/check', prop, '--no-evidence'] + extra, capture_output=True, text=True, cwd='/verif')
    lines = [l for l in p.stdout.splitlines() if l.startswith(('VIOLATION', 'UNDECIDED', 'CHECKER', prop + ':', 'failed'))]
    print('\n'.join(l[:230] for l in lines[-12:]))
    print('exit', p.returncode)
finally:
    open(full, 'w').write(src)

#!/usr/bin/env python3
"""Mutation sweep: measures which small semantic changes to the functions under contract make a named obligation fail.

For every deductive FUC (file, qualified function) of the selected properties, AST mutants of the REAL function body are
generated (comparison flips, and/or swaps, dropped statements, constant tweaks, forced branches, append/appendleft swaps,
+=/-= swaps, dropped `not`).  Each mutant is written into a scratch COPY of /repo/circuits (never into /repo) and the
property checks covering that function are run against the copy (PYVC_REPO=<copy>, --no-replay, only the FUCs of that
function plus the property's structural checks).  Result per mutant:

  killed     some check exits 1 (a named obligation fails)
  noticed    no violation, but a check is undecided / reports a checker error (exit 2/3): the proof no longer goes through
  survived   every check still exits 0  -> equivalent mutant, property-irrelevant change, or a contract that is too weak

usage: python3-vt tools/mutation_sweep.py [--props C01,C07] [--jobs 8] [--out sweep.json] [--max-per-fuc N] [--seed S]
The scratch copies live under a mktemp directory outside /repo and /verif and are removed at the end.
"""
import argparse, ast, copy, importlib, json, os, random, shutil, subprocess, sys, tempfile, time
from concurrent.futures import ThreadPoolExecutor

def run_group(cmd, timeout, **kw):
    """subprocess.run(capture_output=True, text=True) in its own process group; on timeout the WHOLE group is killed (the driver
    forks solver workers: killing only the parent leaves them spinning for hours)"""
    import signal
    p = subprocess.Popen(cmd, stdout=subprocess.PIPE, stderr=subprocess.PIPE, text=True, start_new_session=True, **kw)
    try:
        out, err = p.communicate(timeout=timeout)
    except subprocess.TimeoutExpired:
        try:
            os.killpg(p.pid, signal.SIGKILL)
        except ProcessLookupError:
            pass
        p.communicate()
        raise
    return subprocess.CompletedProcess(cmd, p.returncode, out, err)


HERE = os.path.dirname(os.path.dirname(os.path.abspath(__file__)))
sys.path.insert(0, HERE)
REPO = os.environ.get('PYVC_REPO', '/repo')

CMP = {ast.Lt: ast.LtE, ast.LtE: ast.Lt, ast.Gt: ast.GtE, ast.GtE: ast.Gt, ast.Eq: ast.NotEq, ast.NotEq: ast.Eq,
       ast.Is: ast.IsNot, ast.IsNot: ast.Is, ast.In: ast.NotIn, ast.NotIn: ast.In}
METH = {'append': 'appendleft', 'appendleft': 'append', 'popleft': 'pop', 'add': 'discard', 'startswith': 'endswith'}


def targets():
    reg = importlib.import_module('contracts').REGISTRY
    from pyvc.contract import FucSpec, CustomCheck
    out = {}     # (file, qual) -> {prop: set(idents)}
    structural = {}   # prop -> idents of non-bounded custom checks
    for prop, entry in reg.items():
        for modname in entry['modules']:
            mod = importlib.import_module(modname)
            for s in mod.SPECS:
                if s.prop != prop:
                    continue
                if isinstance(s, CustomCheck):
                    if not s.bounded and not s.thorough_only:
                        structural.setdefault(prop, set()).add(s.ident)
                    continue
                out.setdefault((s.file, s.qual), {}).setdefault(prop, set()).add(s.ident)
    return out, structural


def find(tree, qual):
    parts = [p for p in qual.split('.') if p != '<locals>']
    node = tree
    for p in parts:
        found = None
        for ch in ast.walk(node):
            if isinstance(ch, (ast.FunctionDef, ast.ClassDef)) and ch.name == p and ch is not node:
                found = ch
                break
        if found is None:
            return None
        node = found
    return node


class Sites(ast.NodeVisitor):
    """enumerate mutation sites of one function (not descending into nested defs)"""

    def __init__(self, root):
        self.root, self.sites = root, []

    def generic_visit(self, node):
        if isinstance(node, (ast.FunctionDef, ast.Lambda, ast.ClassDef)) and node is not self.root:
            return
        self.site(node)
        super().generic_visit(node)

    def site(self, n):
        add = self.sites.append
        if isinstance(n, ast.Compare):
            for i, op in enumerate(n.ops):
                if type(op) in CMP:
                    add(('cmp', n, i))
        elif isinstance(n, ast.BoolOp):
            add(('boolop', n, None))
            for i in range(len(n.values)):
                add(('dropoperand', n, i))
        elif isinstance(n, ast.UnaryOp) and isinstance(n.op, ast.Not):
            add(('dropnot', n, None))
        elif isinstance(n, (ast.If, ast.While)):
            add(('force', n, True))
            add(('force', n, False))
        elif isinstance(n, ast.IfExp):
            add(('force', n, True))
            add(('force', n, False))
        elif isinstance(n, ast.Constant) and isinstance(n.value, bool):
            add(('const', n, not n.value))
        elif isinstance(n, ast.Constant) and isinstance(n.value, int) and abs(n.value) < 70000:
            add(('const', n, n.value + 1))
            if n.value != 0:
                add(('const', n, n.value - 1))
        elif isinstance(n, ast.AugAssign) and isinstance(n.op, (ast.Add, ast.Sub)):
            add(('aug', n, None))
        elif isinstance(n, ast.BinOp) and isinstance(n.op, (ast.Add, ast.Sub)) and not isinstance(n.left, ast.Constant):
            add(('binop', n, None))
        elif isinstance(n, ast.Attribute) and n.attr in METH:
            add(('meth', n, None))
        elif isinstance(n, (ast.Break, ast.Continue)):
            add(('brk', n, None))
        if hasattr(n, 'body') and isinstance(getattr(n, 'body'), list):
            for fld in ('body', 'orelse', 'finalbody'):
                blk = getattr(n, fld, None)
                if isinstance(blk, list):
                    for i, st in enumerate(blk):
                        if isinstance(st, (ast.Expr, ast.Assign, ast.AugAssign, ast.Delete, ast.Return, ast.Raise)):
                            if isinstance(st, ast.Expr) and isinstance(st.value, ast.Constant):
                                continue
                            add(('dropstmt', blk, i))
        if isinstance(n, ast.Try):
            for h in n.handlers:
                for i, st in enumerate(h.body):
                    if isinstance(st, (ast.Expr, ast.Assign, ast.AugAssign, ast.Delete, ast.Return, ast.Raise)):
                        add(('dropstmt', h.body, i))


def apply(site):
    """mutate in place; returns (description, undo)"""
    kind, n, x = site
    if kind == 'cmp':
        old = n.ops[x]
        n.ops[x] = CMP[type(old)]()
        return '%s -> %s in `%s`' % (type(old).__name__, type(n.ops[x]).__name__, ast.unparse(n)), lambda: n.ops.__setitem__(x, old)
    if kind == 'boolop':
        old = n.op
        n.op = ast.Or() if isinstance(old, ast.And) else ast.And()
        return 'and<->or: `%s`' % ast.unparse(n), lambda: setattr(n, 'op', old)
    if kind == 'dropoperand':
        old = n.values[x]
        d = 'drop operand `%s` of `%s`' % (ast.unparse(old), ast.unparse(n))
        n.values[x] = ast.Constant(isinstance(n.op, ast.And))
        return d, lambda: n.values.__setitem__(x, old)
    if kind == 'dropnot':
        old = n.op
        d = 'drop not: `%s`' % ast.unparse(n)
        n.op = ast.UAdd() if False else old
        # replace `not e` by `bool(e)`: implemented by double negation wrapper
        inner = n.operand
        n.operand = ast.UnaryOp(ast.Not(), inner)
        return d, lambda: setattr(n, 'operand', inner)
    if kind == 'force':
        old = n.test
        d = 'force `%s` %s' % (ast.unparse(old), x)
        n.test = ast.Constant(x)
        return d, lambda: setattr(n, 'test', old)
    if kind == 'const':
        old = n.value
        n.value = x
        return 'constant %r -> %r' % (old, x), lambda: setattr(n, 'value', old)
    if kind == 'aug' or kind == 'binop':
        old = n.op
        n.op = ast.Sub() if isinstance(old, ast.Add) else ast.Add()
        return '+<->-: `%s`' % ast.unparse(n), lambda: setattr(n, 'op', old)
    if kind == 'meth':
        old = n.attr
        n.attr = METH[old]
        return '.%s -> .%s' % (old, n.attr), lambda: setattr(n, 'attr', old)
    if kind == 'brk':
        # cannot change class in place: handled by caller through parent search; use Pass
        return None, None
    if kind == 'dropstmt':
        old = n[x]
        d = 'drop statement `%s`' % ast.unparse(old).splitlines()[0][:100]
        n[x] = ast.Pass()
        return d, lambda: n.__setitem__(x, old)
    return None, None


def mutants_of(path_src, qual, max_n, rng):
    tree = ast.parse(path_src)
    fn = find(tree, qual)
    if fn is None:
        return
    v = Sites(fn)
    v.visit(fn)
    sites = v.sites
    if max_n and len(sites) > max_n:
        sites = rng.sample(sites, max_n)
    lines = path_src.splitlines(keepends=True)
    first = min([fn.lineno] + [d.lineno for d in fn.decorator_list])
    indent = ' ' * fn.col_offset
    for site in sites:
        desc, undo = apply(site)
        if desc is None:
            continue
        try:
            text = ast.unparse(fn)
        finally:
            undo()
        new_fn = ''.join(indent + ln + '\n' for ln in text.splitlines())
        new_src = ''.join(lines[:first - 1]) + new_fn + ''.join(lines[fn.end_lineno:])
        try:
            compile(new_src, 'mutant', 'exec')
        except SyntaxError:
            continue
        yield desc, new_src


def run_mutant(job):
    idx, file, qual, desc, new_src, props, structural, scratch_root, jobs_per = job
    d = os.path.join(scratch_root, 'w%d' % idx)
    os.makedirs(d)
    shutil.copytree(os.path.join(REPO, 'circuits'), os.path.join(d, 'circuits'))
    with open(os.path.join(d, file), 'w') as f:
        f.write(new_src)
    res = {'file': file, 'function': qual, 'mutation': desc, 'checks': {}}
    status = 'survived'
    t0 = time.time()
    try:
        for prop, idents in sorted(props.items()):
            globs = ',,'.join(sorted(idents | structural.get(prop, set())))
            p = run_group(['python3-vt', '-m', 'pyvc.driver', prop, '--no-evidence', '--no-replay', '--jobs', str(jobs_per), '--fuc', globs],
                               timeout=1800, cwd=HERE, env=dict(os.environ, PYVC_REPO=d))
            fails = [l.split(' [path')[0].replace('failed obligation: ', '') for l in p.stdout.splitlines() if l.startswith('failed obligation')]
            other = [l[:200] for l in p.stdout.splitlines() if l.startswith(('UNDECIDED', 'CHECKER-ERROR'))][:3]
            res['checks'][prop] = {'exit': p.returncode, 'failed': fails[:4], 'other': other}
            if p.returncode == 1:
                status = 'killed'
                break
            if p.returncode != 0 and status == 'survived':
                status = 'noticed'
    except subprocess.TimeoutExpired:
        status = 'noticed'
        res['checks']['timeout'] = True
    finally:
        shutil.rmtree(d, ignore_errors=True)
    res['status'] = status
    res['secs'] = round(time.time() - t0, 1)
    return res


def main():
    ap = argparse.ArgumentParser()
    ap.add_argument('--props', default='')
    ap.add_argument('--jobs', type=int, default=8)
    ap.add_argument('--jobs-per-check', type=int, default=2)
    ap.add_argument('--max-per-fuc', type=int, default=0)
    ap.add_argument('--seed', type=int, default=int(os.environ.get('VERIF_SEED', '0') or 0))
    ap.add_argument('--out', default='sweep.json')
    ap.add_argument('--only', default='', help='substring of the function name')
    a = ap.parse_args()
    rng = random.Random(a.seed)
    tg, structural = targets()
    props = set(a.props.split(',')) if a.props else None
    scratch = tempfile.mkdtemp(prefix='pyvc_mut_')
    jobs = []
    try:
        for (file, qual), byprop in sorted(tg.items()):
            sel = {p: i for p, i in byprop.items() if props is None or p in props}
            if not sel or (a.only and a.only not in qual):
                continue
            src = open(os.path.join(REPO, file), encoding='utf-8').read()
            for desc, new_src in mutants_of(src, qual, a.max_per_fuc, rng):
                jobs.append((len(jobs), file, qual, desc, new_src, sel, structural, scratch, a.jobs_per_check))
        print('%d mutants of %d functions' % (len(jobs), len({(j[1], j[2]) for j in jobs})), flush=True)
        results = []
        with ThreadPoolExecutor(a.jobs) as ex:
            for r in ex.map(run_mutant, jobs):
                results.append(r)
                print('%-8s %s:%s  %s  %s' % (r['status'], r['file'].split('/')[-1], r['function'], r['mutation'][:110],
                                             ';'.join('%s=%s' % (p, c['exit']) for p, c in r['checks'].items() if isinstance(c, dict))), flush=True)
                if len(results) % 25 == 0:
                    json.dump(results, open(a.out, 'w'), indent=1)
        json.dump(results, open(a.out, 'w'), indent=1)
        tot = {}
        for r in results:
            k = (r['file'], r['function'])
            tot.setdefault(k, {'killed': 0, 'noticed': 0, 'survived': 0})[r['status']] += 1
        print('\nfunction: killed / noticed / survived')
        for k, v in sorted(tot.items()):
            print('  %s:%s  %d / %d / %d' % (k[0], k[1], v['killed'], v['noticed'], v['survived']))
        n = len(results) or 1
        print('TOTAL %d mutants: killed %d, noticed %d, survived %d' % (len(results), sum(v['killed'] for v in tot.values()),
              sum(v['noticed'] for v in tot.values()), sum(v['survived'] for v in tot.values())))
    finally:
        shutil.rmtree(scratch, ignore_errors=True)


if __name__ == '__main__':
    main()

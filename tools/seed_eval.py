#!/usr/bin/env python3
"""Evaluate a seeded change: usage seed_eval.py <name> <prop> <worktree> <test dirs...>
copies SEED/ to seeded/<name>/, confirms tests pass in the worktree, demo fails with / passes without the change,
applies the patch to /repo, runs the property check, undoes the patch, writes meta.json."""
import json, os, shutil, subprocess, sys
name, prop, wt = sys.argv[1:4]
tests = sys.argv[4:] or ['tests/core']
dst = '/verif/seeded/' + name
os.makedirs(dst, exist_ok=True)
for f in ('patch.diff', 'demo.py', 'notes.md'):
    if os.path.exists(os.path.join(wt, 'SEED', f)):
        shutil.copy(os.path.join(wt, 'SEED', f), dst)
def run(cmd, cwd, timeout=900):
    """output goes to a file (not a pipe: forked test workers keep pipes open and would block communicate()); the whole process
    group is killed on timeout"""
    import signal, tempfile, time
    for attempt in (1, 2):
        with tempfile.TemporaryFile('w+') as f:
            env = dict(os.environ)
            if cwd == wt:
                env['PYTHONPATH'] = wt  # /venv's editable install points at /repo: the worktree must come first
            p = subprocess.Popen(cmd, cwd=cwd, stdout=f, stderr=subprocess.STDOUT, start_new_session=True, env=env)
            import re
            t0 = time.time()
            rc = None
            while time.time() - t0 < timeout:
                try:
                    rc = p.wait(timeout=5)
                    break
                except subprocess.TimeoutExpired:
                    # pytest prints its summary line and then sometimes cannot exit (a forked test worker is stuck): take the verdict
                    f.seek(0)
                    m = re.search(r'=+ (?:(\d+) failed, )?\d+ passed.* in [\d.]+s', f.read())
                    if m and cmd[1:3] == ['-m', 'pytest']:
                        time.sleep(3)
                        rc = p.poll()
                        if rc is None:
                            rc = 1 if m.group(1) else 0
                        break
            try:
                os.killpg(p.pid, signal.SIGKILL)
            except ProcessLookupError:
                pass
            f.seek(0)
            out = f.read()
        if rc is not None:
            return rc, out
    return -9, 'timeout\n' + out[-2000:]
meta = {'property': prop, 'name': name}
# 1. tests in the worktree (change applied there)
rc, out = run(['/venv/bin/python', '-m', 'pytest', '-q', '-p', 'no:cacheprovider', '--timeout=120', '-q', '--deselect',
               'tests/net/test_tcp.py::test_tcp_lookup_failure'] + tests, wt)
if rc == 1:
    # tests that bind sockets / fork are flaky under load: re-run the failed ones alone once
    import re as _re
    failed = sorted(set(_re.findall(r'^FAILED (\S+)', out, _re.M)))
    if failed and len(failed) <= 5:
        rc2, out2 = run(['/venv/bin/python', '-m', 'pytest', '-q', '-p', 'no:cacheprovider', '--timeout=120'] + failed, wt)
        if rc2 == 0:
            rc = 0
            out = out.strip() + '\n(re-run alone, passed: %s) %s' % (' '.join(failed), out2.strip().splitlines()[-1])
meta['tests_with_change'] = {'cmd': 'pytest ' + ' '.join(tests), 'rc': rc, 'tail': out.strip().splitlines()[-1] if out.strip() else ''}
# 2. apply the change to a scratch COPY of /repo's current tree (outside /repo and /verif) and run the checks against the copy
#    (PYVC_REPO): equivalent to `git -C /repo apply` + check + `git -C /repo checkout -- .`, without disturbing /repo meanwhile
import tempfile
scratch = tempfile.mkdtemp(prefix='seed_eval_')
try:
    shutil.copytree('/repo/circuits', os.path.join(scratch, 'circuits'))
    rc, out = run(['patch', '-p1', '--no-backup-if-mismatch', '-d', scratch, '-i', os.path.join(dst, 'patch.diff')], '/verif')
    assert rc == 0, out
    meta['check_with_change'] = {}
    env_cmd = ['env', 'PYVC_REPO=' + scratch, 'PYVC_BATTERY_EXCLUDE=' + name]  # its own demonstration must not be what catches it
    for pr in prop.split(','):
        rc, out = run(env_cmd + ['bin/check', pr, '--no-evidence'], '/verif', 3000)
        lines = [l for l in out.splitlines() if l.startswith(('VIOLATION', 'failed obligation', 'UNDECIDED', 'CHECKER', pr + ':', 'undecided obligations'))]
        meta['check_with_change'][pr] = {'cmd': 'PYVC_REPO=<copy of /repo with the patch> bin/check %s' % pr, 'rc': rc,
                                         'violations': [l[:260].replace(scratch, '<copy>') for l in lines if l.startswith(('VIOLATION', 'failed', 'undecided'))][:8],
                                         'summary': lines[-1] if lines else ''}
finally:
    shutil.rmtree(scratch, ignore_errors=True)
# demo in the scratch worktree it was written for: with the change, then without (git stash), then restored
rc, out = run(['/venv/bin/python', 'SEED/demo.py'], wt, 300)
meta['demo_with_change'] = {'cmd': 'cd <worktree> && /venv/bin/python SEED/demo.py', 'rc': rc, 'tail': out.strip().splitlines()[-3:]}
# the demo without the change: reverse-apply the seed's own patch in the worktree (worktree-local; `git stash` is shared between
# all worktrees of one repository and races with other users of it)
pfile = os.path.join(dst, 'patch.diff')
rc_r, out_r = run(['git', 'apply', '-R', pfile], wt)
try:
    if rc_r != 0:
        meta['demo_without_change'] = {'cmd': 'git apply -R SEED/patch.diff', 'rc': -1, 'tail': out_r.strip().splitlines()[-2:]}
    else:
        rc, out = run(['/venv/bin/python', 'SEED/demo.py'], wt, 300)
        meta['demo_without_change'] = {'cmd': 'git apply -R SEED/patch.diff; /venv/bin/python SEED/demo.py; git apply SEED/patch.diff', 'rc': rc, 'tail': out.strip().splitlines()[-2:]}
finally:
    if rc_r == 0:
        run(['git', 'apply', pfile], wt)
meta['caught'] = any(c['rc'] == 1 for c in meta['check_with_change'].values())
meta['property'] = prop.split(',')[0]
meta['checks_run'] = prop.split(',')
meta['confirmed'] = meta['tests_with_change']['rc'] == 0 and meta['demo_with_change']['rc'] == 1 and meta['demo_without_change']['rc'] == 0
json.dump(meta, open(os.path.join(dst, 'meta.json'), 'w'), indent=1)
print(json.dumps(meta, indent=1)[:3000])

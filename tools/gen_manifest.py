#!/usr/bin/env python3
"""Regenerates MANIFEST.json from contracts.REGISTRY (keeps the manifest and the registry in sync)."""
import json, os, sys
HERE = os.path.dirname(os.path.dirname(os.path.abspath(__file__)))
sys.path.insert(0, HERE)
# the registry module is plain data: import without z3
import importlib.util
spec = importlib.util.spec_from_file_location('registry', os.path.join(HERE, 'contracts', '__init__.py'))
reg = importlib.util.module_from_spec(spec); spec.loader.exec_module(reg)
props = [json.loads(l) for l in open(os.path.join(HERE, 'properties.jsonl'))]
checks, na = [], []
for p in props:
    pid = p['id']
    e = reg.REGISTRY.get(pid)
    if not e or e.get('disabled'):
        na.append({'property_id': pid, 'reason': (e or {}).get('na_reason', 'contracts for this property are not built yet (work in progress)')})
        continue
    checks.append({
        'property_id': pid,
        'quick_cmd': 'bin/check %s --tier quick' % pid,
        'thorough_cmd': 'bin/check %s --tier thorough' % pid,
        'evidence_file': 'evidence/%s.json' % pid,
        'replay_cmd_template': '/venv/bin/python {path}',
        'engine': 'pyvc',
        'level_claimed': {'category': e.get('level', 'proof'), 'text': e['level_text'], 'design_ref': 'DESIGN.md §4 ' + pid},
        'level_note': e['level_note'],
        'technique': e.get('technique', 'contract-based deductive verification: VCs generated from the real AST, discharged by z3/cvc5'),
    })
m = {
    'version': 1,
    'setup_cmd': 'sh tools/setup.sh',
    'hooks': {'guard': 'CIRCUITS_VERIF', 'enable': 'no source hooks are needed: contracts are sidecar files, replays use public constructors and monkeypatching',
              'baseline_off_cmd': 'cd /repo && /venv/bin/python -m pytest -ra -q -p no:cacheprovider --timeout=900 --continue-on-collection-errors',
              'source_commits': [], 'add_only': True},
    'engines': [{'name': 'pyvc', 'path': 'pyvc/', 'serves_properties': [c['property_id'] for c in checks],
                 'kind_free_text': 'path-wise symbolic executor over the real Python AST + sidecar contracts; obligations discharged by z3 5.1 (python API) and /usr/bin/cvc5; Lean 4 for the segmentation lemma'}],
    'checks': checks,
    'not_applicable': na,
    'notes': 'exit codes: 0 held, 1 violation (VIOLATION line), 2 undecided (never reported as violation), 3 checker error. Known findings: known_findings.json.',
}
json.dump(m, open(os.path.join(HERE, 'MANIFEST.json'), 'w'), indent=1)
print('MANIFEST.json: %d checks, %d not_applicable' % (len(checks), len(na)))

"""Path state: path condition, heap, ghost, obligations, solver access."""
import time
import z3
from .core import *  # noqa
from . import core
from . import solve


class Obligation:
    __slots__ = ('name', 'path', 'verdict', 'backend', 'secs', 'model', 'goal', 'detail')

    def __init__(self, name, path):
        self.name, self.path = name, path
        self.verdict = self.backend = self.model = self.goal = self.detail = None
        self.secs = 0.0

    def as_dict(self):
        return {'name': self.name, 'path': self.path, 'verdict': self.verdict, 'backend': self.backend,
                'secs': round(self.secs, 4), 'model': self.model, 'detail': self.detail}


OBL_CACHE = {}
DEFERRED = []
_OPTS = [None]


def _solve_deferred(i):
    ob, assumptions, goal, inputs = DEFERRED[i]
    verdict, backend, secs, model = solve.prove(assumptions, goal, _OPTS[0])
    mv = None
    if verdict in ('sat', 'candidate') and model is not None:
        mv = {}
        for k, t in inputs.items():
            try:
                mv[k] = solve.model_value(model, t)
            except Exception as e:  # pragma: no cover
                mv[k] = '<%s>' % e
    return i, verdict, backend, secs, mv


def die_with_parent():
    """worker processes must not outlive a check that is killed (time-out of a caller): ask the kernel for SIGKILL when the parent
    goes away (Linux prctl PR_SET_PDEATHSIG); a no-op where that is not available"""
    try:
        import ctypes, signal
        ctypes.CDLL('libc.so.6', use_errno=True).prctl(1, int(signal.SIGKILL), 0, 0, 0)
    except Exception:  # pragma: no cover
        pass


def solve_all_deferred(opts, procs):
    """discharge the deferred obligations in forked workers (they inherit the z3 terms by copy-on-write)"""
    import multiprocessing
    _OPTS[0] = opts
    n = len(DEFERRED)
    if n == 0:
        return
    if procs <= 1 or n == 1:
        results = [_solve_deferred(i) for i in range(n)]
    else:
        ctx = multiprocessing.get_context('fork')
        with ctx.Pool(min(procs, n), initializer=die_with_parent) as pool:
            results = pool.map(_solve_deferred, range(n), chunksize=1)
    for i, verdict, backend, secs, mv in results:
        ob = DEFERRED[i][0]
        ob.verdict, ob.backend, ob.secs, ob.model = verdict, backend, secs, mv


class State:
    def __init__(self, ctl, opts):
        self.cached_obls = 0
        self.ctl = ctl
        self.opts = opts
        self.pc = []
        self.heap = {}      # field -> [component arrays]
        self.fields = {}    # field -> kind
        self.ghost = {}     # name -> python object (lists of Values, Values, counters)
        self.obls = []
        self.notes = []
        self.inputs = {}    # name -> z3 term or Value (for counterexample extraction)
        self._fs = z3.Solver()
        self._fs.set('timeout', opts.get('feas_timeout_ms', 150))
        self.trusted_used = set()
        self.assumed = []   # labels of assumptions (requires / callee ensures / axioms)
        self.alloc = core.fresh('alloc', z3.ArraySort(core.RefSort(), z3.BoolSort()))
        self.dead = False
        self.uses_any = False
        self.setup_len = 0
        self.frame_guard = None
        self.modular_frame = None

    # ---------------------------------------------------------------- logic
    def assume(self, f, label=None):
        if isinstance(f, bool):
            f = z3.BoolVal(f)
        f = z3.simplify(f)
        if z3.is_true(f):
            return
        self.pc.append(f)
        self._fs.add(f)
        if label:
            self.assumed.append(label)
        if z3.is_false(f):
            raise PathKill()

    def feasible(self, cond):
        cond = z3.simplify(cond)
        if z3.is_true(cond):
            return True
        if z3.is_false(cond):
            return False
        self._fs.push()
        self._fs.add(cond)
        r = self._fs.check()
        self._fs.pop()
        return r != z3.unsat

    def branch(self, cond, label='if'):
        """returns a concrete bool; forks the path when both sides are feasible"""
        if isinstance(cond, bool):
            return cond
        cond = z3.simplify(cond)
        if z3.is_true(cond):
            return True
        if z3.is_false(cond):
            return False
        if self.ctl.replaying():
            c = self.ctl.replay_next()
            if c == 0:
                self.assume(cond)
                return True
            self.assume(z3.Not(cond))
            return False
        ft = self.feasible(cond)
        ff = True if not ft else self.feasible(z3.Not(cond))
        if ft and not ff:
            self.ctl.record_forced(0, label)
            self.assume(cond)
            return True
        if ff and not ft:
            self.ctl.record_forced(1, label)
            self.assume(z3.Not(cond))
            return False
        if not ft and not ff:
            raise PathKill()
        c = self.ctl.choose(2, label)
        if c == 0:
            self.assume(cond)
            return True
        self.assume(z3.Not(cond))
        return False

    def choice(self, n, label='nd'):
        return self.ctl.choose(n, label)

    def oblige(self, name, goal, detail=None):
        """prove goal under the current path condition; record the outcome; then assume it"""
        ob = Obligation(name, self.ctl.label())
        if isinstance(goal, bool):
            goal = z3.BoolVal(goal)
        goal = z3.simplify(goal) if not z3.is_quantifier(goal) else goal
        ob.detail = detail
        extra = core.any_axioms(self.pc + [goal]) if self.uses_any else []
        key = (name, tuple(x.get_id() for x in self.pc), goal.get_id(), self.uses_any)
        hit = OBL_CACHE.get(key)
        if hit is not None:
            self.cached_obls += 1
            try:
                self.assume(goal)
            except PathKill:
                self.dead = True
                raise
            return hit[0]
        only = self.opts.get('only_names')
        if only is not None and name not in only:
            try:
                self.assume(goal)
            except PathKill:
                self.dead = True
                raise
            return ob
        OBL_CACHE[key] = (ob, list(self.pc), goal)
        ob.goal = str(goal)[:400]
        ob.detail = detail
        if self.opts.get('defer', True):
            DEFERRED.append((ob, self.pc + extra, goal, dict(self.inputs)))
            self.obls.append(ob)
            try:
                self.assume(goal)
            except PathKill:
                self.dead = True
                raise
            return ob
        res = solve.prove(self.pc + extra, goal, self.opts)
        ob.verdict, ob.backend, ob.secs, model = res
        if ob.verdict in ('sat', 'candidate') and model is not None:
            ob.model = self.extract_inputs(model)
        ob.goal = str(z3.simplify(goal))[:400]
        self.obls.append(ob)
        try:
            self.assume(goal)
        except PathKill:
            self.dead = True
            raise
        return ob

    def extract_inputs(self, model):
        out = {}
        for k, t in self.inputs.items():
            try:
                out[k] = solve.model_value(model, t)
            except Exception as e:  # pragma: no cover
                out[k] = '<%s>' % e
        return out

    # ---------------------------------------------------------------- heap
    def declare_field(self, fname, kind):
        if fname in self.fields:
            return
        self.fields[fname] = kind
        self.heap[fname] = [core.fresh('H_' + fname, z3.ArraySort(core.RefSort(), s)) for s in kind.sorts()]

    def read_field(self, ref, fname):
        if fname not in self.fields:
            raise Unsupported('undeclared field %s' % fname)
        k = self.fields[fname]
        v = k.wrap([z3.Select(a, ref) for a in self.heap[fname]])
        self._post_read(v)
        if isinstance(v, (VList, VSet, VBag, VDict)):
            v.loc = ('field', ref, fname)
        return v

    def _post_read(self, v):
        if isinstance(v, VRef):
            self.pc.append(z3.Or(v.t == core.null(), z3.Select(self.alloc, v.t)))
            self._fs.add(self.pc[-1])
        if isinstance(v, VAny):
            self.uses_any = True

    def write_field(self, ref, fname, value):
        if self.frame_guard and fname in self.frame_guard:
            raise Unsupported('field %s is declared loop-frame (never written) but is written' % fname)
        if fname not in self.fields:
            if self.opts.get('auto_fields', True):
                self.declare_field(fname, kind_of(value))
                self.notes.append('auto-declared field %s : %r' % (fname, self.fields[fname]))
            else:
                raise Unsupported('undeclared field %s' % fname)
        k = self.fields[fname]
        if isinstance(k, List) and k.ek in (Str, Bytes) and isinstance(value, (VCList, VTuple)):
            # a list display of strings stored in a field: its flatten view is the concatenation of the items
            from . import lib as _lib
            items = value.items
            value = core.clist_to_sym(VCList(items), k.ek)
            cat = z3.StringVal('') if not items else (items[0].t if len(items) == 1 else z3.Concat(*[x.t for x in items]))
            self.assume(_lib.flat(value) == cat)
        if isinstance(k, Dyn) and not isinstance(value, VDyn):
            comps = [z3.BoolVal(True)] + k.k.unwrap(value)
        else:
            comps = k.unwrap(value)
        if k is Any or (isinstance(k, (Opt, Dyn)) and k.k is Any):
            self.uses_any = True
        self.heap[fname] = [z3.Store(a, ref, c) for a, c in zip(self.heap[fname], comps)]

    def havoc_field(self, fname, keep=None):
        """forget the content of a field; keep(r) -> BoolRef says for which refs it is preserved"""
        old = self.heap[fname]
        new = [core.fresh('H_' + fname, a.sort()) for a in old]
        self.heap[fname] = new
        if keep is not None:
            r = core.fresh('fr', core.RefSort())
            for o, n in zip(old, new):
                self.assume(z3.ForAll([r], z3.Implies(keep(r), z3.Select(n, r) == z3.Select(o, r))))

    def snapshot(self):
        return {k: list(v) for k, v in self.heap.items()}

    def fresh_ref(self, cls=None, name='new'):
        r = core.fresh(name, core.RefSort())
        self.assume(z3.And(r != core.null(), z3.Not(z3.Select(self.alloc, r))))
        self.alloc = z3.Store(self.alloc, r, True)
        return VRef(r, cls)

    def known_ref(self, name, cls=None, nonnull=True):
        r = z3.Const(name, core.RefSort())
        self.pc.append(z3.Select(self.alloc, r))
        self._fs.add(self.pc[-1])
        if nonnull:
            self.assume(r != core.null())
        self.inputs[name] = r
        return VRef(r, cls)

"""Per-property driver: run every function-under-contract of a property, match known findings,
replay counter-examples on the real code, write evidence, print verdict lines, set the exit code.

exit 0 held / 1 violation / 2 undecided / 3 checker broken
"""
import argparse
import fnmatch
import importlib
import json
import multiprocessing
import os
import subprocess
import sys
import time
import traceback

HERE = os.path.dirname(os.path.dirname(os.path.abspath(__file__)))
sys.path.insert(0, HERE)

from pyvc import contract, solve  # noqa: E402

REPLAY_PY = os.environ.get('PYVC_REPLAY_PYTHON', '/venv/bin/python')

ASSUMPTIONS = [
    'Python integers are mathematical integers (exact for CPython ints); floats are reals (rounding, NaN, inf ignored)',
    'one thread: lock statements are no-ops, no interleavings are considered',
    'object model: declared attributes are total maps Ref -> value; undeclared attributes are outside the subset',
    'mutable collections are owned by one location (no second live alias that is mutated)',
    'lists declared Bag are viewed as multisets (order abstracted)',
    'calls are replaced by the callee contract given in /verif/contracts (trusted ones are listed in trusted_base)',
    'str/bytes are z3 strings; bytes are strings over code points 0..255 (range constraint stated where needed)',
    'exceptions: only the classes the contracts/semantics declare can be raised by an operation (no MemoryError, '
    'RecursionError, signals)',
    'verification is path-wise over the real AST re-read from /repo on every run; extraction drops docstrings, comments '
    'and decorators (handler decorator literals are recorded as facts)',
]


def _run_one(payload):
    modname, idx, opts = payload
    try:
        mod = importlib.import_module(modname)
        spec = mod.SPECS[idx]
        if hasattr(spec, 'run'):
            res = spec.run(opts)
        else:
            res = contract.verify_fuc(spec, opts)
        d = res.as_dict()
        d['_stats'] = dict(solve.STATS)
        return d
    except Exception as e:
        return {'ident': '%s[%d]' % (modname, idx), 'errors': ['worker: %r\n%s' % (e, traceback.format_exc())], 'obligations': [],
                'undecided': [], 'paths': 0, 'killed': 0, 'trusted': [], 'bounded': [], 'notes': [], 'secs': 0.0,
                'missing_cover': [], 'prop': None, 'file': None, 'qual': None, 'sha': None, 'clause': '', 'decorators': [],
                'covered': [], '_stats': {}}


def load_registry():
    reg = importlib.import_module('contracts')
    return reg.REGISTRY


def load_findings():
    p = os.path.join(HERE, 'known_findings.json')
    if not os.path.exists(p):
        return {'known': [], 'fixed': []}
    with open(p) as f:
        return json.load(f)


def match_finding(findings, prop, ob):
    for k in findings.get('known', []):
        if k['property'] != prop:
            continue
        if fnmatch.fnmatch(ob['name'], k['obligation']):
            return k
    return None


def do_replay(prop, modname, idx, ob, outdir):
    """ask the spec for a replay script, run it under the repository's interpreter.
    returns (path, reproduced: True/False/None, output)"""
    os.makedirs(outdir, exist_ok=True)
    safe = ob['name'].replace('/', '__').replace(' ', '_')
    path = os.path.join(outdir, '%s__%s.py' % (safe, ob['path'].replace('.', '_')[:60]))
    header = '# replay for failed obligation %s\n# path: %s\n# goal: %s\n# solver: %s %.3fs\n# counter-model inputs: %s\n' % (
        ob['name'], ob['path'], json.dumps(' '.join((ob.get('goal') or '').split())), ob['backend'], ob['secs'],
        json.dumps(ob.get('model'), default=str))
    script = None
    try:
        mod = importlib.import_module(modname)
        spec = mod.SPECS[idx]
        rp = getattr(spec, 'replay', None)
        if rp is not None and (ob.get('model') is not None or isinstance(spec, contract.CustomCheck)):
            script = rp(ob.get('model') or {}, ob)
    except Exception as e:
        header += '# replay adapter failed: %r\n' % (e,)
    battery = os.path.join(HERE, 'replay', 'battery_%s.py' % prop)
    if script is None and os.path.exists(battery):
        # no specific counter-example adapter: search a failing input with the property's replay battery on the real code
        script = open(battery).read()
        header += '# (no concrete input derivable from the counter-model: replay battery of %s)\n' % prop
        with open(path, 'w') as f:
            f.write(header + script)
        try:
            p = subprocess.run([REPLAY_PY, path], capture_output=True, text=True, timeout=300, cwd=contract.REPO,
                               env=dict(os.environ, PYTHONPATH=contract.REPO))
            out = (p.stdout + p.stderr)[-2000:]
            return path, (p.returncode == 1 and 'REPRODUCED' in p.stdout), out
        except Exception as e:
            return path, None, repr(e)
    if script is None:
        with open(path, 'w') as f:
            f.write(header + '# no concrete input could be derived from the counter-model (no-failing-input-found)\n'
                    'import sys\nprint("obligation %s failed in the verifier; no concrete replay available")\nsys.exit(2)\n'
                    % ob['name'])
        return path, None, ''
    with open(path, 'w') as f:
        import re as _re
        body = _re.sub(r'sys\.exit\(1 if (.*) else 0\)', r'sys.exit(_rc(\1))', script)
        body = body.replace('sys.exit(1)', 'sys.exit(_rc(True))')
        f.write(header + 'def _rc(bad):\n    if bad:\n        print("REPRODUCED")\n    return 1 if bad else 0\n' + body)
    try:
        p = subprocess.run([REPLAY_PY, path], capture_output=True, text=True, timeout=120,
                           env=dict(os.environ, PYTHONPATH=contract.REPO))
        out = (p.stdout + p.stderr)[-2000:]
        return path, (p.returncode == 1 and 'REPRODUCED' in p.stdout), out
    except Exception as e:
        return path, None, repr(e)


def main(argv=None):
    ap = argparse.ArgumentParser()
    ap.add_argument('prop')
    ap.add_argument('--tier', default=os.environ.get('VERIF_TIER', 'quick'))
    ap.add_argument('--fuc', default=None, help='only FUCs whose ident matches this glob (development)')
    ap.add_argument('--jobs', type=int, default=int(os.environ.get('PYVC_JOBS', '16')))
    ap.add_argument('-v', action='store_true')
    ap.add_argument('--no-evidence', action='store_true')
    ap.add_argument('--no-replay', action='store_true', help='do not replay counter-models on the real code (mutation sweeps)')
    ap.add_argument('--failures', action='store_true', help='list every failing obligation with its path (development)')
    a = ap.parse_args(argv)
    t0 = time.time()
    seed = int(os.environ.get('VERIF_SEED', '0') or 0)
    tier = a.tier if a.tier in ('quick', 'thorough') else 'quick'
    opts = {'timeout_ms': 10000 if tier == 'quick' else 60000, 'feas_timeout_ms': 150 if tier == 'quick' else 500, 'tier': tier, 'seed': seed,
            'double_check': tier == 'thorough'}
    reg = load_registry()
    if a.prop not in reg:
        print('unknown property', a.prop)
        return 3
    entry = reg[a.prop]
    jobs = []
    for modname in entry['modules']:
        mod = importlib.import_module(modname)
        for i, s in enumerate(mod.SPECS):
            if s.prop != a.prop:
                continue
            if getattr(s, 'thorough_only', False) and tier != 'thorough':
                continue
            if a.fuc and not any(s.ident == g or fnmatch.fnmatch(s.ident, g) for g in a.fuc.split(',,')):
                continue
            jobs.append((modname, i, opts))
    if not jobs:
        print('no functions under contract selected for', a.prop)
        return 3
    import concurrent.futures
    ctx = multiprocessing.get_context('fork')
    nw = min(a.jobs, len(jobs))
    opts['solve_procs'] = max(2, min(a.jobs, (a.jobs + len(jobs) - 1) // max(1, len(jobs))))
    from .state import die_with_parent
    with concurrent.futures.ProcessPoolExecutor(nw, mp_context=ctx, initializer=die_with_parent) as pool:
        results = list(pool.map(_run_one, jobs))
    findings = load_findings()
    violations, known_hit, undecided, errors = [], [], [], []
    n_obl = n_dis = 0
    bounded, trusted, fucs, samples, backends = [], set(), [], [], {}
    solver_secs = 0.0
    distinct = set()
    for (modname, idx, _), r in zip(jobs, results):
        is_bounded = r.get('is_bounded', False)
        fucs.append({'fuc': r['ident'], 'file': r.get('file'), 'function': r.get('qual'), 'sha256_16': r.get('sha'),
                     'paths': r['paths'], 'paths_cut_or_infeasible': r['killed'], 'obligations': len(r['obligations']),
                     'clause': r.get('clause', ''), 'secs': round(r['secs'], 2), 'kind': 'bounded' if is_bounded else 'deductive',
                     'handler_decorators': r.get('decorators', []), 'vacuity': r.get('vacuity')})
        errors.extend('%s: %s' % (r['ident'], e) for e in r['errors'])
        undecided.extend('%s: %s' % (r['ident'], u) for u in r['undecided'])
        if r['missing_cover']:
            errors.append('%s: vacuity: cover labels never reached: %s' % (r['ident'], r['missing_cover']))
        if not r['obligations'] and not r['errors'] and not r['undecided']:
            errors.append('%s: vacuity: zero obligations generated' % r['ident'])
        trusted |= set(r['trusted'])
        for b in r['bounded']:
            bounded.append({'fuc': r['ident'], 'what': b})
        for ob in r['obligations']:
            solver_secs += ob['secs']
            backends[ob['backend']] = backends.get(ob['backend'], 0) + 1
            if is_bounded:
                if ob['verdict'] == 'sat':
                    k = match_finding(findings, a.prop, ob)
                    if k:
                        ob['_bounded'] = True
                        known_hit.append((k, ob))
                    else:
                        violations.append((modname, idx, ob))
                continue
            n_obl += 1
            if ob['verdict'] == 'unsat':
                n_dis += 1
                distinct.add(ob['name'])
                if len(samples) < 12 and (len(samples) < 4 or ob['name'] not in {s['obligation'] for s in samples}):
                    samples.append({'obligation': ob['name'], 'path': ob['path'], 'goal': ob.get('goal'), 'backend': ob['backend'],
                                    'secs': ob['secs']})
            elif ob['verdict'] in ('sat', 'candidate'):
                k = match_finding(findings, a.prop, ob)
                if k:
                    known_hit.append((k, ob))
                else:
                    violations.append((modname, idx, ob))
    if a.failures:
        for modname, idx, ob in violations:
            print('FAIL %s [%s] %s' % (ob['name'], ob['path'], (ob.get('detail') or '')[:200]))
    # report
    code = 0
    seen_known = set()
    for k, ob in known_hit:
        if k['id'] in seen_known:
            continue
        seen_known.add(k['id'])
        print('KNOWN-FINDING: property=%s %s [%s]' % (a.prop, k['what'], k['obligation']))
    reported = set()
    replay_dir = os.path.join(HERE, 'replays', a.prop)
    nviol = 0
    for modname, idx, ob in violations:
        if ob['name'] in reported:
            continue
        reported.add(ob['name'])
        nviol += 1
        if a.no_replay:
            path, repro, out = '-', (None if ob['verdict'] != 'candidate' else False), ''
        else:
            path, repro, out = do_replay(a.prop, modname, idx, ob, replay_dir)
        if ob['verdict'] == 'candidate' and not repro:
            # the counter-model came from a relaxed query and does not replay: the obligation is undecided
            undecided.append('%s: unknown (relaxed candidate model did not replay): %s [%s]' % (a.prop, ob['name'], ob['path']))
            nviol -= 1
            continue
        tail = '' if repro else ' no-failing-input-found'
        print('failed obligation: %s [path %s] inputs=%s' % (ob['name'], ob['path'], json.dumps(ob.get('model'), default=str)[:300]))
        if repro:
            print('  replayed on the real code: reproduced\n  ' + out.strip().replace('\n', '\n  ')[-600:])
        print('VIOLATION property=%s replay=%s%s' % (a.prop, path, tail))
        code = 1
    battery_note = None
    if (errors or undecided) and code == 0 and not a.no_replay:
        # some function left the verifier's reach (unsupported construct, state the contract does not know, solver gave up):
        # the property's replay battery runs on the real code as a BOUNDED stand-in.  A reproduced violation is reported with the
        # undecided obligations named in the replay file; a clean battery leaves the verdict undecided (never a pass).
        battery = os.path.join(HERE, 'replay', 'battery_%s.py' % a.prop)
        if os.path.exists(battery):
            os.makedirs(replay_dir, exist_ok=True)
            path = os.path.join(replay_dir, '%s__undecided__battery.py' % a.prop)
            header = ''.join('# undecided: %s\n' % ' '.join(str(u).split())[:300] for u in (undecided + errors)[:12])
            with open(path, 'w') as f:
                f.write('# bounded stand-in for obligations the verifier could not decide on this tree\n' + header + open(battery).read())
            try:
                p = subprocess.run([REPLAY_PY, path], capture_output=True, text=True, timeout=600, cwd=contract.REPO,
                                   env=dict(os.environ, PYTHONPATH=contract.REPO))
                battery_note = 'battery_%s.py (bounded): exit %d' % (a.prop, p.returncode)
                if p.returncode == 1 and 'REPRODUCED' in p.stdout:
                    print('undecided obligations; the bounded replay battery reproduced a violation on the real code:\n  '
                          + p.stdout.strip().replace('\n', '\n  ')[-700:])
                    print('VIOLATION property=%s replay=%s' % (a.prop, path))
                    code = 1
                    nviol += 1
            except Exception as e:
                battery_note = 'battery failed to run: %r' % (e,)
    if tier == 'thorough' and code == 0 and battery_note is None and not a.no_replay and not a.fuc:
        # thorough tier: besides the proofs (larger solver budgets, both back ends), the property's replay battery - a bounded
        # enumeration of programs / histories on the REAL code with the oracle taken from the statement - is always run.  It is a
        # bounded exploration (labelled so in the evidence, never counted as proved); a reproduced violation is a violation.
        battery = os.path.join(HERE, 'replay', 'battery_%s.py' % a.prop)
        if os.path.exists(battery):
            os.makedirs(replay_dir, exist_ok=True)
            path = os.path.join(replay_dir, '%s__thorough__battery.py' % a.prop)
            with open(path, 'w') as f:
                f.write('# thorough tier: bounded exploration on the real code (replay battery of %s)\n' % a.prop + open(battery).read())
            try:
                p = subprocess.run([REPLAY_PY, path], capture_output=True, text=True, timeout=1800, cwd=contract.REPO,
                                   env=dict(os.environ, PYTHONPATH=contract.REPO))
                first = (p.stdout.strip().splitlines() or [''])[0][:200]
                battery_note = 'thorough: battery_%s.py (bounded): exit %d: %s' % (a.prop, p.returncode, first)
                bounded.append({'fuc': '%s/battery(bounded)' % a.prop, 'what': 'replay/battery_%s.py: %s' % (a.prop, first)})
                if p.returncode == 1 and 'REPRODUCED' in p.stdout:
                    print('the bounded replay battery reproduced a violation on the real code:\n  '
                          + p.stdout.strip().replace('\n', '\n  ')[-700:])
                    print('VIOLATION property=%s replay=%s' % (a.prop, path))
                    code = 1
                    nviol += 1
                elif p.returncode != 0:
                    errors.append('%s: battery exited %d: %s' % (a.prop, p.returncode, (p.stderr or p.stdout).strip()[-300:]))
            except Exception as e:
                errors.append('%s: battery failed to run: %r' % (a.prop, e))
    if errors:
        for e in errors[:20]:
            print('CHECKER-ERROR:', e)
        if code == 0:
            code = 3
    if undecided and code == 0:
        code = 2
    for u in undecided[:30]:
        print('UNDECIDED:', u)
    wall = time.time() - t0
    level = entry.get('level', 'proof')
    # obligations failing as known findings are not discharged: then the level cannot be "proof"
    # obligations that fail as *recorded known findings* are reported separately: the proof-level counts cover the
    # remaining obligations (obligations_total / failed_known keep the full picture)
    failed_known = len({(ob['name'], ob['path']) for _, ob in known_hit if not ob.get('_bounded')})
    n_total = n_obl
    n_obl = n_obl - failed_known
    if (n_dis != n_obl or n_obl <= 0) and level == 'proof':
        level = 'other'
    ev = {
        'property_id': a.prop, 'tier': tier, 'seed': seed, 'level': level, 'wall_s': round(wall, 2), 'violations': nviol,
        'coverage': {
            'obligations': n_obl, 'discharged': n_dis, 'obligations_total': n_total, 'failed_known': failed_known,
            'checker_cmd': 'python3-vt bin/check %s --tier %s' % (a.prop, tier),
            'trusted_base': sorted(trusted) + entry.get('trusted', []),
            'explanation': entry.get('explanation', ''),
            'evaluations': n_obl, 'distinct_nontrivial': len(distinct),
            'rule': 'one evaluation = one proof obligation (contract clause x path of the real function) sent to the solver; '
                    'distinct = distinct obligation names discharged',
            'samples': samples,
            'functions_under_contract': fucs,
            'backends': backends, 'solver_secs': round(solver_secs, 2), 'solver_stats': None,
            'bounded_standins': bounded + entry.get('bounded', []),
            'not_decided': entry.get('not_decided', []),
            'known_findings_matched': sorted(seen_known),
            'undecided': undecided[:50], 'checker_errors': errors[:20], 'undecided_fallback': battery_note,
        },
        'assumptions': ASSUMPTIONS + entry.get('assumptions', []),
    }
    if not a.no_evidence and not a.fuc:
        os.makedirs(os.path.join(HERE, 'evidence'), exist_ok=True)
        with open(os.path.join(HERE, 'evidence', a.prop + '.json'), 'w') as f:
            json.dump(ev, f, indent=1, default=str)
    print('%s: %d functions under contract, %d obligations, %d discharged, %d violations, %d known, %d undecided, %d errors, %.1fs -> exit %d'
          % (a.prop, len(fucs), n_obl, n_dis, nviol, len(seen_known), len(undecided), len(errors), wall, code))
    if a.v:
        for f in fucs:
            print('  ', f)
        for r in results:
            for n in r['notes']:
                print('   note', r['ident'], n)
    return code


if __name__ == '__main__':
    sys.exit(main())

"""Path-wise symbolic interpreter for the Python subset of DESIGN §2.2, over the *real* AST.

Direct style: symbolic branches ask the State for a concrete decision (re-execution based
enumeration, see PathCtl); Python-level exceptions of the program are RaiseSig.
"""
import ast
import builtins as _bi
import z3
from .core import *  # noqa
from . import core, lib
from .lib import truthy, eq, contains, raise_, unopt


BUILTIN_TYPES = {'str', 'bytes', 'int', 'float', 'bool', 'list', 'tuple', 'dict', 'set', 'bytearray', 'object', 'type',
                 'frozenset'}


class Frame:
    def __init__(self, env=None, parent=None, clsname=None):
        self.env = env if env is not None else {}
        self.parent = parent
        self.clsname = clsname

    alias = {}      # recorded local name -> current name (consistently renamed locals, see pyvc/locals_.py); set per FUC run

    def lookup(self, name):
        f = self
        while f is not None:
            if name in f.env:
                return f.env[name]
            f = f.parent
        if name in Frame.alias:
            return self.lookup(Frame.alias[name])
        raise KeyError(name)

    def has(self, name):
        try:
            self.lookup(name)
            return True
        except KeyError:
            return False


class LoopSpec:
    """invariant for one loop (keyed by ordinal in the function): inv = [(label, fn(I)->BoolRef)];
    havoc_fields/havoc_ghost name what the body may change besides assigned locals;
    kinds: name->Kind for havocked locals whose kind cannot be inferred from the current value."""

    def __init__(self, inv=(), havoc_fields=(), kinds=None, unroll=None, havoc_hook=None, keep=None, entry_hook=None,
                 iter_hook=None, body_hook=None, modular=False, frame_fields=(), stable_locals=()):
        # modular=True: the arbitrary iteration is verified once, in a context that contains only the contract's setup
        # assumptions and the invariant (Hoare-style), instead of once per path that reaches the loop
        self.modular, self.frame_fields, self.stable_locals = modular, set(frame_fields), set(stable_locals)
        self.entry_hook = entry_hook
        self.iter_hook = iter_hook      # called at the end of an arbitrary iteration that continues the loop
        self.body_hook = body_hook      # called at the start of an arbitrary iteration (after the loop variable is bound)
        self.inv, self.havoc_fields, self.kinds = list(inv), list(havoc_fields), dict(kinds or {})
        self.unroll = unroll
        self.havoc_hook = havoc_hook
        self.keep = keep or {}


MODULAR_OWNER = {}


class Interp:
    def __init__(self, st, spec, modinfo, clsname=None):
        self.st = st
        self.spec = spec
        self.mod = modinfo
        self.frame = Frame(clsname=clsname)
        self.loop_ord = {}
        self.join_terms = []
        self.pure = 0
        self.recv = None
        self.bounded_loops = []
        self.comp_ctx = []

    # ---------------------------------------------------------------- conveniences
    def branch(self, cond, label='if'):
        if self.pure:
            raise Unsupported('fork inside pure (quantified) context')
        return self.st.branch(cond, label)

    def assume(self, f, label=None):
        self.st.assume(f, label)

    def oblige(self, name, goal, detail=None):
        return self.st.oblige(name, goal, detail)

    def local(self, name):
        return self.frame.lookup(name)

    def field(self, ref, fname):
        r = ref.t if isinstance(ref, VRef) else ref
        return self.st.read_field(r, fname)

    def fz(self, ref, fname):
        v = self.field(ref, fname)
        return v.t

    # ---------------------------------------------------------------- function entry
    def number_loops(self, fnode):
        n = [0]

        def walk(node):
            for ch in ast.iter_child_nodes(node):
                if isinstance(ch, (ast.FunctionDef, ast.AsyncFunctionDef, ast.Lambda, ast.ClassDef)):
                    continue
                if isinstance(ch, (ast.For, ast.While)):
                    self.loop_ord[id(ch)] = n[0]
                    n[0] += 1
                walk(ch)
        walk(fnode)
        return n[0]

    def bind_args(self, fnode, args, kwargs, defaults_frame=None):
        a = fnode.args
        env = {}
        params = [p.arg for p in a.posonlyargs + a.args]
        pos = list(args)
        for i, p in enumerate(params):
            if i < len(pos):
                env[p] = pos[i]
        if len(pos) > len(params):
            if a.vararg is None:
                raise Unsupported('too many positional args for %s' % fnode.name)
            env[a.vararg.arg] = VTuple(pos[len(params):])
        elif a.vararg is not None:
            env[a.vararg.arg] = VTuple([])
        kw = dict(kwargs)
        for p in params + [k.arg for k in a.kwonlyargs]:
            if p in kw:
                env[p] = kw.pop(p)
        nd = len(a.defaults)
        for i, p in enumerate(params):
            if p not in env:
                j = i - (len(params) - nd)
                if j < 0:
                    raise Unsupported('missing argument %s of %s' % (p, fnode.name))
                env[p] = self.eval(a.defaults[j])
        for k, d in zip(a.kwonlyargs, a.kw_defaults):
            if k.arg not in env:
                if d is None:
                    raise Unsupported('missing kw-only %s' % k.arg)
                env[k.arg] = self.eval(d)
        if a.kwarg is not None:
            env[a.kwarg.arg] = VCDict(kw)
        elif kw:
            raise Unsupported('unexpected kwargs %r for %s' % (list(kw), fnode.name))
        return env

    def run_function(self, fnode, env):
        """executes body; returns ('return', value) or ('raise', VExc)"""
        self.number_loops(fnode)
        self.frame = Frame(env, self.frame.parent, self.frame.clsname)
        try:
            self.exec_block(fnode.body)
        except ReturnSig as r:
            return ('return', r.value)
        except RaiseSig as r:
            return ('raise', r.exc)
        return ('return', NONE)

    def call_closure(self, f, args, kwargs):
        saved = self.frame
        try:
            if isinstance(f.node, ast.Lambda):
                self.frame = Frame({}, f.closure, saved.clsname)
                env = self.bind_args(f.node, args, kwargs)
                self.frame = Frame(env, f.closure, saved.clsname)
                return self.eval(f.node.body)
            if _is_genfn(f.node):
                self.st.notes.append('generator function %s called: body not executed, opaque generator object returned' % f.name)
                return VCons('generator', [], attrs={'__gen__': VStr(f.name)})
            self.frame = Frame({}, f.closure, saved.clsname)
            env = self.bind_args(f.node, args, kwargs)
            self.frame = Frame(env, f.closure, saved.clsname)
            self.number_loops(f.node)
            try:
                self.exec_block(f.node.body)
            except ReturnSig as r:
                return r.value
            return NONE
        finally:
            self.frame = saved

    # ---------------------------------------------------------------- helpers without a contract: executed in place
    def find_helper(self, f):
        """a callee that has no contract but whose definition is in the file of the function under contract: a method of the class
        under contract called on `self` (the class and its bases in this file are searched), or a module-level function.  Such a
        helper is not trusted and not skipped: its real body is executed symbolically in place (more precise than any contract),
        to depth 3, never recursively; generator functions and property objects are not inlined."""
        name = f.name.split('.')[-1]
        b = f.bound
        tree = self.mod.tree
        if b is None:
            if '.' in f.name:
                return None
            for node in tree.body:
                if isinstance(node, ast.FunctionDef) and node.name == name:
                    return (node, None, None)
            return None
        if not isinstance(b, (VRef, VClass)):
            return None
        try:
            selfv = self.frame.lookup('self')
        except KeyError:
            selfv = None
        if isinstance(b, VRef) and not (isinstance(selfv, VRef) and (selfv is b or z3.eq(selfv.t, b.t))):
            return None
        cls = self.frame_clsname() if isinstance(b, VRef) else b.name
        classes = {n.name: n for n in tree.body if isinstance(n, ast.ClassDef)}
        seen = set()
        while cls in classes and cls not in seen:
            seen.add(cls)
            for st in classes[cls].body:
                if isinstance(st, ast.FunctionDef) and st.name == name:
                    decos = {ast.unparse(d).split('(')[0].split('.')[-1] for d in st.decorator_list}
                    if decos - {'staticmethod', 'classmethod', 'handler'}:
                        return None
                    return (st, cls, decos)
            bases = [ast.unparse(x).split('.')[-1] for x in classes[cls].bases]
            cls = next((x for x in bases if x in classes), None)
        return None

    def inline_helper(self, f, h, args, kwargs):
        node, cls, decos = h
        stack = self.__dict__.setdefault('_inline_stack', [])
        if id(node) in stack or len(stack) >= 3:
            raise Unsupported('helper %s without contract: recursive or nested deeper than 3' % f.name)
        if _is_genfn(node):
            raise Unsupported('generator helper %s without contract' % f.name)
        if cls is not None and 'staticmethod' not in decos:
            args = [VClass(cls) if 'classmethod' in decos else f.bound] + list(args)
        self.st.notes.append('helper %s has no contract: its body (line %d) is executed in place' % (f.name, node.lineno))
        saved = self.frame
        saved_ord = getattr(self, 'loop_ord', None)
        stack.append(id(node))
        try:
            self.frame = Frame({}, None, cls or saved.clsname)
            env = self.bind_args(node, args, kwargs)
            self.frame = Frame(env, None, cls or saved.clsname)
            for sub in ast.walk(node):
                if isinstance(sub, (ast.For, ast.While)) and id(sub) not in (saved_ord or {}):
                    # loops of a helper have no invariant of their own: only concrete ones (literal tuples) can be executed
                    (saved_ord if saved_ord is not None else {}).setdefault(id(sub), 'helper:%s:%d' % (node.name, sub.lineno))
            try:
                self.exec_block(node.body)
            except ReturnSig as r:
                return r.value
            return NONE
        finally:
            stack.pop()
            self.frame = saved

    # ---------------------------------------------------------------- statements
    def exec_block(self, stmts):
        for s in stmts:
            self.exec_stmt(s)

    def exec_stmt(self, s):
        m = getattr(self, 'x_' + type(s).__name__, None)
        if m is None:
            raise Unsupported('statement %s at line %d' % (type(s).__name__, s.lineno))
        hook = self.spec.stmt_hooks.get(s.lineno - self.spec.first_line) if self.spec.stmt_hooks else None
        m(s)

    def x_Pass(self, s):
        pass

    def x_Global(self, s):
        pass

    def x_Nonlocal(self, s):
        for n in s.names:
            self.frame.env.setdefault('__nonlocal__', set()).add(n)

    def x_Import(self, s):
        for a in s.names:
            self.frame.env[(a.asname or a.name).split('.')[0]] = VModule(a.name)

    def x_ImportFrom(self, s):
        for a in s.names:
            self.frame.env[a.asname or a.name] = VClass(a.name)

    def x_Expr(self, s):
        if isinstance(s.value, ast.Constant):
            return
        self.eval(s.value)

    def x_Assert(self, s):
        v = self.eval(s.test)
        if not self.branch(truthy(self, v), 'assert'):
            raise_(self, 'AssertionError')

    def x_Return(self, s):
        raise ReturnSig(self.eval(s.value) if s.value is not None else NONE)

    def x_Break(self, s):
        raise BreakSig()

    def x_Continue(self, s):
        raise ContinueSig()

    def x_FunctionDef(self, s):
        self.frame.env[s.name] = VFunc(s.name, closure=self.frame, node=s)

    def x_Raise(self, s):
        if s.exc is None:
            cur = self.frame.lookup('__current_exc__') if self.frame.has('__current_exc__') else None
            if cur is None:
                raise Unsupported('bare raise outside except')
            raise RaiseSig(cur)
        v = self.eval(s.exc)
        if isinstance(v, VClass):
            v = VExc(v.name, [])
        if isinstance(v, VCons):
            v = VExc(v.tag, v.args, v.attrs)
        if not isinstance(v, VExc):
            raise Unsupported('raise of %r' % (v,))
        raise RaiseSig(v)

    def x_Assign(self, s):
        v = self.eval(s.value)
        for t in s.targets:
            self.assign(t, v)

    def x_AnnAssign(self, s):
        if s.value is not None:
            self.assign(s.target, self.eval(s.value))

    def x_AugAssign(self, s):
        cur = self.eval(s.target)
        rhs = self.eval(s.value)
        self.assign(s.target, self.binop(s.op, cur, rhs))

    def x_Delete(self, s):
        for t in s.targets:
            if isinstance(t, ast.Subscript):
                c = self.eval(t.value)
                if isinstance(c, VDict):
                    key = self.eval(t.slice)
                    k = c.kk.unwrap(key)[0]
                    if not self.branch(z3.Select(c.dom, k), 'del_has'):
                        raise_(self, 'KeyError', key)
                    self.store_back(t.value, VDict(c.kk, c.vk, z3.Store(c.dom, k, False), c.vals, c.loc, c.default), c)
                    continue
                if isinstance(c, VCDict):
                    key = self.eval(t.slice)
                    ks = key.t.as_string()
                    if ks not in c.d:
                        raise_(self, 'KeyError', key)
                    del c.d[ks]
                    continue
                if isinstance(c, VModel) and hasattr(c, 'delitem'):
                    c.delitem(self, self.eval(t.slice))
                    continue
                if isinstance(c, VStr) and isinstance(t.slice, ast.Slice):
                    lo = self.eval_opt_int(t.slice.lower)
                    hi = self.eval_opt_int(t.slice.upper)
                    n = z3.Length(c.t)
                    a = z3.IntVal(0) if lo is None else lib.norm_index(lo, n)
                    b = n if hi is None else lib.norm_index(hi, n)
                    b = z3.If(b < a, a, b)
                    new = VStr(z3.Concat(z3.SubString(c.t, 0, a), z3.SubString(c.t, b, n - b)), c.is_bytes)
                    self.store_back(t.value, new, c)
                    continue
                raise Unsupported('del on %r' % (c,))
            elif isinstance(t, ast.Attribute):
                self.delattr_(self.eval(t.value), self.mangle(t.attr))
            elif isinstance(t, ast.Name):
                self.frame.env.pop(t.id, None)
            else:
                raise Unsupported('del target')

    def x_If(self, s):
        c = truthy(self, self.eval_cond(s.test))
        if self.branch(c, 'if@%d' % s.lineno):
            self.exec_block(s.body)
        else:
            self.exec_block(s.orelse)

    def x_With(self, s):
        for it in s.items:
            txt = ast.unparse(it.context_expr)
            if txt.startswith('contextlib.suppress(') or txt.startswith('suppress('):
                names = [ast.unparse(a) for a in it.context_expr.args]
                try:
                    self.exec_block(s.body)
                except RaiseSig as r:
                    if not any(self.exc_isa(r.exc.cls, n) for n in names):
                        raise
                return
            if 'lock' in txt.lower():
                self.st.notes.append('with %s: treated as no-op (sequential)' % txt)
                continue
            raise Unsupported('with %s' % txt)
        self.exec_block(s.body)

    def x_Try(self, s):
        def run_final():
            if s.finalbody:
                self.exec_block(s.finalbody)
        try:
            try:
                self.exec_block(s.body)
            except RaiseSig as r:
                for h in s.handlers:
                    if h.type is None:
                        names = ['BaseException']
                    elif isinstance(h.type, ast.Tuple):
                        names = [ast.unparse(e) for e in h.type.elts]
                    else:
                        names = [ast.unparse(h.type)]
                    if any(self.exc_isa(r.exc.cls, n) for n in names):
                        if h.name:
                            self.frame.env[h.name] = r.exc
                        saved = self.frame.env.get('__current_exc__')
                        self.frame.env['__current_exc__'] = r.exc
                        try:
                            self.exec_block(h.body)
                        finally:
                            self.frame.env['__current_exc__'] = saved
                        break
                else:
                    raise
            else:
                self.exec_block(s.orelse)
        except (ReturnSig, BreakSig, ContinueSig, RaiseSig):
            run_final()
            raise
        run_final()

    def exc_isa(self, cls, handler_name):
        handler_name = handler_name.split('.')[-1]
        alias = {'IOError': 'OSError', 'EnvironmentError': 'OSError', 'SocketError': 'OSError', 'socket_error': 'OSError',
                 'error': 'OSError'}
        handler_name = self.spec.exc_alias.get(handler_name, alias.get(handler_name, handler_name))
        seen = set()
        c = self.spec.exc_alias.get(cls, alias.get(cls, cls))
        while c is not None and c not in seen:
            seen.add(c)
            if c == handler_name:
                return True
            if c in self.spec.exc_parents:
                c = self.spec.exc_parents[c]
            elif c in self.mod.class_bases:
                c = self.mod.class_bases[c][0].split('.')[-1] if self.mod.class_bases[c] else 'object'
            elif hasattr(_bi, c) and isinstance(getattr(_bi, c), type) and issubclass(getattr(_bi, c), BaseException):
                hb = getattr(_bi, handler_name, None)
                return isinstance(hb, type) and issubclass(getattr(_bi, c), hb)
            else:
                raise Unsupported('unknown exception class %s' % c)
        return False

    # ---------------------------------------------------------------- loops
    def havoc_locals(self, body_nodes, lspec):
        names = set()
        for b in body_nodes:
            for n in ast.walk(b):
                if isinstance(n, ast.Name) and isinstance(n.ctx, (ast.Store, ast.Del)):
                    names.add(n.id)
                elif isinstance(n, ast.Call) and isinstance(n.func, ast.Attribute) and isinstance(n.func.value, ast.Name) \
                        and n.func.attr in ('append', 'appendleft', 'pop', 'popleft', 'add', 'remove', 'extend', 'clear',
                                            'update', 'discard', 'setdefault'):
                    # a method call on an OBJECT (self.discard(x)) does not rebind the local: its effects are the callee's frame
                    if not isinstance(self.frame.env.get(n.func.value.id), VRef):
                        names.add(n.func.value.id)
                elif isinstance(n, ast.Subscript) and isinstance(n.ctx, (ast.Store, ast.Del)) and isinstance(n.value, ast.Name):
                    names.add(n.value.id)
        for nm in sorted(names):
            if nm in lspec.kinds:
                self.frame.env[nm] = lspec.kinds[nm].fresh('hv_' + nm)
            elif nm in self.frame.env:
                cur = self.frame.env[nm]
                if isinstance(cur, (VFunc, VClass, VModule)):
                    continue
                if isinstance(cur, VCList):
                    raise Unsupported('loop mutates concrete-length list %s; give kinds= in LoopSpec' % nm)
                if isinstance(cur, VNone) or isinstance(cur, (VTuple, VCons, VExc)):
                    raise Unsupported('cannot infer kind to havoc local %s; give kinds= in LoopSpec' % nm)
                loc = getattr(cur, 'loc', None)
                nv = kind_of(cur).fresh('hv_' + nm)
                if loc is not None and hasattr(nv, 'loc'):
                    nv.loc = loc
                self.frame.env[nm] = nv
        for f in lspec.havoc_fields:
            self.st.havoc_field(f, lspec.keep.get(f))
        if lspec.havoc_hook:
            lspec.havoc_hook(self)

    def loop_choice(self, lspec, tag, ordn):
        """True: this path explores the arbitrary-iteration branch of the loop"""
        if not lspec.modular:
            return self.st.choice(2, tag) == 0
        cur = tuple((c, n) for c, n, _ in self.st.ctl.trace)
        owner = MODULAR_OWNER.setdefault((self.spec.ident, ordn), cur)
        if owner != cur:
            return False
        return self.st.choice(2, tag) == 0

    def assigned_fields(self):
        names = set()
        for n in ast.walk(self.fnode):
            if isinstance(n, ast.Attribute) and isinstance(n.ctx, (ast.Store, ast.Del)):
                names.add(self.mangle(n.attr))
            elif isinstance(n, ast.AugAssign) and isinstance(n.target, ast.Attribute):
                names.add(self.mangle(n.target.attr))
            elif isinstance(n, ast.Call) and isinstance(n.func, ast.Name) and n.func.id in ('setattr', 'delattr') and len(n.args) >= 2 \
                    and isinstance(n.args[1], ast.Constant):
                names.add(n.args[1].value)
            elif isinstance(n, ast.Call) and isinstance(n.func, ast.Attribute) and isinstance(n.func.value, ast.Attribute):
                # mutating method call on a field: self.f.append(...)
                if n.func.attr in ('append', 'appendleft', 'pop', 'popleft', 'add', 'remove', 'extend', 'clear', 'update', 'discard',
                                   'setdefault', 'insert'):
                    names.add(self.mangle(n.func.value.attr))
            elif isinstance(n, ast.Subscript) and isinstance(n.ctx, (ast.Store, ast.Del)) and isinstance(n.value, ast.Attribute):
                names.add(self.mangle(n.value.attr))
        out = set()
        for a in names:
            out.add(a)
            for (c, at), f in (self.spec.field_alias or {}).items():
                if at == a:
                    out.add(f)
        return {f for f in out if f in self.st.fields}

    def enter_modular(self, lspec, body_nodes):
        st = self.st
        st.pc = st.pc[:st.setup_len]
        st._fs = z3.Solver()
        st._fs.set('timeout', st.opts.get('feas_timeout_ms', 150))
        for f in st.pc:
            st._fs.add(f)
        hv = (self.assigned_fields() | set(lspec.havoc_fields)) - lspec.frame_fields
        for f in sorted(hv):
            st.havoc_field(f, lspec.keep.get(f))
        st.modular_frame = set(st.fields) - hv
        params = {a.arg for a in self.fnode.args.posonlyargs + self.fnode.args.args + self.fnode.args.kwonlyargs}
        used = {n.id for b in body_nodes for n in ast.walk(b) if isinstance(n, ast.Name)}
        env = self.frame.env
        for nm in sorted(list(env)):
            if nm in params or nm.startswith('__') or nm in lspec.stable_locals:
                continue
            cur = env[nm]
            if isinstance(cur, (VFunc, VClass, VModule)):
                continue
            if nm in lspec.kinds:
                env[nm] = lspec.kinds[nm].fresh('hv_' + nm)
                continue
            try:
                k = kind_of(cur)
                if isinstance(cur, VNone):
                    raise Unsupported('none')
                nv = k.fresh('hv_' + nm)
                if getattr(cur, 'loc', None) is not None and hasattr(nv, 'loc'):
                    nv.loc = cur.loc
                env[nm] = nv
            except Unsupported:
                if nm in used:
                    raise Unsupported('modular loop: give kinds= for local %s (value %r)' % (nm, cur))
                del env[nm]

    def check_inv(self, lspec, tag, when):
        for label, f in lspec.inv:
            self.oblige('%s/inv.%s.%s' % (tag, label, when), f(self))

    def assume_inv(self, lspec):
        for label, f in lspec.inv:
            self.assume(f(self), 'inv.' + label)

    def x_While(self, s):
        ordn = self.loop_ord.get(id(s))
        lspec = self.spec.loops.get(ordn)
        tag = 'loop%d' % ordn
        if lspec is None or lspec.unroll:
            k = lspec.unroll if lspec else None
            if k is None:
                # concrete condition loops may simply run
                k = 64
                conc = True
            else:
                conc = False
                self.bounded_loops.append((tag, k))
            for _ in range(k):
                c = truthy(self, self.eval_cond(s.test))
                c = z3.simplify(c)
                if conc and not (z3.is_true(c) or z3.is_false(c)):
                    raise Unsupported('while loop %d at line %d needs an invariant' % (ordn, s.lineno))
                if not self.branch(c, 'while'):
                    self.exec_block(s.orelse)
                    return
                try:
                    self.exec_block(s.body)
                except BreakSig:
                    return
                except ContinueSig:
                    pass
            if conc:
                raise Unsupported('concrete while did not finish in 64 iterations')
            raise PathKill()
        if lspec.entry_hook:
            lspec.entry_hook(self)
        self.check_inv(lspec, tag, 'entry')
        explore = self.loop_choice(lspec, tag, ordn)
        if explore and lspec.modular:
            self.enter_modular(lspec, s.body)
        else:
            self.havoc_locals(s.body, lspec)
        self.assume_inv(lspec)
        c = truthy(self, self.eval_cond(s.test))
        if explore:
            # arbitrary iteration
            self.assume(c)
            if lspec.body_hook:
                lspec.body_hook(self)
            try:
                self.exec_block(s.body)
            except BreakSig:
                return
            except ContinueSig:
                pass
            if lspec.iter_hook:
                lspec.iter_hook(self)
            self.check_inv(lspec, tag, 'preserved')
            raise PathKill()
        self.assume(z3.Not(c))
        self.exec_block(s.orelse)

    def x_For(self, s):
        it = self.eval(s.iter)
        it = unopt(self, it)
        if isinstance(it, VCDict):
            it = VTuple([VStr(k) for k in it.d])
        if isinstance(it, (VTuple, VCList, VGen)):
            for item in list(it.items):
                self.assign(s.target, item)
                try:
                    self.exec_block(s.body)
                except BreakSig:
                    return
                except ContinueSig:
                    continue
            self.exec_block(s.orelse)
            return
        ordn = self.loop_ord.get(id(s))
        lspec = self.spec.loops.get(ordn)
        if lspec is None:
            raise Unsupported('for loop %d at line %d over %r needs an invariant' % (ordn, s.lineno, it))
        tag = 'loop%d' % ordn
        env = self.frame.env
        if isinstance(it, VList):
            env['__idx%d' % ordn] = VInt(it.lo)
            env['__iter%d' % ordn] = it
            if lspec.entry_hook:
                lspec.entry_hook(self)
            self.check_inv(lspec, tag, 'entry')
            explore = self.loop_choice(lspec, tag, ordn)
            if explore and lspec.modular:
                self.enter_modular(lspec, s.body)
                it = self.eval(s.iter)
                env['__iter%d' % ordn] = it
            else:
                self.havoc_locals(s.body, lspec)
            k = core.fresh('k', z3.IntSort())
            env['__idx%d' % ordn] = VInt(k)
            self.assume(z3.And(it.lo <= k, k <= it.hi))
            self.assume_inv(lspec)
            if explore:
                self.assume(k < it.hi)
                self.assign(s.target, it.at(k))
                if lspec.body_hook:
                    lspec.body_hook(self)
                try:
                    self.exec_block(s.body)
                except BreakSig:
                    return
                except ContinueSig:
                    pass
                env['__idx%d' % ordn] = VInt(k + 1)
                if lspec.iter_hook:
                    lspec.iter_hook(self)
                self.check_inv(lspec, tag, 'preserved')
                raise PathKill()
            self.assume(k == it.hi)
            self.exec_block(s.orelse)
            return
        if isinstance(it, VSet) and it.arr is None:
            self.exec_block(s.orelse)
            return
        if isinstance(it, (VSet, VBag)):
            srt = it.ek.sorts()[0]

            def member(x):
                return z3.Select(it.arr, x) if isinstance(it, VSet) else z3.Select(it.arr, x) > 0
            x = core.fresh('vx', srt)
            env['__visited%d' % ordn] = VSet(it.ek, z3.K(srt, z3.BoolVal(False)))
            if lspec.entry_hook:
                lspec.entry_hook(self)
            self.check_inv(lspec, tag, 'entry')
            self.havoc_locals(s.body, lspec)
            vis = core.fresh('visited', z3.ArraySort(srt, z3.BoolSort()))
            env['__visited%d' % ordn] = VSet(it.ek, vis)
            self.assume(z3.ForAll([x], z3.Implies(z3.Select(vis, x), member(x))))
            self.assume_inv(lspec)
            if self.st.choice(2, tag) == 0:
                e = core.fresh('elem', srt)
                self.assume(z3.And(member(e), z3.Not(z3.Select(vis, e))))
                self.assign(s.target, it.ek.wrap([e]))
                if isinstance(it.ek, type(Ref)):
                    self.assume(e != core.null())
                if lspec.body_hook:
                    lspec.body_hook(self)
                try:
                    self.exec_block(s.body)
                except BreakSig:
                    return
                except ContinueSig:
                    pass
                env['__visited%d' % ordn] = VSet(it.ek, z3.Store(vis, e, True))
                if lspec.iter_hook:
                    lspec.iter_hook(self)
                self.check_inv(lspec, tag, 'preserved')
                raise PathKill()
            self.assume(z3.ForAll([x], z3.Implies(member(x), z3.Select(vis, x))))
            self.exec_block(s.orelse)
            return
        raise Unsupported('for over %r' % (it,))

    # ---------------------------------------------------------------- assignment
    def mangle(self, attr):
        if attr.startswith('__') and not attr.endswith('__') and self.frame.clsname:
            return '_%s%s' % (self.frame.clsname.lstrip('_'), attr)
        return attr

    def assign(self, t, v):
        if isinstance(t, ast.Name):
            f = self.frame
            nl = f.env.get('__nonlocal__', ())
            if t.id in nl:
                p = f.parent
                while p is not None and t.id not in p.env:
                    p = p.parent
                if p is not None:
                    p.env[t.id] = v
                    return
            f.env[t.id] = v
        elif isinstance(t, (ast.Tuple, ast.List)):
            v = unopt(self, v)
            if isinstance(v, VGen):
                v = VTuple(v.items)
            if isinstance(v, VList):
                n = len(t.elts)
                if not self.branch(v.hi - v.lo == n, 'unpack_len'):
                    raise_(self, 'ValueError', VStr('unpack'))
                v = VTuple([v.at(v.lo + i) for i in range(n)])
            if not isinstance(v, (VTuple, VCList)):
                raise Unsupported('unpack of %r' % (v,))
            if any(isinstance(e, ast.Starred) for e in t.elts):
                raise Unsupported('starred unpack')
            if len(v.items) != len(t.elts):
                raise_(self, 'ValueError', VStr('not enough/too many values to unpack'))
            for e, x in zip(t.elts, v.items):
                self.assign(e, x)
        elif isinstance(t, ast.Attribute):
            obj = self.eval(t.value)
            self.setattr_(obj, self.mangle(t.attr), v)
        elif isinstance(t, ast.Subscript):
            c = self.eval(t.value)
            c = unopt(self, c)
            if isinstance(c, VDict):
                key = self.eval(t.slice)
                self.store_back(t.value, lib.dict_store(c, key, v), c)
            elif isinstance(c, VCDict):
                key = self.eval(t.slice)
                c.d[key.t.as_string()] = v
            elif isinstance(c, VCList):
                i = self.eval(t.slice)
                if not z3.is_int_value(z3.simplify(i.t)):
                    raise Unsupported('symbolic index store into concrete list')
                c.items[z3.simplify(i.t).as_long()] = v
            elif isinstance(c, VList):
                i = coerce(self.eval(t.slice), Int).t
                _, j = lib.list_index(self, c, i)
                comps = c.ek.unwrap(v)
                new = VList(c.ek, [z3.Store(a, j, x) for a, x in zip(c.arrs, comps)], c.lo, c.hi, c.loc)
                if c.ek in (Str, Bytes):
                    lib.flat_axioms(self, c, new, j)
                self.store_back(t.value, new, c)
            elif isinstance(c, VModel):
                c.setitem(self, self.eval(t.slice), v)
            else:
                raise Unsupported('subscript store on %r' % (c,))
        else:
            raise Unsupported('assign target %s' % type(t).__name__)

    def write_loc(self, loc, value):
        if loc[0] == 'field':
            self.st.write_field(loc[1], loc[2], value)
        elif loc[0] == 'slot':
            _, dloc, key = loc
            d = self.read_loc(dloc)
            nd = lib.dict_store(d, key, value)
            self.write_loc(dloc, nd)
        else:
            raise Unsupported('loc %r' % (loc,))

    def read_loc(self, loc):
        if loc[0] == 'field':
            return self.st.read_field(loc[1], loc[2])
        if loc[0] == 'slot':
            d = self.read_loc(loc[1])
            return lib.dict_get_slot(self, d, loc[2])[1]
        raise Unsupported('loc %r' % (loc,))

    def store_back(self, node, new, old=None):
        """write a new collection value to where the expression `node` denotes"""
        loc = getattr(old, 'loc', None) if old is not None else None
        if loc is not None and hasattr(new, 'loc'):
            new.loc = loc
        if isinstance(node, ast.Name):
            self.assign(node, new)
            if loc is not None:
                self.write_loc(loc, new)
        elif isinstance(node, (ast.Attribute, ast.Subscript)):
            if loc is not None:
                self.write_loc(loc, new)
            else:
                self.assign(node, new)
        elif loc is not None:
            self.write_loc(loc, new)
        # else: temporary value, mutation is unobservable

    def falias(self, obj, attr):
        if self.spec.field_alias:
            return self.spec.field_alias.get((obj.cls, attr), attr)
        return attr

    def setattr_(self, obj, attr, v):
        obj = unopt(self, obj)
        if isinstance(obj, VRef):
            attr = self.falias(obj, attr)
            hook = self.spec.setattr_hooks.get(attr)
            if hook:
                if hook(self, obj, v) is not False:
                    return
            self.st.write_field(obj.t, attr, v)
        elif isinstance(obj, (VCons, VExc)):
            obj.attrs[attr] = v
        elif isinstance(obj, VModel):
            obj.setattr(self, attr, v)
        elif isinstance(obj, VNone):
            raise_(self, 'AttributeError', VStr(attr))
        else:
            raise Unsupported('setattr on %r' % (obj,))

    def delattr_(self, obj, attr):
        if isinstance(obj, VRef):
            attr = self.falias(obj, attr)
            k = self.st.fields.get(attr)
            if not isinstance(k, Dyn):
                raise Unsupported('delattr of non-Dyn field %s' % attr)
            cur = self.st.read_field(obj.t, attr)
            if not self.branch(cur.present, 'has_' + attr):
                raise_(self, 'AttributeError', VStr(attr))
            self.st.write_field(obj.t, attr, VDyn(z3.BoolVal(False), cur.val, k.k))
        elif isinstance(obj, (VCons, VExc)):
            if attr not in obj.attrs:
                raise_(self, 'AttributeError', VStr(attr))
            del obj.attrs[attr]
        else:
            raise Unsupported('delattr on %r' % (obj,))

    def getattr_(self, obj, attr, default=None, node=None):
        obj = unopt(self, obj)
        if isinstance(obj, VRef):
            attr = self.falias(obj, attr)
            hook = self.spec.getattr_hooks.get(attr)
            if hook:
                r = hook(self, obj)
                if r is not None:
                    return r
            if attr in self.st.fields:
                if self.st.opts.get('null_check', True) and self.st.feasible(obj.t == core.null()):
                    if self.branch(obj.t == core.null(), 'nullderef'):
                        if default is not None:
                            return default
                        raise_(self, 'AttributeError', VStr("'NoneType' object has no attribute " + attr))
                v = self.st.read_field(obj.t, attr)
                if isinstance(v, VDyn):
                    if self.branch(v.present, 'has_' + attr):
                        return v.val
                    if default is not None:
                        return default
                    raise_(self, 'AttributeError', VStr(attr))
                return v
            if default is not None:
                if attr in self.spec.absent_attrs:
                    return default
            # a literal class attribute of the class under contract (self.CONSTANT)
            if node is not None and isinstance(node.value, ast.Name) and node.value.id == 'self':
                cc = getattr(self.mod, 'class_consts', {}).get(self.frame_clsname(), {})
                if attr in cc and isinstance(cc[attr], (int, float, str, bytes, bool)) or (attr in cc and cc[attr] is None):
                    return self.e_Constant(ast.Constant(cc[attr]))
                # an instance attribute __init__ sets once to a constant expression and nothing else assigns
                ie = getattr(self.mod, 'init_exprs', {}).get(self.frame_clsname(), {})
                if attr in ie:
                    try:
                        v = self.eval(ie[attr])
                        self.st.notes.append('self.%s read as the constant expression __init__ assigns (%s)' % (attr, ast.unparse(ie[attr])))
                        return v
                    except Unsupported:
                        pass
            # opts auto_attrs: an attribute of self the contract does not know and that is no method of the class is SOME value
            if self.spec.opts.get('auto_attrs') and node is not None and isinstance(node.value, ast.Name) and node.value.id == 'self':
                methods = getattr(self.mod, '_all_methods', None)
                if methods is None:
                    methods = {f.name for c in ast.walk(self.mod.tree) if isinstance(c, ast.ClassDef) for f in c.body
                               if isinstance(f, (ast.FunctionDef, ast.AsyncFunctionDef))}
                    self.mod._all_methods = methods
                if attr not in methods and attr not in self.spec.calls:
                    self.st.declare_field(attr, Any)
                    self.st.notes.append('self.%s is not named in the contract: read as an arbitrary value' % attr)
                    return self.st.read_field(obj.t, attr)
            return VFunc('%s.%s' % (obj.cls or 'obj', attr), bound=obj)
        if isinstance(obj, (VCons, VExc)):
            if attr in obj.attrs:
                return obj.attrs[attr]
            if attr == 'args':
                return VCList(obj.args)
            if isinstance(obj, VExc) and attr == 'errno':
                return obj.args[0] if obj.args else NONE
            if attr == 'kwargs' and isinstance(obj, VCons):
                return VCDict(obj.kwargs)
            if attr == 'name' and isinstance(obj, VCons):
                return VStr(obj.tag)
            if default is not None:
                return default
            raise Unsupported('attribute %s of %r' % (attr, obj))
        if isinstance(obj, VNone):
            if default is not None:
                return default
            raise_(self, 'AttributeError', VStr("'NoneType' object has no attribute " + attr))
        if isinstance(obj, VModel):
            return obj.getattr(self, attr)
        if isinstance(obj, VModule):
            return self.resolve_global('%s.%s' % (obj.name, attr))
        if isinstance(obj, (VStr, VList, VSet, VBag, VDict, VCList, VTuple, VCDict, VAny, VInt, VClass, VFunc)):
            if isinstance(obj, VFunc) and attr == '__name__':
                return VStr(obj.name.split('.')[-1])
            return VFunc(attr, bound=obj)
        raise Unsupported('getattr %s on %r' % (attr, obj))

    def frame_clsname(self):
        f = self.frame
        while f is not None:
            if f.clsname:
                return f.clsname
            f = f.parent
        return None

    # ---------------------------------------------------------------- expressions
    def eval_cond(self, node):
        return self.eval(node)

    def eval_opt_int(self, node):
        if node is None:
            return None
        v = self.eval(node)
        return coerce(v, Int).t

    def eval(self, node):
        m = getattr(self, 'e_' + type(node).__name__, None)
        if m is None:
            raise Unsupported('expression %s at line %d' % (type(node).__name__, getattr(node, 'lineno', 0)))
        return m(node)

    def e_Constant(self, n):
        v = n.value
        if v is None:
            return NONE
        if isinstance(v, bool):
            return VBool(v)
        if isinstance(v, int):
            return VInt(v)
        if isinstance(v, float):
            return VReal(z3.RealVal(repr(v)))
        if isinstance(v, (str, bytes)):
            return VStr(v)
        if v is Ellipsis:
            return NONE
        raise Unsupported('constant %r' % (v,))

    def e_Name(self, n):
        try:
            return self.frame.lookup(n.id)
        except KeyError:
            pass
        # a name the function under contract binds somewhere (assignment, for/with/except target) but not on this path: Python raises
        # UnboundLocalError (a NameError) - a real outcome of the code, not something outside the subset
        fn_ = getattr(self, 'fnode', None)
        if fn_ is not None and self.frame.parent is None and not (n.id in self.spec.env or n.id in self.spec.calls):
            bound = getattr(fn_, '_pyvc_bound', None)
            if bound is None:
                bound = set()
                for x in ast.walk(fn_):
                    if isinstance(x, ast.Name) and isinstance(x.ctx, ast.Store):
                        bound.add(x.id)
                    elif isinstance(x, ast.ExceptHandler) and x.name:
                        bound.add(x.name)
                    elif isinstance(x, (ast.Global, ast.Nonlocal)):
                        bound -= set(x.names)
                bound -= {a.arg for a in fn_.args.args + fn_.args.kwonlyargs}
                fn_._pyvc_bound = bound
            if n.id in bound:
                raise_(self, 'UnboundLocalError', VStr("cannot access local variable '%s' where it is not associated with a value" % n.id))
        return self.resolve_global(n.id)

    def resolve_global(self, name):
        if name in self.spec.env:
            v = self.spec.env[name]
            return v(self) if callable(v) and not isinstance(v, Value) else v
        if name in self.mod.consts:
            c = self.mod.consts[name]
            return self.from_python(c)
        if name in self.spec.classes:
            return VClass(name)
        if name in self.spec.calls:
            return VFunc(name)
        short = name.split('.')[-1]
        if name in BUILTINS and name not in BUILTIN_TYPES:
            return VFunc(name)
        if name in BUILTIN_TYPES or name in self.mod.class_bases or (hasattr(_bi, name) and isinstance(getattr(_bi, name), type)):
            return VClass(name)
        if hasattr(_bi, name):
            return VFunc(name)
        if name in self.mod.imported_names or name in self.mod.func_names:
            return VClass(name) if short[:1].isupper() or name in self.spec.classes else VFunc(name)
        raise Unsupported('unresolved name %s' % name)

    def from_python(self, c):
        if c is None:
            return NONE
        if isinstance(c, bool):
            return VBool(c)
        if isinstance(c, int):
            return VInt(c)
        if isinstance(c, float):
            return VReal(z3.RealVal(repr(c)))
        if isinstance(c, (str, bytes)):
            return VStr(c)
        if isinstance(c, (tuple, list)):
            items = [self.from_python(x) for x in c]
            return VTuple(items) if isinstance(c, tuple) else VCList(items)
        raise Unsupported('python constant %r' % (c,))

    def e_Tuple(self, n):
        items = []
        for e in n.elts:
            if isinstance(e, ast.Starred):
                v = self.eval(e.value)
                if not isinstance(v, (VTuple, VCList)):
                    raise Unsupported('star of %r' % (v,))
                items.extend(v.items)
            else:
                items.append(self.eval(e))
        return VTuple(items)

    def e_List(self, n):
        # [a, b, *bag]: a list display that splices in a multiset-typed table is itself viewed as a multiset (order abstracted, as for
        # the table): the members counted once more each
        stars = [e for e in n.elts if isinstance(e, ast.Starred)]
        if stars:
            vals = [(e, self.eval(e.value if isinstance(e, ast.Starred) else e)) for e in n.elts]
            bags = [v for e, v in vals if isinstance(e, ast.Starred) and isinstance(unopt(self, v), VBag)]
            if bags and all(isinstance(e, ast.Starred) or isinstance(unopt(self, v), VRef) for e, v in vals) and len(bags) == len(stars) == 1:
                return self.bag_plus(unopt(self, bags[0]), [unopt(self, v) for e, v in vals if not isinstance(e, ast.Starred)])
        return VCList(self.e_Tuple(n).items)

    def bag_plus(self, bag, refs):
        arr = bag.arr
        for r in refs:
            arr = z3.Store(arr, r.t, z3.Select(arr, r.t) + 1)
        return VBag(bag.ek, arr)

    def e_Set(self, n):
        return VTuple(self.e_Tuple(n).items)

    def e_Dict(self, n):
        d = {}
        for k, v in zip(n.keys, n.values):
            if k is None:
                o = self.eval(v)
                if not isinstance(o, VCDict):
                    raise Unsupported('** of %r' % (o,))
                d.update(o.d)
                continue
            kv = self.eval(k)
            if not (isinstance(kv, VStr) and z3.is_string_value(kv.t)):
                raise Unsupported('dict display with symbolic key')
            d[kv.t.as_string()] = self.eval(v)
        return VCDict(d)

    def e_JoinedStr(self, n):
        parts = []
        for v in n.values:
            if isinstance(v, ast.Constant):
                parts.append(z3.StringVal(v.value))
            else:
                if v.format_spec is not None:
                    fs = ast.unparse(v.format_spec)
                    if fs not in ("f's'", "f'd'", "'s'", "'d'"):
                        raise Unsupported('format spec %s' % fs)
                if v.conversion in (ord('r'), ord('a')):
                    # repr()/ascii() of an arbitrary object: some string (its content never matters to the contracts; if the
                    # operand cannot even be evaluated - e.g. an attribute chain only used in a message - it is not evaluated)
                    try:
                        self.eval(v.value)
                    except Unsupported:
                        pass
                    parts.append(core.fresh('repr', z3.StringSort()))
                    continue
                try:
                    val = self.eval(v.value)
                    parts.append(lib.to_str(self, val).t)
                except Unsupported:
                    parts.append(core.fresh('formatted', z3.StringSort()))
        if not parts:
            return VStr('')
        return VStr(z3.Concat(*parts) if len(parts) > 1 else parts[0])

    def e_Attribute(self, n):
        txt = ast.unparse(n)
        if txt in self.spec.env:
            return self.spec.env[txt]
        if txt in self.spec.attr_hooks:
            return self.spec.attr_hooks[txt](self)
        obj = self.eval(n.value)
        return self.getattr_(obj, self.mangle(n.attr), node=n)

    def e_IfExp(self, n):
        c = truthy(self, self.eval_cond(n.test))
        if self.pure:
            a, b = self.eval(n.body), self.eval(n.orelse)
            if isinstance(a, VStr) and isinstance(b, VStr):
                return VStr(z3.If(c, a.t, b.t), a.is_bytes)
            if isinstance(a, VInt) and isinstance(b, VInt):
                return VInt(z3.If(c, a.t, b.t))
            if isinstance(a, VBool) and isinstance(b, VBool):
                return VBool(z3.If(c, a.t, b.t))
            raise Unsupported('pure ifexp of %r/%r' % (a, b))
        if self.branch(c, 'ifexp'):
            return self.eval(n.body)
        return self.eval(n.orelse)

    def e_BoolOp(self, n):
        is_and = isinstance(n.op, ast.And)
        if self.pure:
            ts = [truthy(self, self.eval(v)) for v in n.values]
            return VBool(z3.And(ts) if is_and else z3.Or(ts))
        v = None
        for i, sub in enumerate(n.values):
            v = self.eval(sub)
            if i == len(n.values) - 1:
                return v
            t = truthy(self, v)
            tv = self.branch(t, 'and' if is_and else 'or')
            if is_and and not tv:
                return v
            if not is_and and tv:
                return v
        return v

    def e_UnaryOp(self, n):
        v = self.eval(n.operand)
        if isinstance(n.op, ast.Not):
            return VBool(z3.Not(truthy(self, v)))
        if isinstance(n.op, ast.USub):
            if isinstance(v, VInt):
                return VInt(-v.t)
            if isinstance(v, VReal):
                return VReal(-v.t)
        if isinstance(n.op, ast.UAdd) and isinstance(v, (VInt, VReal)):
            return v
        raise Unsupported('unary %s on %r' % (type(n.op).__name__, v))

    def e_BinOp(self, n):
        return self.binop(n.op, self.eval(n.left), self.eval(n.right))

    def binop(self, op, a, b):
        a, b = unopt(self, a), unopt(self, b)
        on = type(op).__name__
        if isinstance(a, VBool):
            a = coerce(a, Int)
        if isinstance(b, VBool):
            b = coerce(b, Int)
        if isinstance(a, VStr) and isinstance(b, VStr) and on == 'Add':
            if a.is_bytes != b.is_bytes:
                raise_(self, 'TypeError', VStr('str/bytes concat'))
            return VStr(z3.Concat(a.t, b.t), a.is_bytes)
        if isinstance(a, VStr) and on == 'Mod':
            return lib.percent_format(self, a, b)
        if isinstance(a, VStr) and isinstance(b, VInt) and on == 'Mult':
            if z3.is_int_value(b.t):
                k = b.t.as_long()
                return VStr(z3.Concat(*[a.t] * k) if k > 1 else (a.t if k == 1 else z3.StringVal('')), a.is_bytes)
        if isinstance(a, (VInt, VReal)) and isinstance(b, (VInt, VReal)):
            real = isinstance(a, VReal) or isinstance(b, VReal)
            if real:
                x, y = coerce(a, Real).t, coerce(b, Real).t
                W = VReal
            else:
                x, y = a.t, b.t
                W = VInt
            if on == 'Add':
                return W(x + y)
            if on == 'Sub':
                return W(x - y)
            if on == 'Mult':
                return W(x * y)
            if on == 'Div':
                yr = coerce(b, Real).t
                if self.branch(yr == 0, 'divzero'):
                    raise_(self, 'ZeroDivisionError')
                return VReal(coerce(a, Real).t / yr)
            if not real:
                if on in ('FloorDiv', 'Mod'):
                    if self.branch(y == 0, 'divzero'):
                        raise_(self, 'ZeroDivisionError')
                    # python floor semantics; z3 div/mod are euclidean: agree for y > 0
                    if z3.is_int_value(y) and y.as_long() > 0:
                        return VInt(x / y) if on == 'FloorDiv' else VInt(x % y)
                    q = z3.If(y > 0, x / y, -((-x) / (-y)) if False else z3.If(x % y == 0, x / y, z3.If(y > 0, x / y, (x / y) - 0)))
                    raise Unsupported('floor division by symbolic / non-positive divisor')
                if on in ('BitAnd', 'BitOr', 'BitXor', 'LShift', 'RShift'):
                    return VInt(self.bitop(on, x, y))
                if on == 'Pow' and z3.is_int_value(x) and z3.is_int_value(y):
                    return VInt(x.as_long() ** y.as_long())
        if isinstance(a, (VTuple, VCList)) and isinstance(b, (VTuple, VCList)) and on == 'Add' and type(a) is type(b):
            return type(a)(a.items + b.items)
        if isinstance(a, VCList) and isinstance(b, VTuple) and on == 'Add':
            raise_(self, 'TypeError')
        raise Unsupported('binop %s on %r, %r' % (on, a, b))

    def bitop(self, on, x, y):
        """integers are mathematical; bit operations only with a constant right operand"""
        if not z3.is_int_value(z3.simplify(y)):
            if on in ('BitXor', 'BitAnd', 'BitOr'):
                self.st.trusted_used.add('int %s with two symbolic operands: uninterpreted function py_%s on bytes' % (on, on))
                return fn('py_' + on, z3.IntSort(), z3.IntSort(), z3.IntSort())(x, y)
            raise Unsupported('bit op with symbolic shift')
        c = z3.simplify(y).as_long()
        if on == 'LShift':
            return x * (2 ** c)
        if on == 'RShift':
            return x / (2 ** c)  # floor division by positive constant == python >>
        if on == 'BitAnd':
            # x & mask: supported when mask = 2^k - 1 (low bits) or a single-bit / high-bit mask on a byte
            if c >= 0 and (c + 1) & c == 0:
                return x % (c + 1)
            if c > 0 and c & (c - 1) == 0:
                return z3.If((x / c) % 2 == 1, z3.IntVal(c), z3.IntVal(0))
            # contiguous mask of bits [lo,hi)
            lo = (c & -c).bit_length() - 1
            if ((c >> lo) + 1) & (c >> lo) == 0:
                width = (c >> lo).bit_length()
                return ((x / (2 ** lo)) % (2 ** width)) * (2 ** lo)
            if c > 0:
                # any other non-negative mask: bit by bit ((x // 2^i) % 2 is bit i of a Python int, also for negative x)
                bits = [i for i in range(c.bit_length()) if (c >> i) & 1]
                return z3.Sum([z3.If((x / (2 ** i)) % 2 == 1, z3.IntVal(2 ** i), z3.IntVal(0)) for i in bits])
            raise Unsupported('& with mask %d' % c)
        if on == 'BitOr':
            if c == 0:
                return x
            # x | c where c's bits are known to be clear or set: only sound if x & c in {0}: use identity x|c = x + c - (x&c)
            andv = self.bitop('BitAnd', x, z3.IntVal(c))
            return x + c - andv
        raise Unsupported('bit op %s' % on)

    def e_Compare(self, n):
        left = self.eval(n.left)
        conds = []
        for op, rn in zip(n.ops, n.comparators):
            right = self.eval(rn)
            conds.append(self.compare(op, left, right))
            left = right
        return VBool(z3.And(conds) if len(conds) > 1 else conds[0])

    def compare(self, op, a, b):
        on = type(op).__name__
        if on in ('Eq', 'Is'):
            return eq(self, a, b)
        if on in ('NotEq', 'IsNot'):
            return z3.Not(eq(self, a, b))
        if on == 'In':
            return contains(self, a, unopt_pure(self, b))
        if on == 'NotIn':
            return z3.Not(contains(self, a, unopt_pure(self, b)))
        a, b = unopt(self, a), unopt(self, b)
        if isinstance(a, (VInt, VReal, VBool)) and isinstance(b, (VInt, VReal, VBool)):
            if isinstance(a, VReal) or isinstance(b, VReal):
                x, y = coerce(a, Real).t, coerce(b, Real).t
            else:
                x, y = coerce(a, Int).t, coerce(b, Int).t
            return {'Lt': x < y, 'LtE': x <= y, 'Gt': x > y, 'GtE': x >= y}[on]
        if isinstance(a, VNone) or isinstance(b, VNone):
            raise_(self, 'TypeError', VStr('ordering with None'))
        if isinstance(a, VTuple) and isinstance(b, VTuple) and len(a.items) == len(b.items) and a.items:
            # lexicographic
            strict = {'Lt': ast.Lt(), 'LtE': ast.Lt(), 'Gt': ast.Gt(), 'GtE': ast.Gt()}[on]
            res = z3.BoolVal(on in ('LtE', 'GtE'))
            for x, y in reversed(list(zip(a.items, b.items))):
                res = z3.Or(self.compare(strict, x, y), z3.And(eq(self, x, y), res))
            return res
        raise Unsupported('compare %s on %r, %r' % (on, a, b))

    def e_Subscript(self, n):
        c = unopt(self, self.eval(n.value))
        if isinstance(n.slice, ast.Slice):
            if n.slice.step is not None:
                raise Unsupported('slice step')
            lo = self.eval_opt_int(n.slice.lower)
            hi = self.eval_opt_int(n.slice.upper)
            if isinstance(c, VStr):
                return lib.str_slice(self, c, lo, hi)
            if isinstance(c, VList):
                return lib.list_slice(self, c, lo, hi)
            if isinstance(c, (VTuple, VCList)):
                def conc(x):
                    if x is None:
                        return None
                    x = z3.simplify(x)
                    if not z3.is_int_value(x):
                        raise Unsupported('symbolic slice of concrete list')
                    return x.as_long()
                return type(c)(c.items[conc(lo):conc(hi)])
            if isinstance(c, VBag):
                return VBag(c.ek, c.arr)
            raise Unsupported('slice of %r' % (c,))
        idx = self.eval(n.slice)
        if isinstance(c, VStr):
            return lib.str_index(self, c, coerce(idx, Int).t)
        if isinstance(c, VList):
            return lib.list_index(self, c, coerce(idx, Int).t)[0]
        if isinstance(c, (VTuple, VCList)):
            i = z3.simplify(coerce(idx, Int).t)
            if not z3.is_int_value(i):
                raise Unsupported('symbolic index into concrete sequence')
            i = i.as_long()
            if not -len(c.items) <= i < len(c.items):
                raise_(self, 'IndexError', VStr('index out of range'))
            return c.items[i]
        if isinstance(c, VCDict):
            if isinstance(idx, VStr) and z3.is_string_value(idx.t):
                k = idx.t.as_string()
                if k in c.d:
                    return c.d[k]
                raise_(self, 'KeyError', idx)
            raise Unsupported('symbolic key into kwargs')
        if isinstance(c, VDict):
            k, val = lib.dict_get_slot(self, c, idx)
            if self.branch(z3.Select(c.dom, k), 'dict_has'):
                return val
            if c.default:
                dv = lib.dict_empty_value(self, c.vk)
                nd = lib.dict_store(c, idx, dv)
                self.store_back(n.value, nd, c)
                nd2 = self.eval(n.value)
                return lib.dict_get_slot(self, nd2, idx)[1]
            raise_(self, 'KeyError', idx)
        if isinstance(c, VModel):
            return c.getitem(self, idx)
        hook = self.spec.subscript_hook
        if hook:
            r = hook(self, c, idx)
            if r is not None:
                return r
        raise Unsupported('subscript of %r' % (c,))

    def e_Lambda(self, n):
        return VFunc('<lambda>', closure=self.frame, node=n)

    def e_Starred(self, n):
        raise Unsupported('starred expression')

    def e_NamedExpr(self, n):
        v = self.eval(n.value)
        self.assign(n.target, v)
        return v

    def e_Yield(self, n):
        v = self.eval(n.value) if n.value is not None else NONE
        if self.spec.on_yield is None:
            raise Unsupported('yield (generator body)')
        return self.spec.on_yield(self, v)

    def e_YieldFrom(self, n):
        # delegation to a sub-generator: the sub-generator is under its own contract; the spec's hook receives what the call
        # expression evaluates to (through the callee's summary) and returns the value of the `yield from` expression
        hook = getattr(self.spec, 'on_yield_from', None)
        if hook is None:
            raise Unsupported('yield from (generator body)')
        return hook(self, self.eval(n.value))

    # comprehensions --------------------------------------------------------
    def comp_items(self, n):
        """evaluate a comprehension with concrete iteration; returns list of element values"""
        out = []

        def rec(gi):
            if gi == len(n.generators):
                out.append(self.eval(n.elt))
                return
            g = n.generators[gi]
            it = unopt(self, self.eval(g.iter))
            if isinstance(it, VCDict):
                it = VTuple([VStr(k) for k in it.d])
            if not isinstance(it, (VTuple, VCList, VGen)):
                raise _SymbolicIter(it)
            for item in it.items:
                self.assign(g.target, item)
                if all(self.branch(truthy(self, self.eval(c)), 'compif') for c in g.ifs):
                    rec(gi + 1)
        saved = self.frame
        self.frame = Frame({}, saved, saved.clsname)
        try:
            rec(0)
        finally:
            self.frame = saved
        return out

    def comp_symbolic(self, n, it):
        """single-generator comprehension over a symbolic list: returns (index var, guard, element value) pure"""
        if len(n.generators) != 1:
            raise Unsupported('nested comprehension over symbolic list')
        g = n.generators[0]
        if not isinstance(it, VList):
            raise Unsupported('comprehension over %r' % (it,))
        i = core.fresh('ci', z3.IntSort())
        saved = self.frame
        self.frame = Frame({}, saved, saved.clsname)
        self.pure += 1
        try:
            self.assign(g.target, it.at(i))
            guard = z3.And([z3.And(it.lo <= i, i < it.hi)] + [truthy(self, self.eval(c)) for c in g.ifs])
            self.comp_ctx.append((i, guard, it))
            elt = self.eval(n.elt)
        finally:
            self.pure -= 1
            self.frame = saved
            if self.comp_ctx and self.comp_ctx[-1][0] is i:
                self.comp_ctx.pop()
        return i, guard, elt, bool(g.ifs)

    def e_GeneratorExp(self, n):
        try:
            return VGen(self.comp_items(n))
        except _SymbolicIter as s:
            return _LazyComp(n, s.it)

    def e_ListComp(self, n):
        try:
            return VCList(self.comp_items(n))
        except _SymbolicIter as s:
            i, guard, elt, filtered = self.comp_symbolic(n, s.it)
            if filtered:
                raise Unsupported('filtered list comprehension over symbolic list')
            ek = kind_of(elt)
            arrs = [core.fresh('map', z3.ArraySort(z3.IntSort(), x)) for x in ek.sorts()]
            comps = ek.unwrap(elt)
            for a, c in zip(arrs, comps):
                self.assume(z3.ForAll([i], z3.Implies(guard, z3.Select(a, i) == c)))
            return VList(ek, arrs, s.it.lo, s.it.hi)

    def e_SetComp(self, n):
        return VTuple(self.comp_items(n))

    def e_DictComp(self, n):
        """{k: v for t in <symbolic list> if c}: a dict known through its items: every item comes from a source element that
        passes the filter, and every source element that passes the filter has its key in the dict (order and the resolution
        of duplicate keys are abstracted)"""
        if len(n.generators) != 1:
            raise Unsupported('nested dict comprehension')
        g = n.generators[0]
        it = unopt(self, self.eval(g.iter))
        if not isinstance(it, VList):
            raise Unsupported('dict comprehension over %r' % (it,))
        i = core.fresh('ci', z3.IntSort())
        saved = self.frame
        self.frame = Frame({}, saved, saved.clsname)
        self.pure += 1
        try:
            self.assign(g.target, it.at(i))
            guard = z3.And([z3.And(it.lo <= i, i < it.hi)] + [truthy(self, self.eval(c)) for c in g.ifs])
            key, val = self.eval(n.key), self.eval(n.value)
        finally:
            self.pure -= 1
            self.frame = saved
        ek = Tup(kind_of(key), kind_of(val))
        comps = ek.unwrap(VTuple([key, val]))
        arrs = [core.fresh('dcomp', z3.ArraySort(z3.IntSort(), c.sort())) for c in comps]
        m = core.fresh('dcomp_len', z3.IntSort())
        src = z3.Function('dcomp_src!%d' % core.next_id(), z3.IntSort(), z3.IntSort())
        pos = z3.Function('dcomp_pos!%d' % core.next_id(), z3.IntSort(), z3.IntSort())
        p = core.fresh('p', z3.IntSort())
        self.assume(m >= 0)
        at = lambda t, j: z3.substitute(t, (i, j))      # noqa: E731
        self.assume(z3.ForAll([p], z3.Implies(z3.And(0 <= p, p < m), z3.And(
            [at(guard, src(p))] + [z3.Select(a, p) == at(c, src(p)) for a, c in zip(arrs, comps)]))))
        nk = len(ek.ks[0].sorts())
        self.assume(z3.ForAll([i], z3.Implies(guard, z3.And(
            [0 <= pos(i), pos(i) < m] + [z3.Select(a, pos(i)) == c for a, c in list(zip(arrs, comps))[:nk]]))))
        return VItemsDict(VList(ek, arrs, z3.IntVal(0), m))

    # calls ------------------------------------------------------------------
    def eval_args(self, n):
        args, kwargs = [], {}
        for a in n.args:
            if isinstance(a, ast.Starred):
                v = unopt(self, self.eval(a.value))
                if isinstance(v, VModel) and hasattr(v, 'star'):
                    args.extend(v.star(self))
                    continue
                if isinstance(v, VGen):
                    v = VTuple(v.items)
                if not isinstance(v, (VTuple, VCList)):
                    raise Unsupported('call with *%r' % (v,))
                args.extend(v.items)
            else:
                args.append(self.eval(a))
        for k in n.keywords:
            if k.arg is None:
                v = self.eval(k.value)
                if isinstance(v, VModel) and hasattr(v, 'dstar'):
                    kwargs.update(v.dstar(self))
                    continue
                if not isinstance(v, VCDict):
                    raise Unsupported('call with **%r' % (v,))
                kwargs.update(v.d)
            else:
                kwargs[k.arg] = self.eval(k.value)
        return args, kwargs

    def _object_receiver(self, node):
        """the receiver expression is an attribute chain rooted at a name and denotes an object (not a builtin str/list/dict value)"""
        root = node
        while isinstance(root, ast.Attribute):
            root = root.value
        if not isinstance(root, ast.Name) or root.id in self.spec.env or root.id in ('os', 're', 'json', 'time', 'select', 'socket'):
            return False
        try:
            v = self.eval(node)
        except Unsupported:
            return True
        return isinstance(v, (VRef, VModel, VOpt, VDyn))

    def e_Call(self, n):
        txt = ast.unparse(n.func)
        summ = self.spec.calls.get(txt)
        if summ is None and isinstance(n.func, ast.Attribute):
            summ = self.spec.calls.get('*.' + n.func.attr)
            if summ is None:
                # the same method reached through another receiver expression: use the (unique) contract of that method;
                # the summary receives the actual receiver
                cands = [k for k in self.spec.calls if k.endswith('.' + n.func.attr) and k.startswith('self.')]
                if len(cands) == 1 and self._object_receiver(n.func.value):
                    summ = self.spec.calls[cands[0]]
                    self.st.notes.append('call %s matched to the contract registered for %s' % (txt, cands[0]))
                    txt = cands[0]
        if summ is not None:
            recv = None
            if isinstance(n.func, ast.Attribute):
                try:
                    recv = self.eval(n.func.value)
                except Unsupported:
                    recv = None
            args, kwargs = self.eval_args(n)
            key = txt if txt in self.spec.calls else '*.' + n.func.attr
            self.st.ghost.setdefault('__calls__', []).append(key)
            return summ(self, recv, args, kwargs)
        # mutating / pure methods on collection & string values
        if isinstance(n.func, ast.Attribute):
            recv = unopt(self, self.eval(n.func.value))
            name = n.func.attr
            if isinstance(recv, VStr):
                args, kwargs = self.eval_args(n)
                if recv.is_bytes and name in ('append', 'extend'):
                    a0 = unopt(self, args[0])
                    add = z3.StrFromCode(coerce(a0, Int).t) if name == 'append' else a0.t
                    self.store_back(n.func.value, VStr(z3.Concat(recv.t, add), True), recv)
                    return NONE
                return lib.str_method(self, recv, name, args, kwargs)
            if isinstance(recv, (VList, VSet, VBag, VDict)):
                args, kwargs = self.eval_args(n)
                fnm = {VList: lib.list_method, VSet: lib.set_method, VBag: lib.bag_method, VDict: lib.dict_method}[type(recv)]
                res, new = fnm(self, recv, name, args, kwargs)
                if new is not None:
                    self.store_back(n.func.value, new, recv)
                return res
            if isinstance(recv, VCList):
                args, kwargs = self.eval_args(n)
                return self.clist_method(recv, name, args, n)
            if isinstance(recv, VCDict):
                args, kwargs = self.eval_args(n)
                return self.cdict_method(recv, name, args)
            if isinstance(recv, VTuple) and name in ('index', 'count'):
                raise Unsupported('tuple.%s' % name)
            if isinstance(recv, (VRef, VCons, VExc, VModule, VClass, VAny, VNone, VModel)):
                f = self.getattr_(recv, self.mangle(name))
                args, kwargs = self.eval_args(n)
                return self.call_value(f, args, kwargs, n)
            raise Unsupported('method %s on %r' % (name, recv))
        f = self.eval(n.func)
        args, kwargs = self.eval_args(n)
        return self.call_value(f, args, kwargs, n)

    def call_value(self, f, args, kwargs, n=None):
        f = unopt(self, f)
        if isinstance(f, VFunc):
            if f.impl is not None:
                return f.impl(self, f.bound, args, kwargs)
            if f.node is not None:
                return self.call_closure(f, args, kwargs)
            if f.bound is None:
                b = BUILTINS.get(f.name)
                if b is not None:
                    return b(self, args, kwargs)
            b = f.bound
            if isinstance(b, VStr):
                return lib.str_method(self, b, f.name, args, kwargs)
            if isinstance(b, VCDict):
                return self.cdict_method(b, f.name, args)
            if isinstance(b, VCList):
                return self.clist_method(b, f.name, args, n)
            if isinstance(b, (VDict,)) and f.name == 'get':
                return lib.dict_method(self, b, 'get', args, kwargs)[0]
            key = '*.' + f.name.split('.')[-1]
            if key in self.spec.calls:
                return self.spec.calls[key](self, b, args, kwargs)
            h = self.find_helper(f)
            if h is not None:
                return self.inline_helper(f, h, args, kwargs)
            raise Unsupported('call of %s without contract' % f.name)
        if isinstance(f, VClass):
            return self.construct(f.name, args, kwargs)
        if isinstance(f, VModel) and hasattr(f, 'call'):
            return f.call(self, args, kwargs)
        raise Unsupported('call of %r' % (f,))

    def construct(self, name, args, kwargs):
        short = name.split('.')[-1]
        c = self.spec.calls.get(short)
        if c is not None:
            return c(self, None, args, kwargs)
        if short in ('str', 'bytes', 'int', 'float', 'bool', 'list', 'tuple', 'set', 'dict', 'bytearray', 'frozenset', 'type'):
            return BUILTINS[short](self, args, kwargs)
        if self.is_exception_class(short):
            return VExc(short, args, kwargs)
        raise Unsupported('constructor %s without contract' % name)

    def is_exception_class(self, name):
        try:
            return self.exc_isa(name, 'BaseException')
        except Unsupported:
            return False

    def clist_method(self, recv, name, args, n):
        if name == 'append':
            recv.items.append(args[0])
            return NONE
        if name == 'extend':
            o = args[0]
            if isinstance(o, VGen):
                o = VTuple(o.items)
            o = unopt(self, o)
            if isinstance(o, VBag) and all(isinstance(unopt(self, x), VRef) for x in recv.items) and \
                    isinstance(getattr(n, 'func', None), ast.Attribute) and isinstance(n.func.value, ast.Name):
                # concrete list of references extended by a multiset-typed table: from here on the local is that multiset plus the
                # references (order abstracted, as for the table itself)
                self.assign(n.func.value, self.bag_plus(o, [unopt(self, x) for x in recv.items]))
                return NONE
            if not isinstance(o, (VTuple, VCList)):
                raise Unsupported('extend concrete list with %r' % (o,))
            recv.items.extend(o.items)
            return NONE
        if name == 'pop':
            if not recv.items:
                raise_(self, 'IndexError')
            if args:
                i = z3.simplify(args[0].t).as_long()
                return recv.items.pop(i)
            return recv.items.pop()
        if name == 'insert':
            recv.items.insert(z3.simplify(args[0].t).as_long(), args[1])
            return NONE
        if name == 'copy':
            return VCList(recv.items)
        if name == 'clear':
            recv.items.clear()
            return NONE
        if name == 'remove':
            for k, it in enumerate(recv.items):
                if self.branch(eq(self, it, args[0]), 'rm_eq'):
                    del recv.items[k]
                    return NONE
            raise_(self, 'ValueError')
        raise Unsupported('list.%s on concrete list' % name)

    def cdict_method(self, recv, name, args):
        if name in ('get', 'pop'):
            k = args[0]
            if not (isinstance(k, VStr) and z3.is_string_value(k.t)):
                raise Unsupported('kwargs.%s with symbolic key' % name)
            ks = k.t.as_string()
            if ks in recv.d:
                return recv.d.pop(ks) if name == 'pop' else recv.d[ks]
            if len(args) > 1:
                return args[1]
            if name == 'pop':
                raise_(self, 'KeyError', k)
            return NONE
        if name == 'items':
            return VTuple([VTuple([VStr(k), v]) for k, v in recv.d.items()])
        if name == 'keys':
            return VTuple([VStr(k) for k in recv.d])
        if name == 'values':
            return VTuple(list(recv.d.values()))
        if name == 'copy':
            return VCDict(recv.d)
        if name == 'update':
            o = args[0]
            if isinstance(o, VCDict):
                recv.d.update(o.d)
                return NONE
        raise Unsupported('dict.%s on concrete dict' % name)

    # isinstance -------------------------------------------------------------
    def isinstance_(self, v, c):
        """returns z3 Bool"""
        if isinstance(c, VTuple):
            return z3.Or([self.isinstance_(v, x) for x in c.items])
        if isinstance(c, VFunc) and c.name in BUILTIN_TYPES:
            c = VClass(c.name)
        if not isinstance(c, VClass):
            raise Unsupported('isinstance against %r' % (c,))
        name = c.name.split('.')[-1]
        if isinstance(v, VOpt):
            return z3.And(z3.Not(v.isnone), self.isinstance_(v.val, c))
        if name == 'object':
            return z3.BoolVal(True)
        table = {VInt: {'int'}, VBool: {'bool', 'int'}, VReal: {'float'}, VNone: set(), VTuple: {'tuple'},
                 VCList: {'list'}, VList: {'list', 'deque'}, VCDict: {'dict'}, VDict: {'dict'}, VSet: {'set'}, VBag: {'list'}}
        if isinstance(v, VStr):
            return z3.BoolVal(name in (('bytes', 'bytearray') if v.is_bytes else ('str',)))
        for cls, names in table.items():
            if type(v) is cls:
                return z3.BoolVal(name in names)
        if isinstance(v, (VCons, VExc)):
            tag = v.tag if isinstance(v, VCons) else v.cls
            if isinstance(v, VExc):
                return z3.BoolVal(self.exc_isa(tag, name))
            seen = set()
            while tag and tag not in seen:
                seen.add(tag)
                if tag == name:
                    return z3.BoolVal(True)
                tag = self.spec.subclass_of.get(tag)
            return z3.BoolVal(False)
        if isinstance(v, VRef):
            if name in BUILTIN_TYPES:
                return z3.BoolVal(False)
            if v.cls is not None and v.cls in self.spec.subclass_of_closed:
                tag = v.cls
                while tag:
                    if tag == name:
                        return z3.BoolVal(True)
                    tag = self.spec.subclass_of.get(tag)
                return z3.BoolVal(False)
            return z3.And(v.t != core.null(), fn('isinst_' + name, core.RefSort(), z3.BoolSort())(v.t))
        if isinstance(v, VAny):
            self.st.uses_any = True
            return fn('any_isinst_' + name, core.AnySort(), z3.BoolSort())(v.t)
        if isinstance(v, (VFunc, VClass)):
            return z3.BoolVal(name in ('Callable',) if isinstance(v, VFunc) else name == 'type')
        if isinstance(v, VModel):
            if hasattr(v, 'isinstance_of'):
                return v.isinstance_of(self, name)       # contract-defined model with a symbolic type tag
            return z3.BoolVal(name in getattr(v, 'py_types', ()))
        raise Unsupported('isinstance(%r, %s)' % (v, name))


def _is_genfn(node):
    from .contract import is_generator_function
    return is_generator_function(node)


class _SymbolicIter(Exception):
    def __init__(self, it):
        self.it = it


class _LazyComp(Value):
    """generator expression over a symbolic list, only consumable by any()/all()"""

    def __init__(self, node, it):
        self.node, self.it = node, it


def unopt_pure(I, v):
    if isinstance(v, VOpt) and not I.pure:
        return unopt(I, v)
    return v


# --------------------------------------------------------------------------- builtins
def _b_len(I, args, kw):
    v = unopt(I, args[0])
    if isinstance(v, VStr):
        return VInt(z3.Length(v.t))
    if isinstance(v, (VTuple, VCList, VGen)):
        return VInt(len(v.items))
    if isinstance(v, VCDict):
        return VInt(len(v.d))
    if isinstance(v, VList):
        return VInt(v.hi - v.lo)
    if isinstance(v, VBag):
        I.st.trusted_used.add('len(bag): uninterpreted non-negative size, zero iff no element')
        r = fn('bag_size', v.arr.sort(), z3.IntSort())(v.arr)
        x = core.fresh('x', v.ek.sorts()[0])
        I.assume(r >= 0)
        I.assume((r == 0) == z3.Not(z3.Exists([x], z3.Select(v.arr, x) > 0)))
        return VInt(r)
    if isinstance(v, (VDict, VSet)):
        # number of keys / members: an uninterpreted non-negative size of the domain, zero iff it is empty (nothing else is known:
        # in particular the size says nothing about WHICH keys are present)
        I.st.trusted_used.add('len(dict/set): uninterpreted non-negative size of the key set, zero iff empty')
        dom = v.dom if isinstance(v, VDict) else v.arr
        r = fn('dom_size_%d' % dom.sort().domain().hash(), dom.sort(), z3.IntSort())(dom)
        x = core.fresh('x', dom.sort().domain())
        I.assume(r >= 0)
        I.assume((r == 0) == z3.Not(z3.Exists([x], z3.Select(dom, x))))
        return VInt(r)
    if isinstance(v, VRef):
        h = I.spec.calls.get('len')
        if h:
            return h(I, None, [v], {})
    raise Unsupported('len(%r)' % (v,))


def _b_isinstance(I, args, kw):
    return VBool(I.isinstance_(args[0], args[1]))


def _b_int(I, args, kw):
    if not args:
        return VInt(0)
    v = unopt(I, args[0])
    if isinstance(v, VInt):
        return v
    if isinstance(v, VBool):
        return coerce(v, Int)
    if isinstance(v, VStr):
        if len(args) > 1:
            base = z3.simplify(args[1].t)
            if z3.is_int_value(base) and base.as_long() == 16:
                I.st.trusted_used.add('int(s,16): uninterpreted py_int16 (ValueError possible), result >= 0 when no sign')
                ok = fn('py_int16_ok', z3.StringSort(), z3.BoolSort())(v.t)
                val = fn('py_int16_val', z3.StringSort(), z3.IntSort())(v.t)
                hexd = z3.Plus(z3.Union(z3.Range('0', '9'), z3.Range('a', 'f'), z3.Range('A', 'F')))
                I.assume(z3.Implies(z3.InRe(v.t, hexd), z3.And(ok, val >= 0)))
                I.assume(z3.Implies(v.t == z3.StringVal(''), z3.Not(ok)))
                if I.branch(ok, 'int16_ok'):
                    return VInt(val)
                raise_(I, 'ValueError', VStr('invalid literal for int() with base 16'))
            raise Unsupported('int with base')
        return lib.py_int_of_str(I, v.t)
    if isinstance(v, VReal):
        return VInt(z3.ToInt(v.t))
    if isinstance(v, VNone):
        raise_(I, 'TypeError', VStr('int() argument must be a string or a number'))
    raise Unsupported('int(%r)' % (v,))


def _b_str(I, args, kw):
    if not args:
        return VStr('')
    if len(args) > 1:
        v = args[0]
        if isinstance(v, VStr) and v.is_bytes:
            return lib.str_method(I, v, 'decode', args[1:], kw)
    return lib.to_str(I, args[0])


def _b_bytes(I, args, kw):
    if not args:
        return VStr(b'')
    v = unopt(I, args[0])
    if isinstance(v, VStr) and v.is_bytes:
        return v
    if isinstance(v, VStr) and len(args) > 1:
        return lib.str_method(I, v, 'encode', args[1:], kw)
    if isinstance(v, (VCons, VRef)):
        h = I.spec.calls.get('bytes')
        if h:
            return h(I, None, args, kw)
    if isinstance(v, VList) and v.ek is Int:
        return lib.bytes_of_list(I, v)
    if isinstance(v, VGen):
        v = VTuple(v.items)
    if isinstance(v, (VCList, VTuple)):
        parts = [z3.StrFromCode(coerce(x, Int).t) for x in v.items]
        return VStr(z3.Concat(*parts) if len(parts) > 1 else (parts[0] if parts else z3.StringVal('')), True)
    raise Unsupported('bytes(%r)' % (v,))


def _b_bool(I, args, kw):
    return VBool(truthy(I, args[0])) if args else VBool(False)


def _b_float(I, args, kw):
    v = unopt(I, args[0])
    if isinstance(v, (VInt, VReal, VBool)):
        return coerce(v, Real)
    raise Unsupported('float(%r)' % (v,))


def _b_minmax(which):
    def f(I, args, kw):
        items = args
        if len(args) == 1 and isinstance(args[0], (VTuple, VCList, VGen)):
            items = args[0].items
        if not items:
            raise_(I, 'ValueError')
        cur = items[0]
        for x in items[1:]:
            real = isinstance(cur, VReal) or isinstance(x, VReal)
            a, b = (coerce(cur, Real).t, coerce(x, Real).t) if real else (coerce(cur, Int).t, coerce(x, Int).t)
            t = z3.If(a <= b, a, b) if which == 'min' else z3.If(a >= b, a, b)
            cur = VReal(t) if real else VInt(t)
        return cur
    return f


def _b_anyall(which):
    def f(I, args, kw):
        v = args[0]
        if isinstance(v, _LazyComp):
            i, guard, elt, _ = I.comp_symbolic(v.node, v.it)
            t = truthy(I, elt)
            if which == 'any':
                return VBool(z3.Exists([i], z3.And(guard, t)))
            return VBool(z3.ForAll([i], z3.Implies(guard, t)))
        if isinstance(v, (VTuple, VCList, VGen)):
            ts = [truthy(I, x) for x in v.items]
            if which == 'any':
                return VBool(z3.Or(ts + [z3.BoolVal(False)]))
            return VBool(z3.And(ts + [z3.BoolVal(True)]))
        raise Unsupported('%s(%r)' % (which, v))
    return f


def _b_list(I, args, kw):
    if not args:
        return VCList([])
    v = unopt(I, args[0])
    if isinstance(v, VStr) and v.is_bytes:
        return lib.list_of_bytes(I, v)
    if isinstance(v, (VTuple, VCList, VGen)):
        return VCList(v.items)
    if isinstance(v, VList):
        return VList(v.ek, v.arrs, v.lo, v.hi)
    if isinstance(v, VBag):
        return VBag(v.ek, v.arr)
    if isinstance(v, VSet):
        return v
    raise Unsupported('list(%r)' % (v,))


def _b_tuple(I, args, kw):
    if not args:
        return VTuple([])
    v = unopt(I, args[0])
    if isinstance(v, (VTuple, VCList, VGen)):
        return VTuple(v.items)
    if isinstance(v, (VSet, VBag, VList)):
        return v            # an immutable copy of a symbolic collection: same members (order abstracted for sets / multisets)
    raise Unsupported('tuple(%r)' % (v,))


def _b_map(I, args, kw):
    f, it = args[0], unopt(I, args[1])
    if isinstance(it, (VTuple, VCList, VGen)):
        return VGen([I.call_value(f, [x], {}) for x in it.items])
    raise Unsupported('map over %r' % (it,))


def _b_range(I, args, kw):
    vals = [z3.simplify(coerce(a, Int).t) for a in args]
    if all(z3.is_int_value(v) for v in vals):
        return VTuple([VInt(i) for i in range(*[v.as_long() for v in vals])])
    if len(vals) == 1:
        # symbolic range(n): list window with identity content
        arr = core.fresh('range', z3.ArraySort(z3.IntSort(), z3.IntSort()))
        i = core.fresh('i', z3.IntSort())
        I.assume(z3.ForAll([i], z3.Select(arr, i) == i))
        n = z3.If(vals[0] < 0, z3.IntVal(0), vals[0])
        return VList(Int, [arr], z3.IntVal(0), n)
    raise Unsupported('symbolic range with start/step')


def _b_getattr(I, args, kw):
    name = args[1]
    if not (isinstance(name, VStr) and z3.is_string_value(name.t)):
        raise Unsupported('getattr with symbolic name')
    default = args[2] if len(args) > 2 else None
    return I.getattr_(args[0], I.mangle(name.t.as_string()), default=default)


def _b_hasattr(I, args, kw):
    name = args[1].t.as_string()
    obj = unopt(I, args[0])
    if isinstance(obj, VRef):
        name = I.falias(obj, name)
        k = I.st.fields.get(name)
        if isinstance(k, Dyn):
            return VBool(I.st.read_field(obj.t, name).present)
        if k is not None:
            return VBool(True)
        if name in I.spec.absent_attrs:
            return VBool(False)
        h = I.spec.hasattr_hooks.get(name)
        if h:
            return h(I, obj)
        raise Unsupported('hasattr(%r, %s): undeclared' % (obj, name))
    if isinstance(obj, (VCons, VExc)):
        return VBool(name in obj.attrs)
    if isinstance(obj, VAny):
        I.st.uses_any = True
        return VBool(fn('any_hasattr_' + name, core.AnySort(), z3.BoolSort())(obj.t))
    raise Unsupported('hasattr on %r' % (obj,))


def _b_setattr(I, args, kw):
    name = args[1]
    if not (isinstance(name, VStr) and z3.is_string_value(name.t)):
        h = I.spec.calls.get('setattr')
        if h:
            return h(I, None, args, kw)
        raise Unsupported('setattr with symbolic name')
    I.setattr_(args[0], name.t.as_string(), args[2])
    return NONE


def _b_delattr(I, args, kw):
    name = args[1]
    if not (isinstance(name, VStr) and z3.is_string_value(name.t)):
        raise Unsupported('delattr with symbolic name')
    I.delattr_(unopt(I, args[0]), name.t.as_string())
    return NONE


def _b_type(I, args, kw):
    v = args[0]
    if isinstance(v, VStr):
        return VClass('bytes' if v.is_bytes else 'str')
    if isinstance(v, VInt):
        return VClass('int')
    if isinstance(v, VExc):
        return VClass(v.cls)
    if isinstance(v, VCons):
        return VClass(v.tag)
    raise Unsupported('type(%r)' % (v,))


def _b_callable(I, args, kw):
    v = args[0]
    if isinstance(v, (VFunc, VClass)):
        return VBool(True)
    if isinstance(v, (VNone, VInt, VStr, VBool, VTuple, VCList)):
        return VBool(False)
    if isinstance(v, VOpt):
        return VBool(z3.And(z3.Not(v.isnone), _b_callable(I, [v.val], kw).t))
    raise Unsupported('callable(%r)' % (v,))


def _b_hex(I, args, kw):
    I.st.trusted_used.add("hex(n): uninterpreted py_hex with facts: prefix '0x', only [0-9a-f] after it, length >= 3, "
                          "py_int16(hex(n)[2:]) = n for n >= 0")
    t = coerce(args[0], Int).t
    r = fn('py_hex', z3.IntSort(), z3.StringSort())(t)
    hexd = z3.Plus(z3.Union(z3.Range('0', '9'), z3.Range('a', 'f')))
    I.assume(z3.Implies(t >= 0, z3.InRe(r, z3.Concat(z3.Re('0x'), hexd))))
    return VStr(r)


def _b_sum(I, args, kw):
    v = args[0]
    if isinstance(v, (VTuple, VCList, VGen)):
        cur = args[1] if len(args) > 1 else VInt(0)
        for x in v.items:
            cur = I.binop(ast.Add(), cur, x)
        return cur
    raise Unsupported('sum(%r)' % (v,))


def _b_ord(I, args, kw):
    return VInt(z3.StrToCode(args[0].t))


def _b_chr(I, args, kw):
    return VStr(z3.StrFromCode(coerce(args[0], Int).t))


def _b_iter(I, args, kw):
    return args[0]


def _b_id(I, args, kw):
    raise Unsupported('id()')


def _b_enumerate(I, args, kw):
    v = unopt(I, args[0])
    if isinstance(v, VStr) and v.is_bytes:
        v = lib.list_of_bytes(I, v)
    if isinstance(v, VList):
        # list of (index, element): index array is the identity shifted to the window
        idx = core.fresh('enum_idx', z3.ArraySort(z3.IntSort(), z3.IntSort()))
        i = core.fresh('ei', z3.IntSort())
        I.assume(z3.ForAll([i], z3.Select(idx, i) == i - v.lo))
        return VList(Tup(Int, v.ek), [idx] + list(v.arrs), v.lo, v.hi)
    if isinstance(v, (VTuple, VCList, VGen)):
        return VTuple([VTuple([VInt(i), x]) for i, x in enumerate(v.items)])
    raise Unsupported('enumerate(%r)' % (v,))


def _b_zip(I, args, kw):
    vs = [unopt(I, a) for a in args]
    if all(isinstance(v, (VTuple, VCList, VGen)) for v in vs):
        return VTuple([VTuple(list(t)) for t in zip(*[v.items for v in vs])])
    raise Unsupported('zip')


def _b_set(I, args, kw):
    if not args:
        return VSet(None, None)
    v = unopt(I, args[0])
    if isinstance(v, (VTuple, VCList, VGen)):
        return VTuple(v.items)
    if isinstance(v, VSet):
        return VSet(v.ek, v.arr)
    raise Unsupported('set(%r)' % (v,))


def _b_dict(I, args, kw):
    if not args:
        return VCDict(kw)
    v = args[0]
    if isinstance(v, VCDict):
        d = dict(v.d)
        d.update(kw)
        return VCDict(d)
    raise Unsupported('dict(%r)' % (v,))


def _b_repr(I, args, kw):
    I.st.trusted_used.add('repr(): uninterpreted')
    v = args[0]
    if isinstance(v, VStr):
        return VStr(fn('py_repr_str', z3.StringSort(), z3.StringSort())(v.t))
    return VStr(core.fresh('repr', z3.StringSort()))


def _b_abs(I, args, kw):
    v = args[0]
    if isinstance(v, VInt):
        return VInt(z3.If(v.t >= 0, v.t, -v.t))
    if isinstance(v, VReal):
        return VReal(z3.If(v.t >= 0, v.t, -v.t))
    raise Unsupported('abs')


BUILTINS = {
    'len': _b_len, 'isinstance': _b_isinstance, 'int': _b_int, 'str': _b_str, 'bytes': _b_bytes, 'bytearray': _b_bytes,
    'bool': _b_bool, 'float': _b_float, 'min': _b_minmax('min'), 'max': _b_minmax('max'), 'any': _b_anyall('any'),
    'all': _b_anyall('all'), 'list': _b_list, 'tuple': _b_tuple, 'map': _b_map, 'range': _b_range, 'getattr': _b_getattr,
    'hasattr': _b_hasattr, 'setattr': _b_setattr, 'delattr': _b_delattr, 'type': _b_type, 'callable': _b_callable,
    'hex': _b_hex, 'sum': _b_sum, 'ord': _b_ord, 'chr': _b_chr, 'iter': _b_iter, 'enumerate': _b_enumerate, 'zip': _b_zip,
    'set': _b_set, 'frozenset': _b_set, 'dict': _b_dict, 'repr': _b_repr, 'abs': _b_abs,
}

"""Robustness against renamed locals.

Contracts name local variables of the functions under contract (loop invariants, call summaries keyed by `receiver.method`,
kinds of havocked locals).  A consistent rename of a local is behaviour-preserving and must not raise an alarm.  contracts/locals.json
records, per function under contract, the locals in CANONICAL ORDER (order of first binding occurrence in the source, parameters
first) as they were when the contract was written (tools/gen_locals.py).  On every run the same list is computed from the current
source; if the two lists have the same length and differ only at positions where the recorded name no longer occurs anywhere in
the function and the current name was not known before, the recorded name is treated as an ALIAS of the current one.
Anything else (added / removed locals, reordered first bindings) yields no alias: the contract then fails to bind and the
function is reported undecided, never as a violation.
"""
import ast
import json
import os

HERE = os.path.dirname(os.path.dirname(os.path.abspath(__file__)))
TABLE = os.path.join(HERE, 'contracts', 'locals.json')


def canonical_locals(fn):
    """locals of fn in order of first binding occurrence (parameters first); nested function bodies are not entered, but their
    names are locals of fn"""
    out = []

    def add(n):
        if n not in out:
            out.append(n)
    a = fn.args
    for p in a.posonlyargs + a.args:
        add(p.arg)
    if a.vararg:
        add(a.vararg.arg)
    for p in a.kwonlyargs:
        add(p.arg)
    if a.kwarg:
        add(a.kwarg.arg)
    events = []

    def walk(node):
        for ch in ast.iter_child_nodes(node):
            if isinstance(ch, (ast.FunctionDef, ast.AsyncFunctionDef, ast.ClassDef)):
                events.append((ch.lineno, ch.col_offset, ch.name))
                continue
            if isinstance(ch, ast.Lambda):
                continue
            if isinstance(ch, ast.Name) and isinstance(ch.ctx, (ast.Store, ast.Del)):
                events.append((ch.lineno, ch.col_offset, ch.id))
            if isinstance(ch, ast.ExceptHandler) and ch.name:
                events.append((ch.lineno, ch.col_offset, ch.name))
            if isinstance(ch, (ast.Import, ast.ImportFrom)):
                for al in ch.names:
                    events.append((ch.lineno, ch.col_offset, (al.asname or al.name).split('.')[0]))
            walk(ch)
    walk(fn)
    for _, _, n in sorted(events):
        add(n)
    return out


def all_names(fn):
    return {n.id for n in ast.walk(fn) if isinstance(n, ast.Name)} | {a.arg for a in ast.walk(fn) if isinstance(a, ast.arg)}


def load_table():
    try:
        with open(TABLE) as f:
            return json.load(f)
    except (OSError, ValueError):
        return {}


def aliases(file, qual, fn, table=None):
    """{recorded name: current name} for consistently renamed locals (see module doc)"""
    table = load_table() if table is None else table
    rec = table.get('%s:%s' % (file, qual))
    if not rec:
        return {}
    cur = canonical_locals(fn)
    if len(cur) != len(rec):
        return {}
    names_now = all_names(fn)
    out = {}
    for old, new in zip(rec, cur):
        if old == new:
            continue
        if old in names_now or new in rec:
            return {}
        out[old] = new
    return out

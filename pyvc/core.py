"""pyvc core: kinds (static shapes), symbolic values, path state.

Everything symbolic is a z3 term.  A *kind* describes how a Python value is laid out as a
tuple of z3 terms ("structure of arrays"); heap fields are arrays Ref -> component.
"""
import z3

# --------------------------------------------------------------------------- sorts
_REF_SORT = [None]
_ENUMS = {}
_ANY_SORT = [None]


def reset_sorts(finite_refs=None):
    """(Re)create the reference sort.  finite_refs=None -> uninterpreted sort (proof mode);
    finite_refs=n -> enumeration of n references (counter-example search mode)."""
    if finite_refs is None:
        _REF_SORT[0] = (z3.DeclareSort('Ref'), None)
    else:
        if finite_refs not in _ENUMS:
            _ENUMS[finite_refs] = z3.EnumSort('RefE%d' % finite_refs, ['r%d_%d' % (finite_refs, i) for i in range(finite_refs)])
        _REF_SORT[0] = _ENUMS[finite_refs]
    _ANY_SORT[0] = z3.DeclareSort('Any')
    _FN.clear()
    _FRESH[0] = 0


def RefSort():
    return _REF_SORT[0][0]


def AnySort():
    return _ANY_SORT[0]


_FN = {}
_FRESH = [0]


def fn(name, *sorts):
    """memoised uninterpreted function"""
    key = (name,) + tuple(str(s) for s in sorts)
    if key not in _FN:
        _FN[key] = z3.Function(name, *sorts)
    return _FN[key]


def fresh(prefix, sort):
    _FRESH[0] += 1
    return z3.Const('%s!%d' % (prefix, _FRESH[0]), sort)


def next_id():
    _FRESH[0] += 1
    return _FRESH[0]


def null():
    if _REF_SORT[0][1] is not None:
        return _REF_SORT[0][1][0]      # finite-scope mode: the first enumeration value plays None
    return z3.Const('null', RefSort())


# --------------------------------------------------------------------------- exceptions for control
class Unsupported(Exception):
    """construct outside the verified subset: the FUC is undecided, never a violation"""


class PathKill(Exception):
    """this path ends here (infeasible, or cut at a loop invariant)"""


class ReturnSig(Exception):
    def __init__(self, value):
        self.value = value


class BreakSig(Exception):
    pass


class ContinueSig(Exception):
    pass


class RaiseSig(Exception):
    """a Python exception propagating in the program under verification"""

    def __init__(self, exc):
        self.exc = exc  # VExc


# --------------------------------------------------------------------------- values
class Value:
    loc = None


class VNone(Value):
    def __repr__(self):
        return 'None'


NONE = VNone()


class VInt(Value):
    def __init__(self, t):
        self.t = z3.IntVal(t) if isinstance(t, int) else t

    def __repr__(self):
        return 'Int(%s)' % self.t


class VReal(Value):
    def __init__(self, t):
        self.t = z3.RealVal(t) if isinstance(t, (int, float)) else t

    def __repr__(self):
        return 'Real(%s)' % self.t


class VBool(Value):
    def __init__(self, t):
        self.t = z3.BoolVal(t) if isinstance(t, bool) else t

    def __repr__(self):
        return 'Bool(%s)' % self.t


class VStr(Value):
    """str or bytes (is_bytes): z3 String; bytes are strings over code points 0..255"""

    def __init__(self, t, is_bytes=False):
        if isinstance(t, bytes):
            t, is_bytes = z3.StringVal(t.decode('latin-1')), True
        elif isinstance(t, str):
            t = z3.StringVal(t)
        self.t = t
        self.is_bytes = is_bytes

    def __repr__(self):
        return '%s(%s)' % ('Bytes' if self.is_bytes else 'Str', self.t)


class VRef(Value):
    def __init__(self, t, cls=None):
        self.t = t
        self.cls = cls  # optional static class name

    def __repr__(self):
        return 'Ref(%s:%s)' % (self.t, self.cls)


class VAny(Value):
    def __init__(self, t):
        self.t = t

    def __repr__(self):
        return 'Any(%s)' % self.t


class VTuple(Value):
    def __init__(self, items):
        self.items = list(items)

    def __repr__(self):
        return 'Tuple%r' % (self.items,)


class VCList(Value):
    """a Python list whose length is concrete on this path (elements symbolic). Mutable."""

    def __init__(self, items):
        self.items = list(items)

    def __repr__(self):
        return 'CList%r' % (self.items,)


class VCDict(Value):
    """dict with concrete (python str) keys, e.g. **kwargs"""

    def __init__(self, d):
        self.d = dict(d)


class VOpt(Value):
    def __init__(self, isnone, val, kind):
        self.isnone, self.val, self.kind = isnone, val, kind

    def __repr__(self):
        return 'Opt(%s,%r)' % (self.isnone, self.val)


class VList(Value):
    """symbolic list/deque: window [lo,hi) of component arrays Int -> elem component"""

    def __init__(self, ek, arrs, lo, hi, loc=None):
        self.ek, self.arrs, self.lo, self.hi, self.loc = ek, list(arrs), lo, hi, loc

    def length(self):
        return self.hi - self.lo

    def at(self, i):
        """element at absolute array index i"""
        return self.ek.wrap([z3.Select(a, i) for a in self.arrs])

    def __repr__(self):
        return 'List<%s>[%s,%s)' % (self.ek, self.lo, self.hi)


class VSet(Value):
    def __init__(self, ek, arr, loc=None):
        self.ek, self.arr, self.loc = ek, arr, loc

    def __repr__(self):
        return 'Set<%s>' % self.ek


class VBag(Value):
    """list viewed as a multiset (order abstracted; stated in assumptions)"""

    def __init__(self, ek, arr, loc=None):
        self.ek, self.arr, self.loc = ek, arr, loc


class VDict(Value):
    def __init__(self, kk, vk, dom, vals, loc=None, default=False):
        self.kk, self.vk, self.dom, self.vals, self.loc, self.default = kk, vk, dom, list(vals), loc, default

    def __repr__(self):
        return 'Dict<%s,%s>' % (self.kk, self.vk)


class VDyn(Value):
    """dynamically present attribute"""

    def __init__(self, present, val, kind):
        self.present, self.val, self.kind = present, val, kind


class VExc(Value):
    """exception value: class name (python str), args (list of Values), extra attrs"""

    def __init__(self, cls, args=(), attrs=None):
        self.cls, self.args, self.attrs = cls, list(args), dict(attrs or {})

    def __repr__(self):
        return 'Exc(%s%r)' % (self.cls, self.args)


class VCons(Value):
    """opaque constructed record (event objects etc.): concrete tag + symbolic args"""

    def __init__(self, tag, args=(), kwargs=None, attrs=None):
        self.tag, self.args, self.kwargs, self.attrs = tag, list(args), dict(kwargs or {}), dict(attrs or {})

    def __repr__(self):
        return '%s%r' % (self.tag, tuple(self.args))


class VFunc(Value):
    """python-level callable known to the interpreter (builtin, summary, closure, bound method)"""

    def __init__(self, name, impl=None, closure=None, node=None, bound=None):
        self.name, self.impl, self.closure, self.node, self.bound = name, impl, closure, node, bound

    def __repr__(self):
        return 'Func(%s)' % self.name


class VClass(Value):
    def __init__(self, name):
        self.name = name

    def __repr__(self):
        return 'Class(%s)' % self.name


class VModule(Value):
    def __init__(self, name):
        self.name = name


class VModel(Value):
    """contract-defined model object: subclasses override contains/getitem/setitem/getattr/call"""

    def contains(self, I, item):
        raise Unsupported('in on %r' % (self,))

    def getitem(self, I, idx):
        raise Unsupported('subscript of %r' % (self,))

    def setitem(self, I, idx, val):
        raise Unsupported('subscript store on %r' % (self,))

    def getattr(self, I, name):
        raise Unsupported('attribute %s of %r' % (name, self))

    def setattr(self, I, name, val):
        raise Unsupported('attribute store %s on %r' % (name, self))

    def truthy(self, I):
        return z3.BoolVal(True)


class VItemsDict(VModel):
    """a dict known only through the list of its items (result of a dict comprehension over a symbolic list)"""

    def __init__(self, items):
        self.items_list = items

    def getattr(self, I, name):
        if name == 'items':
            return VFunc('dict.items', impl=lambda I2, b, a, k: self.items_list)
        raise Unsupported('attribute %s of a comprehension dict' % name)


class VGen(Value):
    """a generator expression / lazy iterable over concrete items"""

    def __init__(self, items):
        self.items = list(items)


# --------------------------------------------------------------------------- kinds
class Kind:
    def sorts(self):
        raise NotImplementedError

    def wrap(self, terms):
        raise NotImplementedError

    def unwrap(self, value, st=None):
        raise NotImplementedError

    def fresh(self, name):
        return self.wrap([fresh(name, s) for s in self.sorts()])

    def eq(self, a, b):
        """z3 equality of two values of this kind (component-wise)"""
        ta, tb = self.unwrap(a), self.unwrap(b)
        return z3.And([x == y for x, y in zip(ta, tb)]) if ta else z3.BoolVal(True)


class _Prim(Kind):
    def __init__(self, name, sortf, cls, **kw):
        self.name, self.sortf, self.cls, self.kw = name, sortf, cls, kw

    def sorts(self):
        return [self.sortf()]

    def wrap(self, terms):
        return self.cls(terms[0], **self.kw)

    def unwrap(self, value, st=None):
        v = coerce(value, self)
        return [v.t]

    def __repr__(self):
        return self.name


Int = _Prim('Int', z3.IntSort, VInt)
Real = _Prim('Real', z3.RealSort, VReal)
Bool = _Prim('Bool', z3.BoolSort, VBool)
Str = _Prim('Str', z3.StringSort, VStr)
Bytes = _Prim('Bytes', z3.StringSort, VStr, is_bytes=True)
Any = _Prim('Any', AnySort, VAny)


class _RefK(Kind):
    def __init__(self, cls=None):
        self.cls = cls

    def sorts(self):
        return [RefSort()]

    def wrap(self, terms):
        return VRef(terms[0], self.cls)

    def unwrap(self, value, st=None):
        if isinstance(value, VNone):
            return [null()]
        if isinstance(value, VRef):
            return [value.t]
        raise Unsupported('cannot store %r as Ref' % (value,))

    def __repr__(self):
        return 'Ref' if not self.cls else 'Ref(%s)' % self.cls


Ref = _RefK()


def RefOf(cls):
    return _RefK(cls)


class Opt(Kind):
    def __init__(self, k):
        self.k = k

    def sorts(self):
        return [z3.BoolSort()] + self.k.sorts()

    def wrap(self, terms):
        return VOpt(terms[0], self.k.wrap(terms[1:]), self.k)

    def unwrap(self, value, st=None):
        if isinstance(value, VNone):
            return [z3.BoolVal(True)] + [fresh('dead', s) for s in self.k.sorts()]
        if isinstance(value, VOpt):
            return [value.isnone] + self.k.unwrap(value.val)
        return [z3.BoolVal(False)] + self.k.unwrap(value)

    def __repr__(self):
        return 'Opt(%r)' % self.k


class Dyn(Kind):
    """attribute that may be absent (getattr default / delattr)"""

    def __init__(self, k):
        self.k = k

    def sorts(self):
        return [z3.BoolSort()] + self.k.sorts()

    def wrap(self, terms):
        return VDyn(terms[0], self.k.wrap(terms[1:]), self.k)

    def unwrap(self, value, st=None):
        if isinstance(value, VDyn):
            return [value.present] + self.k.unwrap(value.val)
        return [z3.BoolVal(True)] + self.k.unwrap(value)

    def __repr__(self):
        return 'Dyn(%r)' % self.k


class Tup(Kind):
    def __init__(self, *ks):
        self.ks = ks

    def sorts(self):
        return [s for k in self.ks for s in k.sorts()]

    def wrap(self, terms):
        out, i = [], 0
        for k in self.ks:
            n = len(k.sorts())
            out.append(k.wrap(terms[i:i + n]))
            i += n
        return VTuple(out)

    def unwrap(self, value, st=None):
        if not isinstance(value, VTuple) or len(value.items) != len(self.ks):
            raise Unsupported('cannot store %r as %r' % (value, self))
        return [t for k, v in zip(self.ks, value.items) for t in k.unwrap(v)]

    def __repr__(self):
        return 'Tup%r' % (self.ks,)


class List(Kind):
    def __init__(self, ek):
        self.ek = ek

    def sorts(self):
        return [z3.ArraySort(z3.IntSort(), s) for s in self.ek.sorts()] + [z3.IntSort(), z3.IntSort()]

    def wrap(self, terms):
        return VList(self.ek, terms[:-2], terms[-2], terms[-1])

    def unwrap(self, value, st=None):
        if isinstance(value, VCList):
            value = clist_to_sym(value, self.ek)
        if isinstance(value, VTuple):
            value = clist_to_sym(VCList(value.items), self.ek)
        if not isinstance(value, VList):
            raise Unsupported('cannot store %r as %r' % (value, self))
        return list(value.arrs) + [value.lo, value.hi]

    def __repr__(self):
        return 'List(%r)' % self.ek


class Set(Kind):
    def __init__(self, ek):
        self.ek = ek

    def sorts(self):
        (s,) = self.ek.sorts()
        return [z3.ArraySort(s, z3.BoolSort())]

    def wrap(self, terms):
        return VSet(self.ek, terms[0])

    def unwrap(self, value, st=None):
        if isinstance(value, VSet):
            if value.arr is None:
                return [z3.K(self.ek.sorts()[0], z3.BoolVal(False))]
            return [value.arr]
        if isinstance(value, (VCList, VTuple)) and not value.items:
            return [z3.K(self.ek.sorts()[0], z3.BoolVal(False))]
        raise Unsupported('cannot store %r as %r' % (value, self))

    def __repr__(self):
        return 'Set(%r)' % self.ek


class Bag(Kind):
    def __init__(self, ek):
        self.ek = ek

    def sorts(self):
        (s,) = self.ek.sorts()
        return [z3.ArraySort(s, z3.IntSort())]

    def wrap(self, terms):
        return VBag(self.ek, terms[0])

    def unwrap(self, value, st=None):
        if isinstance(value, VBag):
            return [value.arr]
        if isinstance(value, VCList) and not value.items:
            (s,) = self.ek.sorts()
            return [z3.K(s, z3.IntVal(0))]
        raise Unsupported('cannot store %r as %r' % (value, self))

    def __repr__(self):
        return 'Bag(%r)' % self.ek


class Dict(Kind):
    def __init__(self, kk, vk, default=False):
        self.kk, self.vk, self.default = kk, vk, default

    def sorts(self):
        (s,) = self.kk.sorts()
        return [z3.ArraySort(s, z3.BoolSort())] + [z3.ArraySort(s, x) for x in self.vk.sorts()]

    def wrap(self, terms):
        return VDict(self.kk, self.vk, terms[0], terms[1:], default=self.default)

    def unwrap(self, value, st=None):
        if isinstance(value, VDict):
            return [value.dom] + list(value.vals)
        raise Unsupported('cannot store %r as %r' % (value, self))

    def __repr__(self):
        return 'Dict(%r,%r)' % (self.kk, self.vk)


def clist_to_sym(cl, ek):
    arrs = [fresh('lit', z3.ArraySort(z3.IntSort(), s)) for s in ek.sorts()]
    for i, it in enumerate(cl.items):
        comps = ek.unwrap(it)
        arrs = [z3.Store(a, i, c) for a, c in zip(arrs, comps)]
    return VList(ek, arrs, z3.IntVal(0), z3.IntVal(len(cl.items)))


def kind_of(v):
    """best-effort kind of a runtime value (for auto-declared fields / list elements)"""
    if hasattr(v, 'kind_'):
        return v.kind_()
    if isinstance(v, VInt):
        return Int
    if isinstance(v, VReal):
        return Real
    if isinstance(v, VBool):
        return Bool
    if isinstance(v, VStr):
        return Bytes if v.is_bytes else Str
    if isinstance(v, VRef):
        return Ref
    if isinstance(v, VAny):
        return Any
    if isinstance(v, VOpt):
        return Opt(v.kind)
    if isinstance(v, VTuple):
        return Tup(*[kind_of(x) for x in v.items])
    if isinstance(v, VList):
        return List(v.ek)
    if isinstance(v, VSet):
        return Set(v.ek)
    if isinstance(v, VDict):
        return Dict(v.kk, v.vk)
    if isinstance(v, VNone):
        return Opt(Ref)
    raise Unsupported('no kind for %r' % (v,))


# injections into Any
def any_inject(v):
    A = AnySort()
    if isinstance(v, VAny):
        return v.t
    if hasattr(v, 'any_term'):
        return v.any_term()
    if isinstance(v, VNone):
        return z3.Const('any_none', A)
    if isinstance(v, VInt):
        return fn('any_of_int', z3.IntSort(), A)(v.t)
    if isinstance(v, VBool):
        return fn('any_of_bool', z3.BoolSort(), A)(v.t)
    if isinstance(v, VStr):
        return fn('any_of_bytes' if v.is_bytes else 'any_of_str', z3.StringSort(), A)(v.t)
    if isinstance(v, VRef):
        return fn('any_of_ref', RefSort(), A)(v.t)
    if isinstance(v, VOpt):
        return z3.If(v.isnone, z3.Const('any_none', A), any_inject(v.val))
    if isinstance(v, VTuple):
        # tuples are injected as opaque pairs: any_tupN(c1..cn)
        comps = [any_inject(x) for x in v.items]
        return fn('any_of_tup%d' % len(comps), *([A] * len(comps) + [A]))(*comps)
    if isinstance(v, VExc):
        return fn('any_of_exc', z3.StringSort(), A)(z3.StringVal(v.cls))
    raise Unsupported('cannot inject %r into Any' % (v,))


def any_is_none(t):
    return t == z3.Const('any_none', AnySort())


INJECTIONS = {'any_of_int': 1, 'any_of_str': 2, 'any_of_bytes': 3, 'any_of_ref': 4, 'any_of_bool': 5, 'any_of_exc': 6}


def any_axioms(formulas=()):
    """ground instances of the facts about the injections into Any for every injection term occurring in `formulas`:
    f(t) is not None, f is injective (through an inverse), different injections have different tags.  Quantifier-free."""
    A = AnySort()
    none = z3.Const('any_none', A)
    tag = fn('any_tag', A, z3.IntSort())
    seen, apps = set(), []
    stack = list(formulas)
    while stack:
        t = stack.pop()
        k = t.get_id()
        if k in seen:
            continue
        seen.add(k)
        if z3.is_app(t):
            nm = t.decl().name()
            if nm in INJECTIONS and t.num_args() == 1:
                apps.append((nm, t))
            stack.extend(t.children())
        elif z3.is_quantifier(t):
            stack.append(t.body())
    ax = [tag(none) == 0]
    quantified = set()
    for nm, t in apps:
        arg = t.arg(0)
        inv = fn(nm + '_inv', A, arg.sort())
        if _has_var(arg):
            if nm not in quantified:
                quantified.add(nm)
                v = z3.Const('inj!' + nm, arg.sort())
                f = t.decl()
                ax.append(z3.ForAll([v], z3.And(f(v) != none, inv(f(v)) == v, tag(f(v)) == INJECTIONS[nm])))
            continue
        ax.append(z3.And(t != none, inv(t) == arg, tag(t) == INJECTIONS[nm]))
    return ax


def _has_var(t):
    stack, seen = [t], set()
    while stack:
        x = stack.pop()
        if x.get_id() in seen:
            continue
        seen.add(x.get_id())
        if z3.is_var(x):
            return True
        stack.extend(x.children())
    return False


def coerce(v, kind):
    """convert runtime value v to the representation class of primitive kind"""
    if kind is Int:
        if isinstance(v, VInt):
            return v
        if isinstance(v, VBool):
            return VInt(z3.If(v.t, 1, 0))
    elif kind is Real:
        if isinstance(v, VReal):
            return v
        if isinstance(v, VInt):
            return VReal(z3.ToReal(v.t))
        if isinstance(v, VBool):
            return VReal(z3.If(v.t, z3.RealVal(1), z3.RealVal(0)))
    elif kind is Bool:
        if isinstance(v, VBool):
            return v
    elif kind is Str or kind is Bytes:
        if isinstance(v, VStr):
            if kind is Bytes and not v.is_bytes and not (z3.is_string_value(v.t) and v.t.as_string() == ''):
                # a text value stored where the model keeps bytes (e.g. a str payload queued in an endpoint's byte buffer): the slot
                # holds its WIRE view, the (uninterpreted) encoding of the text; sound for conservation arguments, which compare bytes
                return VStr(fn('py_encode', z3.StringSort(), z3.StringSort())(v.t), True)
            return v
    elif kind is Any:
        return VAny(any_inject(v))
    raise Unsupported('cannot coerce %r to %r' % (v, kind))


# --------------------------------------------------------------------------- path control
class PathCtl:
    """decision oracle for re-execution based path enumeration.

    trace entries are (choice, n_alternatives, label); n == 1 records a decision that the solver found forced, so that a
    re-execution of the same prefix does not repeat the feasibility queries."""

    def __init__(self, prefix=()):
        self.prefix = list(prefix)
        self.trace = []

    def replaying(self):
        return len(self.trace) < len(self.prefix)

    def replay_next(self):
        e = self.prefix[len(self.trace)]
        self.trace.append(e)
        return e[0]

    def record_forced(self, c, label=''):
        self.trace.append((c, 1, label))

    def choose(self, n, label=''):
        i = len(self.trace)
        if i < len(self.prefix):
            e = self.prefix[i]
            self.trace.append(e)
            return e[0]
        self.trace.append((0, n, label))
        return 0

    def next_prefix(self):
        tr = self.trace
        for i in range(len(tr) - 1, -1, -1):
            c, n, l = tr[i]
            if n > 1 and c + 1 < n:
                return list(tr[:i]) + [(c + 1, n, l)]
        return None

    def label(self):
        return '.'.join('%s%d' % (l[:12], c) for c, n, l in self.trace if n > 1) or 'straight'

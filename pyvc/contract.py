"""Function-under-contract specs, extraction of the real function, per-FUC verification."""
import ast
import hashlib
import importlib
import os
import time
import traceback
import z3
from .core import *  # noqa
from . import core, solve
from .state import State
from .interp import Interp, LoopSpec, Frame  # noqa

REPO = os.environ.get('PYVC_REPO', '/repo')

SAFE_CONST_MODULES = {'errno', 'ssl', 'socket', 'select', 'os', 'stat', 'signal'}


class ModInfo:
    _cache = {}

    def __init__(self, relpath):
        self.relpath = relpath
        self.path = os.path.join(REPO, relpath)
        with open(self.path, encoding='utf-8') as f:
            self.src = f.read()
        self.tree = ast.parse(self.src)
        self.consts = {}
        self.class_bases = {}
        self.class_consts = {}
        self.imported_names = set()
        self.func_names = set()
        for node in self.tree.body:
            self._top(node)

    def _init_exprs(self, cls):
        """instance attributes that __init__ sets once, at its top level, to a constant expression (literals, module constants such as
        select.POLLERR, | & + -) and that no other method of the class assigns: read as self.NAME they are that expression
        (a representation invariant read off the class; anything else stays unresolved)"""
        def const_expr(e):
            if isinstance(e, ast.Constant):
                return isinstance(e.value, (int, float, str, bytes)) or e.value is None
            if isinstance(e, ast.Attribute):
                return isinstance(e.value, ast.Name) and e.value.id != 'self'
            if isinstance(e, ast.BinOp):
                return isinstance(e.op, (ast.BitOr, ast.BitAnd, ast.Add, ast.Sub)) and const_expr(e.left) and const_expr(e.right)
            return False
        if not hasattr(self, 'init_exprs'):
            self.init_exprs = {}
        out, count = {}, {}
        for fn in cls.body:
            if not isinstance(fn, (ast.FunctionDef, ast.AsyncFunctionDef)):
                continue
            for st in ast.walk(fn):
                tgts = st.targets if isinstance(st, ast.Assign) else [st.target] if isinstance(st, (ast.AugAssign, ast.AnnAssign)) else []
                for t in tgts:
                    for tt in ast.walk(t):
                        if isinstance(tt, ast.Attribute) and isinstance(tt.value, ast.Name) and tt.value.id == 'self':
                            count[tt.attr] = count.get(tt.attr, 0) + 1
            if fn.name == '__init__':
                for st in fn.body:
                    if (isinstance(st, ast.Assign) and len(st.targets) == 1 and isinstance(st.targets[0], ast.Attribute)
                            and isinstance(st.targets[0].value, ast.Name) and st.targets[0].value.id == 'self' and const_expr(st.value)):
                        out[st.targets[0].attr] = st.value
        self.init_exprs[cls.name] = {k: v for k, v in out.items() if count.get(k) == 1}
        # tables the constructor creates empty (self.X = set() / {} / dict()): per-instance tables a contract written earlier may not know
        if not hasattr(self, 'init_tables'):
            self.init_tables = {}
        tabs = {}
        for fn in cls.body:
            if isinstance(fn, (ast.FunctionDef, ast.AsyncFunctionDef)) and fn.name in ('__init__', 'init'):
                for st in fn.body:
                    if (isinstance(st, ast.Assign) and len(st.targets) == 1 and isinstance(st.targets[0], ast.Attribute)
                            and isinstance(st.targets[0].value, ast.Name) and st.targets[0].value.id == 'self'):
                        v = st.value
                        if isinstance(v, ast.Call) and not v.args and not v.keywords and ast.unparse(v.func) == 'set':
                            tabs[st.targets[0].attr] = 'set'
                        elif (isinstance(v, ast.Dict) and not v.keys) or (isinstance(v, ast.Call) and not v.args and not v.keywords
                                                                         and ast.unparse(v.func) == 'dict'):
                            tabs[st.targets[0].attr] = 'dict'
        self.init_tables[cls.name] = tabs

    def _top(self, node):
        if isinstance(node, ast.Assign) and len(node.targets) == 1 and isinstance(node.targets[0], ast.Name):
            try:
                self.consts[node.targets[0].id] = ast.literal_eval(node.value)
            except Exception:
                pass
        elif isinstance(node, ast.ClassDef):
            self.class_bases[node.name] = [ast.unparse(b) for b in node.bases]
            # literal class attributes (constants read as self.NAME)
            cc = self.class_consts.setdefault(node.name, {})
            self._init_exprs(node)
            for st in node.body:
                if isinstance(st, ast.Assign) and len(st.targets) == 1 and isinstance(st.targets[0], ast.Name):
                    try:
                        cc[st.targets[0].id] = ast.literal_eval(st.value)
                    except Exception:
                        pass
        elif isinstance(node, (ast.FunctionDef, ast.AsyncFunctionDef)):
            self.func_names.add(node.name)
        elif isinstance(node, ast.ImportFrom):
            for a in node.names:
                nm = a.asname or a.name
                self.imported_names.add(nm)
                if node.module in SAFE_CONST_MODULES and node.level == 0:
                    try:
                        val = getattr(importlib.import_module(node.module), a.name)
                        if isinstance(val, (int, str, bytes, float)) and not isinstance(val, bool):
                            self.consts[nm] = int(val) if isinstance(val, int) else val
                    except Exception:
                        pass
        elif isinstance(node, ast.Import):
            for a in node.names:
                self.imported_names.add((a.asname or a.name).split('.')[0])
        elif isinstance(node, ast.Try):
            for n in node.body:
                self._top(n)
        elif isinstance(node, ast.If):
            for n in node.body:
                self._top(n)

    @classmethod
    def get(cls, relpath):
        # no caching across runs; within one process the file is parsed once
        if relpath not in cls._cache:
            cls._cache[relpath] = ModInfo(relpath)
        return cls._cache[relpath]

    def find(self, qual):
        """qual: 'func' | 'Class.func' | 'Class.func.<locals>.inner'"""
        parts = [p for p in qual.split('.') if p != '<locals>']
        node = self.tree
        clsname = None
        for p in parts:
            found = None
            for ch in ast.walk(node) if not isinstance(node, (ast.Module, ast.ClassDef)) else node.body:
                if isinstance(ch, (ast.FunctionDef, ast.AsyncFunctionDef, ast.ClassDef)) and ch.name == p and ch is not node:
                    found = ch
                    break
            if found is None and isinstance(node, ast.Module):
                # look inside top-level try/if blocks
                for ch in ast.walk(node):
                    if isinstance(ch, (ast.FunctionDef, ast.ClassDef)) and ch.name == p:
                        found = ch
                        break
            if found is None:
                raise KeyError('%s not found in %s' % (qual, self.relpath))
            if isinstance(found, ast.ClassDef):
                clsname = found.name
            node = found
        return node, clsname

    def source_of(self, node):
        return ast.get_source_segment(self.src, node) or ''

    def decorator_facts(self, node):
        out = []
        for d in node.decorator_list:
            out.append(ast.unparse(d))
        return out


class FucSpec:
    """one function under contract.

    setup(I) -> dict of argument values; creates symbolic inputs, assumes `requires`.
    post(I, outcome, ctx) -> issues obligations through I.oblige; outcome = ('return', v) | ('raise', VExc).
    """

    def __init__(self, prop, file, qual, setup, post, fields=None, calls=None, loops=None, env=None, name=None,
                 exc_parents=None, exc_alias=None, subclass_of=None, subclass_of_closed=(), classes=(), absent_attrs=(),
                 getattr_hooks=None, setattr_hooks=None, hasattr_hooks=None, attr_hooks=None, subscript_hook=None,
                 on_yield=None, on_yield_from=None, max_paths=4000, replay=None, cover=(), trusted=(), note='', opts=None, clause='',
                 field_alias=None, falsy_classes=()):
        self.falsy_classes = set(falsy_classes)
        self.field_alias = dict(field_alias or {})
        self.prop, self.file, self.qual = prop, file, qual
        self.name = name or qual
        self.setup, self.post = setup, post
        self.fields = dict(fields or {})
        self.calls = dict(calls or {})
        self.loops = dict(loops or {})
        self.env = dict(env or {})
        self.exc_parents = dict(exc_parents or {})
        self.exc_alias = dict(exc_alias or {})
        self.subclass_of = dict(subclass_of or {})
        self.subclass_of_closed = set(subclass_of_closed)
        self.classes = set(classes)
        self.absent_attrs = set(absent_attrs)
        self.getattr_hooks = dict(getattr_hooks or {})
        self.setattr_hooks = dict(setattr_hooks or {})
        self.hasattr_hooks = dict(hasattr_hooks or {})
        self.attr_hooks = dict(attr_hooks or {})
        self.subscript_hook = subscript_hook
        self.on_yield = on_yield
        self.on_yield_from = on_yield_from
        self.stmt_hooks = None
        self.first_line = 0
        self.max_paths = max_paths
        self.replay = replay
        self.cover = list(cover)
        self.trusted = list(trusted)
        self.note = note
        self.opts = dict(opts or {})
        self.clause = clause

    @property
    def ident(self):
        return '%s/%s' % (self.prop, self.name)


class FucResult:
    def __init__(self, spec):
        self.ident = spec.ident
        self.prop = spec.prop
        self.file = spec.file
        self.qual = spec.qual
        self.clause = spec.clause
        self.sha = None
        self.decorators = []
        self.obligations = []   # dicts
        self.paths = 0
        self.killed = 0
        self.undecided = []     # reasons (Unsupported / unknown)
        self.errors = []        # engine errors
        self.notes = []
        self.trusted = set(spec.trusted)
        self.bounded = []
        self.secs = 0.0
        self.covered = set()
        self.missing_cover = []
        self.vacuity = None

    def as_dict(self):
        d = dict(self.__dict__)
        d['trusted'] = sorted(self.trusted)
        d['covered'] = sorted(self.covered)
        return d


def verify_fuc(spec, opts):
    """symbolically execute the real function on every path and discharge the contract obligations"""
    t0 = time.time()
    res = FucResult(spec)
    o = dict(opts)
    o.update(spec.opts)
    try:
        ModInfo._cache.pop(spec.file, None)
        mod = ModInfo.get(spec.file)
        fnode, clsname = mod.find(spec.qual)
    except (KeyError, OSError, SyntaxError) as e:
        res.undecided.append('extract: %s' % e)
        res.secs = time.time() - t0
        return res
    res.sha = hashlib.sha256(mod.source_of(fnode).encode()).hexdigest()[:16]
    from . import locals_ as _locals
    al = _locals.aliases(spec.file, spec.qual, fnode)
    Frame.alias = dict(al)
    if al:
        spec = _apply_alias(spec, al)
        res.notes.append('locals renamed since the contract was written, bound through aliases: %s' % sorted(al.items()))
    res.decorators = mod.decorator_facts(fnode)
    spec.first_line = fnode.lineno
    from . import state as _state
    from . import interp as _interp
    seen_unsupported = set()

    def explore(oo, record):
        """enumerate the paths of the function under options oo; returns the obligations generated"""
        _interp.MODULAR_OWNER.clear()
        _state.OBL_CACHE.clear()
        del _state.DEFERRED[:]
        obls = []
        prefix = []
        npaths = 0
        while prefix is not None:
            if npaths >= spec.max_paths:
                if record:
                    res.undecided.append('path budget %d exhausted' % spec.max_paths)
                break
            ctl = PathCtl(prefix)
            core.reset_sorts(oo.get('finite_refs'))
            st = State(ctl, oo)
            I = Interp(st, spec, mod, clsname)
            I.fnode = fnode
            npaths += 1
            if record:
                res.paths += 1
            try:
                for f, k in spec.fields.items():
                    st.declare_field(f, k)
                # tables the class's constructor creates that the contract does not declare (added to the code since the contract
                # was written): modelled as tables keyed by references, so that residue / frame obligations can speak about them
                if spec.opts.get('auto_tables'):
                    auto = []
                    for f, what in sorted(getattr(mod, 'init_tables', {}).get(clsname or '', {}).items()):
                        if f not in st.fields and f not in spec.getattr_hooks:
                            st.declare_field(f, Set(Ref) if what == 'set' else Dict(Ref, Any))
                            auto.append(f)
                    st.ghost['AUTO_TABLES'] = auto
                    if auto and record:
                        note = 'tables of %s not named in the contract, modelled as tables keyed by references: %s' % (clsname, auto)
                        if note not in res.notes:
                            res.notes.append(note)
                args = spec.setup(I)
                ctx = {'pre': st.snapshot(), 'args': args, 'alloc0': st.alloc}
                st.setup_len = len(st.pc)
                fg = set()
                for ls in spec.loops.values():
                    fg |= set(getattr(ls, 'frame_fields', ()))
                st.frame_guard = fg
                I.frame = Frame({}, None, clsname)
                args = fill_defaults(I, fnode, args)
                outcome = I.run_function(fnode, args)
                st.ghost['__outcome__'] = outcome
                spec.post(I, outcome, ctx)
            except PathKill:
                if record:
                    res.killed += 1
            except Unsupported as u:
                msg = 'unsupported: %s' % u
                if record and msg not in seen_unsupported:
                    seen_unsupported.add(msg)
                    res.undecided.append(msg)
            except RaiseSig as r:
                if record:
                    res.errors.append('exception escaped the harness: %r' % (r.exc,))
            except (ReturnSig, BreakSig, ContinueSig) as e:
                if record:
                    res.errors.append('control signal escaped: %r' % e)
            except z3.Z3Exception as e:
                if record:
                    res.errors.append('z3: %s\n%s' % (e, traceback.format_exc(limit=20)))
            except Exception as e:  # engine bug
                if record:
                    res.errors.append('engine: %r\n%s' % (e, traceback.format_exc(limit=-14)))
            obls.extend(st.obls)
            if record:
                for lbl in st.ghost.get('__cover__', ()):
                    res.covered.add(lbl)
                res.notes.extend(n for n in st.notes if n not in res.notes)
                res.trusted |= st.trusted_used
                for b_ in I.bounded_loops:
                    if b_ not in res.bounded:
                        res.bounded.append(b_)
            prefix = ctl.next_prefix()
        return obls

    all_obls = explore(o, True)
    vacuity_check(spec, o, res, mod, fnode, clsname)
    _state.solve_all_deferred(o, o.get('solve_procs', 4))
    # finite-scope counter-example search for obligations the solvers left open: a model over an enumeration of n
    # references is a genuine counter-model of the verification condition
    open_ = {(ob.name, ob.path) for ob in all_obls if ob.verdict in ('unknown', 'candidate')}
    if open_ and not o.get('finite_refs'):
        for n in o.get('cex_scopes', (4, 7)):
            if not open_:
                break
            names = {k[0] for k in open_}
            oo = dict(o, finite_refs=n, only_names=names, timeout_ms=min(int(o.get('timeout_ms', 10000)), 15000))
            found = explore(oo, False)
            _state.solve_all_deferred(oo, o.get('solve_procs', 4))
            for fo in found:
                if fo.name in names and fo.verdict == 'sat':
                    for ob in all_obls:
                        if ob.name == fo.name and (ob.name, ob.path) in open_:
                            ob.verdict, ob.backend, ob.model = 'sat', 'z3-finite-scope(%d refs)' % n, fo.model
                            ob.path = fo.path
                            ob.secs += fo.secs
                            open_.discard((ob.name, ob.path))
                    open_ = {k for k in open_ if k[0] != fo.name}
        core.reset_sorts(o.get('finite_refs'))
    for ob in all_obls:
        d = ob.as_dict()
        d['name'] = '%s/%s' % (spec.ident, ob.name)
        d['goal'] = ob.goal
        res.obligations.append(d)
        if ob.verdict == 'unknown':
            res.undecided.append('unknown: %s [%s]' % (d['name'], ob.path))
    del _state.DEFERRED[:]
    _state.OBL_CACHE.clear()
    res.missing_cover = [c for c in spec.cover if c not in res.covered]
    res.secs = time.time() - t0
    return res


def _rekey(d, al):
    out = dict(d)
    for k, v in d.items():
        if not isinstance(k, str):
            continue
        root = k.split('.')[0].split('(')[0].split('[')[0]
        if root in al:
            out[al[root] + k[len(root):]] = v
    return out


def _apply_alias(spec, al):
    """a copy of the spec whose name-keyed tables (call summaries, attribute hooks, environment, loop kinds) also answer to the
    current names of consistently renamed locals"""
    import copy
    sp = copy.copy(spec)
    sp.calls = _rekey(spec.calls, al)
    sp.attr_hooks = _rekey(spec.attr_hooks, al)
    sp.env = _rekey(spec.env, al)
    sp.loops = {}
    for k, ls in spec.loops.items():
        l2 = copy.copy(ls)
        l2.kinds = _rekey(ls.kinds, al)
        l2.keep = _rekey(ls.keep, al) if isinstance(ls.keep, dict) else ls.keep
        l2.stable_locals = set(ls.stable_locals) | {al[x] for x in ls.stable_locals if x in al}
        sp.loops[k] = l2
    return sp


def vacuity_check(spec, o, res, mod, fnode, clsname):
    """the contract's requires (setup assumptions) must be satisfiable: searched in a finite scope of references
    (z3 answers `unknown` on satisfiable quantified formulas over an uninterpreted sort)"""
    t0 = time.time()
    verdict = 'unknown'
    for n in o.get('vacuity_scopes', (3, 5)):
        core.reset_sorts(n)
        st = State(PathCtl([]), dict(o, defer=False))
        I = Interp(st, spec, mod, clsname)
        I.fnode = fnode
        try:
            for f, k in spec.fields.items():
                st.declare_field(f, k)
            spec.setup(I)
        except PathKill:
            verdict = 'unsat'
            continue
        except Exception as e:
            res.notes.append('vacuity check skipped: %r' % (e,))
            verdict = 'skipped'
            break
        s = z3.Solver()
        s.set('timeout', int(o.get('vacuity_timeout_ms', 8000)))
        consts = core._REF_SORT[0][1]
        cache = {}
        for f in st.pc:
            s.add(solve.expand_finite(f, consts, cache))
        r = s.check()
        verdict = str(r)
        if r == z3.sat:
            break
    core.reset_sorts(o.get('finite_refs'))
    res.vacuity = {'requires_satisfiable': verdict, 'secs': round(time.time() - t0, 2)}
    if verdict == 'unsat':
        res.errors.append('vacuity: the requires of %s are contradictory (unsat in finite scope)' % spec.ident)
    elif verdict == 'unknown':
        res.notes.append('vacuity: satisfiability of requires undecided in finite scope')


def fill_defaults(I, fnode, args):
    """parameters the contract's setup leaves out take their declared default values"""
    a = fnode.args
    params = a.posonlyargs + a.args
    env = dict(args)
    nd = len(a.defaults)
    for i, p in enumerate(params):
        if p.arg not in env:
            j = i - (len(params) - nd)
            if j >= 0:
                env[p.arg] = I.eval(a.defaults[j])
    for k, d in zip(a.kwonlyargs, a.kw_defaults):
        if k.arg not in env and d is not None:
            env[k.arg] = I.eval(d)
    if a.vararg is not None and a.vararg.arg not in env:
        env[a.vararg.arg] = VTuple([])
    if a.kwarg is not None and a.kwarg.arg not in env:
        env[a.kwarg.arg] = VCDict({})
    return env


def cover(I, label):
    I.st.ghost.setdefault('__cover__', set()).add(label)


# --------------------------------------------------------------------------- helpers for writing contracts
def sym(I, name, kind):
    """fresh named symbolic input of a kind; registered for counter-example extraction"""
    terms = [z3.Const('%s' % name if i == 0 and len(kind.sorts()) == 1 else '%s.%d' % (name, i), s)
             for i, s in enumerate(kind.sorts())]
    v = kind.wrap(terms)
    I.st.inputs[name] = terms[0] if len(terms) == 1 else terms
    if isinstance(v, VList):
        I.st.assume(v.lo <= v.hi)
    if isinstance(v, VBag):
        x = core.fresh('x', kind.ek.sorts()[0])
        I.st.assume(z3.ForAll([x], z3.Select(v.arr, x) >= 0))
    if isinstance(v, VRef):
        I.st.assume(z3.Or(v.t == core.null(), z3.Select(I.st.alloc, v.t)))
    if isinstance(v, VAny):
        I.st.uses_any = True
    return v


def obj(I, name, cls=None):
    return I.st.known_ref(name, cls)


def summary(fn):
    """mark a python function (I, recv, args, kwargs) -> Value as a call summary"""
    return fn


def fire_log(I):
    return I.st.ghost.setdefault('FIRED', [])


def fired_named(I, name):
    return [e for e in fire_log(I) if isinstance(e, VCons) and e.tag == name]


def uf(name, ret=Str, note=None, argkinds=None):
    """summary: uninterpreted (pure, total, deterministic) function of its positional arguments"""
    def f(I, recv, args, kw):
        I.st.trusted_used.add(note or ('%s: pure deterministic function of its arguments (uninterpreted)' % name))
        terms = []
        for a in args:
            a = lib_unopt(I, a)
            if isinstance(a, (VInt, VStr, VBool, VReal, VRef, VAny)):
                terms.append(a.t)
            else:
                raise Unsupported('uf %s applied to %r' % (name, a))
        f_ = core.fn('%s_%d' % (name, len(terms)), *([t.sort() for t in terms] + ret.sorts()))
        t = f_(*terms) if terms else core.fn(name + '_0', *ret.sorts())()
        return ret.wrap([t])
    return f


def lib_unopt(I, v):
    from .lib import unopt
    return unopt(I, v)


def const_summary(value_fn):
    def f(I, recv, args, kw):
        return value_fn(I)
    return f


def noop(I, recv, args, kw):
    return NONE


def is_generator_function(node):
    import ast as _ast
    stack = list(node.body) if hasattr(node, 'body') and isinstance(node.body, list) else []
    while stack:
        n = stack.pop()
        if isinstance(n, (_ast.Yield, _ast.YieldFrom)):
            return True
        if isinstance(n, (_ast.FunctionDef, _ast.AsyncFunctionDef, _ast.Lambda, _ast.ClassDef)):
            continue
        stack.extend(_ast.iter_child_nodes(n))
    return False


class CustomCheck:
    """an obligation source that is not a symbolic execution of one function: structural (AST) obligations, Lean lemma
    checks, and bounded stand-ins (bounded=True: labelled, never counted as proved)."""

    def __init__(self, prop, name, fn, bounded=False, thorough_only=False, clause='', file=None):
        self.prop, self.name, self.fn, self.bounded, self.thorough_only = prop, name, fn, bounded, thorough_only
        self.clause, self.file, self.qual = clause, file, name
        self.trusted, self.opts = [], {}

    @property
    def ident(self):
        return '%s/%s' % (self.prop, self.name)

    def run(self, opts):
        t0 = time.time()
        res = FucResult(self)
        res.is_bounded = self.bounded
        try:
            self.fn(res, opts)
        except Exception as e:
            res.errors.append('custom check: %r\n%s' % (e, traceback.format_exc(limit=20)))
        res.secs = time.time() - t0
        return res


def add_ob(res, name, ok, backend, detail=None, model=None, secs=0.0, path='-'):
    """record one obligation decided outside the SMT solvers (AST inspection, Lean, enumeration)"""
    res.obligations.append({'name': '%s/%s' % (res.ident, name), 'path': path, 'verdict': 'unsat' if ok else 'sat',
                            'backend': backend, 'secs': secs, 'model': model, 'detail': detail, 'goal': detail})

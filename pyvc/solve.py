"""Discharging obligations: z3 (python API) first, /usr/bin/cvc5 on z3's unknowns."""
import os
import subprocess
import tempfile
import time
import z3

STATS = {'z3_calls': 0, 'cvc5_calls': 0, 'z3_secs': 0.0, 'cvc5_secs': 0.0}


def expand_finite(t, consts, cache=None):
    """finite-scope mode: replace quantifiers over the enumeration sort of references by explicit conjunctions/disjunctions"""
    if cache is None:
        cache = {}
    k = t.get_id()
    if k in cache:
        return cache[k]
    if z3.is_quantifier(t):
        n = t.num_vars()
        srt = consts[0].sort()
        body = t.body()
        idx = [i for i in range(n) if t.var_sort(i) == srt]
        if len(idx) == n:
            import itertools
            insts = []
            for combo in itertools.product(consts, repeat=n):
                insts.append(expand_finite(z3.substitute_vars(body, *reversed(combo)), consts, cache))
            r = z3.And(insts) if t.is_forall() else z3.Or(insts)
        else:
            r = t
        cache[k] = r
        return r
    if z3.is_app(t) and t.num_args() > 0:
        ch = [expand_finite(c, consts, cache) for c in t.children()]
        try:
            r = t.decl()(*ch)
        except Exception:
            r = t
        cache[k] = r
        return r
    cache[k] = t
    return t


def prove(assumptions, goal, opts):
    """returns (verdict, backend, secs, model) with verdict in unsat(sat = counter-model)/unknown"""
    t0 = time.time()
    if opts.get('finite_refs'):
        from . import core as _core
        consts = _core._REF_SORT[0][1]
        if consts is not None:
            cache = {}
            assumptions = [expand_finite(a, consts, cache) for a in assumptions]
            goal = expand_finite(goal, consts, cache)
    s = z3.Solver()
    s.set('timeout', int(opts.get('timeout_ms', 10000)))
    for a in assumptions:
        s.add(a)
    s.add(z3.Not(goal))
    STATS['z3_calls'] += 1
    r = s.check()
    dt = time.time() - t0
    STATS['z3_secs'] += dt
    if r == z3.unsat:
        if opts.get('double_check'):
            # cross-check of a proved obligation by the second back end: bounded at 10 s per obligation (z3 has decided it; a
            # cvc5 time-out is no disagreement), so that the thorough tier stays within minutes for the 3000-obligation checks
            v2 = _cvc5(s, dict(opts, timeout_ms=min(int(opts.get('timeout_ms', 10000)), 10000)))
            if v2 == 'sat':
                return 'unknown', 'z3:unsat/cvc5:sat', time.time() - t0, None
        return 'unsat', 'z3', dt, None
    if r == z3.sat:
        m = s.model()
        # validate the counter-model (the sequence solver occasionally reports sat with a model that satisfies the goal)
        try:
            gv = m.eval(goal, model_completion=True)
        except z3.Z3Exception:
            gv = None
        if gv is None or not z3.is_true(gv):
            return 'sat', 'z3', dt, m
        STATS['spurious_models'] = STATS.get('spurious_models', 0) + 1
    # unknown: second engine
    v2 = _cvc5(s, opts)
    dt = time.time() - t0
    if v2 == 'unsat':
        return 'unsat', 'cvc5', dt, None
    if v2 != 'sat' and r == z3.unknown:
        # retry with another seed and a larger budget (verdicts must not flip when all cores are busy)
        for seed in (7, 23):
            s3 = z3.Solver()
            s3.set('timeout', int(opts.get('timeout_ms', 10000)) * 3)
            s3.set('random_seed', seed)
            for a in assumptions:
                s3.add(a)
            s3.add(z3.Not(goal))
            STATS['z3_calls'] += 1
            r3 = s3.check()
            if r3 == z3.unsat:
                return 'unsat', 'z3(retry)', time.time() - t0, None
            if r3 == z3.sat:
                m = s3.model()
                try:
                    gv = m.eval(goal, model_completion=True)
                except z3.Z3Exception:
                    gv = None
                if gv is None or not z3.is_true(gv):
                    return 'sat', 'z3(retry)', time.time() - t0, m
                break
        dt = time.time() - t0
    # candidate counter-model: drop the quantified assumptions (weaker theory => any model found is only a
    # candidate; the driver reports it as a violation only if it replays on the real code)
    s2 = z3.Solver()
    s2.set('timeout', int(opts.get('timeout_ms', 10000)))
    for a in assumptions:
        if not _has_quantifier(a):
            s2.add(a)
    s2.add(z3.Not(goal))
    r2 = s2.check()
    dt = time.time() - t0
    if r2 == z3.sat:
        return 'candidate', 'z3-relaxed' + ('+cvc5:sat' if v2 == 'sat' else ''), dt, s2.model()
    if v2 == 'sat':
        return 'sat', 'cvc5', dt, None
    return 'unknown', 'z3+cvc5', dt, None


def _has_quantifier(t):
    seen = set()
    stack = [t]
    while stack:
        x = stack.pop()
        if x.get_id() in seen:
            continue
        seen.add(x.get_id())
        if z3.is_quantifier(x):
            return True
        stack.extend(x.children())
    return False


def _cvc5(solver, opts):
    if not os.path.exists('/usr/bin/cvc5'):
        return 'unknown'
    txt = solver.to_smt2()
    if 'Ref' in txt and 'declare-datatypes' in txt and 'r0' in txt:
        pass
    t0 = time.time()
    STATS['cvc5_calls'] += 1
    with tempfile.NamedTemporaryFile('w', suffix='.smt2', delete=False, dir=opts.get('tmpdir')) as f:
        f.write('(set-logic ALL)\n' + txt)
        path = f.name
    try:
        tl = int(opts.get('timeout_ms', 10000))
        p = subprocess.run(['/usr/bin/cvc5', '--strings-exp', '--tlimit=%d' % tl, path], capture_output=True, text=True,
                           timeout=tl / 1000 + 5)
        out = p.stdout.strip().splitlines()
        v = out[0].strip() if out else 'unknown'
    except Exception:
        v = 'unknown'
    finally:
        os.unlink(path)
    STATS['cvc5_secs'] += time.time() - t0
    return v if v in ('sat', 'unsat') else 'unknown'


def model_value(model, t):
    """python value of z3 term t in model"""
    if isinstance(t, (list, tuple)):
        return [model_value(model, x) for x in t]
    if isinstance(t, dict):
        return {k: model_value(model, x) for k, x in t.items()}
    v = model.eval(t, model_completion=True)
    if z3.is_int_value(v):
        return v.as_long()
    if z3.is_true(v):
        return True
    if z3.is_false(v):
        return False
    if z3.is_string_value(v):
        return v.as_string()
    if z3.is_rational_value(v):
        return float(v.numerator_as_long()) / float(v.denominator_as_long())
    return str(v)


def unescape_z3_string(s):
    r"""z3 prints non-printable characters as \u{..}; turn into python str"""
    import re
    return re.sub(r'\\u\{([0-9a-fA-F]+)\}', lambda m: chr(int(m.group(1), 16)), s)

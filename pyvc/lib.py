"""Semantics of Python builtins and of str/bytes/list/set/dict/deque methods on symbolic values.

Every function here takes the interpreter I (for forking, assumptions, exceptions) first.
Over-approximations (uninterpreted functions with partial axioms) are marked APPROX and listed
in evidence through I.st.trusted_used.
"""
import string as _string
import z3
from .core import *  # noqa
from . import core

S = z3.StringSort
WS_CHARS = ' \t\n\r\x0b\x0c'


def zstr(s):
    return z3.StringVal(s)


def truthy(I, v):
    """z3 Bool for Python truthiness of v"""
    if isinstance(v, VBool):
        return v.t
    if isinstance(v, VInt):
        return v.t != 0
    if isinstance(v, VReal):
        return v.t != 0
    if isinstance(v, VStr):
        return z3.Length(v.t) > 0
    if isinstance(v, VNone):
        return z3.BoolVal(False)
    if isinstance(v, VRef):
        if v.cls is not None and v.cls in getattr(I.spec, 'falsy_classes', ()):
            # objects of unknown user classes (results, yielded values) may be falsy without being None (0, '', empty containers)
            return z3.And(v.t != core.null(), fn('py_truthy_obj', core.RefSort(), z3.BoolSort())(v.t))
        return v.t != core.null()
    if isinstance(v, (VTuple, VCList)):
        return z3.BoolVal(len(v.items) > 0)
    if isinstance(v, VCDict):
        return z3.BoolVal(len(v.d) > 0)
    if isinstance(v, VList):
        return v.hi > v.lo
    if isinstance(v, VOpt):
        return z3.And(z3.Not(v.isnone), truthy(I, v.val))
    if isinstance(v, VAny):
        I.st.uses_any = True
        return fn('any_truthy', core.AnySort(), z3.BoolSort())(v.t)
    if isinstance(v, VBag):
        x = core.fresh('bx', v.ek.sorts()[0])
        return z3.Exists([x], z3.Select(v.arr, x) > 0)
    if isinstance(v, VSet) and v.arr is None:
        return z3.BoolVal(False)
    if isinstance(v, VSet):
        x = core.fresh('sx', v.ek.sorts()[0])
        return z3.Exists([x], z3.Select(v.arr, x))
    if isinstance(v, VDict):
        x = core.fresh('dx', v.kk.sorts()[0])
        return z3.Exists([x], z3.Select(v.dom, x))
    if isinstance(v, (VFunc, VClass, VCons, VExc)):
        return z3.BoolVal(True)
    if isinstance(v, VModel):
        return v.truthy(I)
    raise Unsupported('truthiness of %r' % (v,))


def unopt(I, v, what='value'):
    """unwrap an optional: forks on None-ness; returns NONE or the inner value"""
    if isinstance(v, VOpt):
        if I.branch(v.isnone, 'isnone'):
            return NONE
        return unopt(I, v.val)
    return v


# --------------------------------------------------------------------------- equality / comparison
def eq(I, a, b):
    """z3 Bool for a == b (Python semantics on the supported kinds)"""
    if isinstance(a, VOpt) or isinstance(b, VOpt):
        if isinstance(a, VOpt) and isinstance(b, VNone):
            return a.isnone
        if isinstance(b, VOpt) and isinstance(a, VNone):
            return b.isnone
        if isinstance(a, VOpt) and isinstance(b, VOpt):
            return z3.Or(z3.And(a.isnone, b.isnone), z3.And(z3.Not(a.isnone), z3.Not(b.isnone), eq(I, a.val, b.val)))
        if isinstance(a, VOpt):
            return z3.And(z3.Not(a.isnone), eq(I, a.val, b))
        return z3.And(z3.Not(b.isnone), eq(I, a, b.val))
    if isinstance(a, VNone) or isinstance(b, VNone):
        if isinstance(a, VNone) and isinstance(b, VNone):
            return z3.BoolVal(True)
        o = b if isinstance(a, VNone) else a
        if isinstance(o, VRef):
            return o.t == core.null()
        if isinstance(o, VAny):
            return core.any_is_none(o.t)
        if isinstance(o, VModel) and hasattr(o, 'is_none'):
            return o.is_none(I)          # contract-defined model of a value that may be None
        return z3.BoolVal(False)
    if isinstance(a, VAny) or isinstance(b, VAny):
        I.st.uses_any = True
        return core.any_inject(a) == core.any_inject(b)
    num = (VInt, VReal, VBool)
    if isinstance(a, num) and isinstance(b, num):
        if isinstance(a, VBool) and isinstance(b, VBool):
            return a.t == b.t
        if isinstance(a, VReal) or isinstance(b, VReal):
            return coerce(a, Real).t == coerce(b, Real).t
        return coerce(a, Int).t == coerce(b, Int).t
    if isinstance(a, VStr) and isinstance(b, VStr):
        if a.is_bytes != b.is_bytes:
            return z3.BoolVal(False)
        return a.t == b.t
    if isinstance(a, VRef) and isinstance(b, VRef):
        return a.t == b.t
    if isinstance(a, (VTuple, VCList)) and isinstance(b, (VTuple, VCList)):
        if type(a) is not type(b) or len(a.items) != len(b.items):
            return z3.BoolVal(False)
        return z3.And([eq(I, x, y) for x, y in zip(a.items, b.items)] + [z3.BoolVal(True)])
    if isinstance(a, VClass) and isinstance(b, VClass):
        return z3.BoolVal(a.name == b.name)
    if isinstance(a, VCons) and isinstance(b, VCons):
        return z3.BoolVal(a is b)
    if type(a) is not type(b):
        simple = (VInt, VReal, VBool, VStr, VRef, VTuple, VCList)
        if isinstance(a, simple) and isinstance(b, simple):
            return z3.BoolVal(False)
    raise Unsupported('== between %r and %r' % (a, b))


def contains(I, item, coll):
    """z3 Bool for `item in coll`"""
    if isinstance(coll, (VTuple, VCList, VGen)):
        return z3.Or([eq(I, item, x) for x in coll.items] + [z3.BoolVal(False)])
    if isinstance(coll, VStr):
        if not isinstance(item, VStr):
            if isinstance(item, VInt) and coll.is_bytes:
                return z3.Contains(coll.t, z3.StrFromCode(item.t))
            raise Unsupported('non-str in str')
        return z3.Contains(coll.t, item.t)
    if isinstance(coll, VSet):
        if coll.arr is None:
            return z3.BoolVal(False)
        return z3.Select(coll.arr, coll.ek.unwrap(item)[0])
    if isinstance(coll, VBag):
        return z3.Select(coll.arr, coll.ek.unwrap(item)[0]) > 0
    if isinstance(coll, VDict):
        return z3.Select(coll.dom, coll.kk.unwrap(item)[0])
    if isinstance(coll, VCDict):
        if isinstance(item, VStr) and z3.is_string_value(item.t):
            return z3.BoolVal(item.t.as_string() in coll.d)
        raise Unsupported('symbolic key in kwargs')
    if isinstance(coll, VModel):
        return coll.contains(I, item)
    if isinstance(coll, VList):
        i = core.fresh('mi', z3.IntSort())
        comps = coll.ek.unwrap(item)
        return z3.Exists([i], z3.And(coll.lo <= i, i < coll.hi, *[z3.Select(a, i) == c for a, c in zip(coll.arrs, comps)]))
    raise Unsupported('in on %r' % (coll,))


# --------------------------------------------------------------------------- exceptions
def raise_(I, cls, *args, **attrs):
    raise RaiseSig(VExc(cls, list(args), attrs))


# --------------------------------------------------------------------------- strings
def py_int_of_str(I, s):
    """APPROX int(s): definitely ok for [ws]*[+-]?digits[ws]*, definitely ValueError when no digit occurs;
    value pinned for plain optionally signed digit strings; otherwise an arbitrary integer."""
    I.st.trusted_used.add('int(str): accepted language over-approximated (ok<=regex ws*[+-]?[0-9]+ws*, fail<=no digit), '
                          'value = str.to_int for [+-]?[0-9]+ and unconstrained otherwise')
    ok = fn('py_int_ok', S(), z3.BoolSort())(s)
    val = fn('py_int_val', S(), z3.IntSort())(s)
    digit = z3.Range('0', '9')
    digits = z3.Plus(digit)
    ws = z3.Star(z3.Union(*[z3.Re(c) for c in WS_CHARS]))
    sign = z3.Option(z3.Union(z3.Re('+'), z3.Re('-')))
    good = z3.Concat(ws, sign, digits, ws)
    anyc = z3.Star(z3.AllChar(z3.ReSort(S())))
    hasdigit = z3.Concat(anyc, digit, anyc)
    I.assume(z3.Implies(z3.InRe(s, good), ok))
    I.assume(z3.Implies(z3.Not(z3.InRe(s, hasdigit)), z3.Not(ok)))
    I.assume(z3.Implies(z3.InRe(s, digits), val == z3.StrToInt(s)))
    I.assume(z3.Implies(z3.And(ok, val < 0), z3.Contains(s, zstr('-'))))
    rest = z3.SubString(s, 1, z3.Length(s) - 1)
    I.assume(z3.Implies(z3.And(z3.PrefixOf(zstr('-'), s), z3.InRe(rest, digits)), val == -z3.StrToInt(rest)))
    I.assume(z3.Implies(z3.And(z3.PrefixOf(zstr('+'), s), z3.InRe(rest, digits)), val == z3.StrToInt(rest)))
    if I.branch(ok, 'int_ok'):
        return VInt(val)
    raise_(I, 'ValueError', VStr('invalid literal for int()'))


LINE_BOUNDARIES_STR = ['\n', '\r', '\x0b', '\x0c', '\x1c', '\x1d', '\x1e', '\x85', '\u2028', '\u2029']
LINE_BOUNDARIES_BYTES = ['\n', '\r']


def str_splitlines(I, v):
    """x.splitlines() (keepends=False): a symbolic list L of the lines.  Facts used (CPython semantics, trusted and listed):
    len(L) == 0 iff x == ''; len(L) <= 1 iff x has no line boundary other than ONE terminator at its very end (a boundary
    character, or CR LF); no element contains a boundary character; every element is an infix of x."""
    I.st.trusted_used.add('str.splitlines(): list of lines; length 0 iff empty, <= 1 iff the only line boundary (if any) is one terminator '
                          'at the very end; elements contain no boundary character and are infixes of the input')
    t = v.t
    bnd = LINE_BOUNDARIES_BYTES if v.is_bytes else LINE_BOUNDARIES_STR
    bre = z3.Union(*[z3.Re(zstr(c)) for c in bnd])
    anyc = z3.AllChar(z3.ReSort(S()))
    nonb = z3.Diff(anyc, bre)
    crlf = z3.Re(zstr('\r\n'))
    single = z3.Union(z3.Concat(z3.Star(nonb), z3.Option(bre)), z3.Concat(z3.Star(nonb), crlf))
    ek = Bytes if v.is_bytes else Str
    L = List(ek).fresh('lines')
    n = L.hi - L.lo
    I.assume(n >= 0)
    I.assume((n == 0) == (t == zstr('')))
    I.assume((n <= 1) == z3.InRe(t, single))
    i = fresh('li', z3.IntSort())
    el = z3.Select(L.arrs[0], i)
    I.assume(z3.ForAll([i], z3.Implies(z3.And(L.lo <= i, i < L.hi), z3.And(z3.Contains(t, el), z3.InRe(el, z3.Star(nonb))))))
    return L


def int_to_str(t):
    return z3.If(t >= 0, z3.IntToStr(t), z3.Concat(zstr('-'), z3.IntToStr(-t)))


def to_str(I, v):
    """str(v) / format(v)"""
    if isinstance(v, VStr):
        if v.is_bytes:
            return VStr(fn('py_repr_bytes', S(), S())(v.t))
        return v
    if isinstance(v, VInt):
        return VStr(int_to_str(v.t))
    if isinstance(v, VNone):
        return VStr('None')
    if isinstance(v, VBool):
        return VStr(z3.If(v.t, zstr('True'), zstr('False')))
    if isinstance(v, VOpt):
        v2 = unopt(I, v)
        return to_str(I, v2)
    if isinstance(v, VAny):
        I.st.uses_any = True
        return VStr(fn('py_str_of_any', core.AnySort(), S())(v.t))
    if isinstance(v, VRef):
        return VStr(fn('py_str_of_ref', core.RefSort(), S())(v.t))
    if isinstance(v, (VExc, VCons)):
        return VStr(core.fresh('str_of_obj', S()))
    raise Unsupported('str(%r)' % (v,))


def strip_fn(I, s, which='strip'):
    """APPROX str.strip(): uninterpreted with the facts: result is an infix of s; if s has no
    whitespace at the relevant ends the result is s; result has no whitespace at the stripped ends."""
    I.st.trusted_used.add('str.%s(): uninterpreted; axioms: infix of input, identity when no outer whitespace, '
                          'no outer whitespace in the result, empty iff input all whitespace' % which)
    r = fn('py_' + which, S(), S())(s)
    wsre = z3.Union(*[z3.Re(c) for c in WS_CHARS])
    anyc = z3.Star(z3.AllChar(z3.ReSort(S())))
    pre = core.fresh('sp', S())
    suf = core.fresh('ss', S())
    I.assume(s == z3.Concat(pre, r, suf))
    I.assume(z3.InRe(pre, z3.Star(wsre)))
    I.assume(z3.InRe(suf, z3.Star(wsre)))
    if which in ('strip', 'lstrip'):
        I.assume(z3.Not(z3.InRe(r, z3.Concat(wsre, anyc))))
    else:
        I.assume(pre == zstr(''))
    if which in ('strip', 'rstrip'):
        I.assume(z3.Not(z3.InRe(r, z3.Concat(anyc, wsre))))
    else:
        I.assume(suf == zstr(''))
    return r


def strip_chars(I, s, chars, which):
    """strip with an explicit concrete character set"""
    if not z3.is_string_value(chars):
        raise Unsupported('strip with symbolic chars')
    cs = chars.as_string()
    r = core.fresh('stripped', S())
    cre = z3.Union(*[z3.Re(c) for c in cs]) if len(cs) > 1 else z3.Re(cs)
    anyc = z3.Star(z3.AllChar(z3.ReSort(S())))
    pre = core.fresh('sp', S())
    suf = core.fresh('ss', S())
    I.assume(s == z3.Concat(pre, r, suf))
    I.assume(z3.InRe(pre, z3.Star(cre)))
    I.assume(z3.InRe(suf, z3.Star(cre)))
    if which in ('strip', 'lstrip'):
        I.assume(z3.Not(z3.InRe(r, z3.Concat(cre, anyc))))
    else:
        I.assume(pre == zstr(''))
    if which in ('strip', 'rstrip'):
        I.assume(z3.Not(z3.InRe(r, z3.Concat(anyc, cre))))
    else:
        I.assume(suf == zstr(''))
    return r


def norm_index(i, n):
    """python slice index normalisation (clamped)"""
    return z3.If(i < 0, z3.If(n + i < 0, z3.IntVal(0), n + i), z3.If(i > n, n, i))


def _note_read(I, v, upto):
    h = I.st.ghost.get('ON_BYTES_READ')
    if h is not None:
        h(I, v, upto)


def _in_range(I, x, n):
    """is 0 <= x <= n known on this path? (then the slice index needs no normalisation)"""
    if I.pure:
        return False
    try:
        return not I.st.feasible(z3.Not(z3.And(x >= 0, x <= n)))
    except Exception:
        return False


def str_slice(I, v, lo, hi):
    n = z3.Length(v.t)
    a = z3.IntVal(0) if lo is None else (lo if _in_range(I, lo, n) else norm_index(lo, n))
    b = n if hi is None else (hi if _in_range(I, hi, n) else norm_index(hi, n))
    ln = z3.If(b > a, b - a, z3.IntVal(0))
    _note_read(I, v, None if hi is None else b)
    r = z3.simplify(z3.SubString(v.t, a, ln))
    if hi is None and not I.pure:
        # s[:a] ++ s[a:] == s  (sound fact about slicing, helps the sequence solver)
        I.assume(z3.Concat(z3.SubString(v.t, 0, a), r) == v.t)
    return VStr(r, v.is_bytes)


def str_index(I, v, i):
    n = z3.Length(v.t)
    ok = z3.And(i >= -n, i < n)
    if not I.branch(ok, 'idx_ok'):
        raise_(I, 'IndexError', VStr('index out of range'))
    j = z3.If(i < 0, n + i, i)
    _note_read(I, v, j + 1)
    ch = z3.SubString(v.t, j, 1)
    if v.is_bytes:
        code = z3.StrToCode(ch)
        if not I.pure:
            I.assume(z3.And(code >= 0, code <= 255))     # bytes are strings over 0..255
        return VInt(code)
    return VStr(ch)


def parse_format(fmt):
    return list(_string.Formatter().parse(fmt))


def str_method(I, v, name, args, kwargs):
    t = v.t
    B = v.is_bytes

    def sarg(i):
        a = args[i] = unopt(I, args[i])
        if not isinstance(a, VStr):
            raise Unsupported('str.%s arg %r' % (name, a))
        return a.t

    if name in ('startswith', 'endswith'):
        f = z3.PrefixOf if name == 'startswith' else z3.SuffixOf
        a = args[0]
        if isinstance(a, VTuple):
            return VBool(z3.Or([f(x.t, t) for x in a.items]))
        a = unopt(I, a)
        if isinstance(a, (VSet, VBag)) and a.ek.sorts() == [S()]:
            # s.startswith(<collection of strings>): some member is a prefix / suffix
            g = fresh('g', S())
            mem = z3.Select(a.arr, g) if isinstance(a, VSet) else z3.Select(a.arr, g) > 0
            r = fresh(name, z3.BoolSort())
            I.assume(r == z3.Exists([g], z3.And(mem, f(g, t))), 'str.%s over a collection: some member matches' % name)
            return VBool(r)
        return VBool(f(sarg(0), t))
    if name == 'find':
        if len(args) > 1:
            st = coerce(args[1], Int).t
            return VInt(z3.IndexOf(t, sarg(0), norm_index(st, z3.Length(t))))
        return VInt(z3.IndexOf(t, sarg(0), 0))
    if name == 'index':
        r = z3.IndexOf(t, sarg(0), 0)
        if I.branch(r < 0, 'index_missing'):
            raise_(I, 'ValueError', VStr('substring not found'))
        return VInt(r)
    if name in ('strip', 'lstrip', 'rstrip'):
        if args:
            return VStr(strip_chars(I, t, sarg(0), name), B)
        return VStr(strip_fn(I, t, name), B)
    if name in ('lower', 'upper', 'title', 'capitalize'):
        I.st.trusted_used.add('str.%s(): uninterpreted, length preserving' % name)
        r = fn('py_' + name, S(), S())(t)
        I.assume(z3.Length(r) == z3.Length(t))
        return VStr(r, B)
    if name == 'split':
        return str_split(I, v, args, kwargs)
    if name == 'splitlines' and not args and not kwargs:
        return str_splitlines(I, v)
    if name == 'join':
        return str_join(I, v, args[0])
    if name == 'encode':
        I.st.trusted_used.add('str.encode(): uninterpreted injective function py_encode (total; UnicodeEncodeError not modelled)')
        return VStr(fn('py_encode', S(), S())(t), True)
    if name == 'decode' and (len(args) > 1 and isinstance(args[1], VStr) and z3.is_string_value(args[1].t)
                             and args[1].t.as_string() in ('replace', 'ignore') or 'errors' in kwargs):
        I.st.trusted_used.add("bytes.decode(enc, 'replace'): total function py_decode_replace (never raises)")
        return VStr(fn('py_decode_replace', S(), S())(t), False)
    if name == 'decode':
        I.st.trusted_used.add('bytes.decode(): py_decode uninterpreted, may raise UnicodeDecodeError')
        okp = fn('py_decode_ok', S(), z3.BoolSort())(t)
        if not I.branch(okp, 'decode_ok'):
            raise_(I, 'UnicodeDecodeError', VStr('codec cannot decode'))
        return VStr(fn('py_decode', S(), S())(t), False)
    if name == 'format':
        return VStr(str_format(I, t, args, kwargs))
    if name == 'replace':
        I.st.trusted_used.add('str.replace(): uninterpreted py_replace with the fact that the result has no occurrence '
                              'of the pattern when the replacement does not re-create it (not asserted)')
        return VStr(fn('py_replace', S(), S(), S(), S())(t, sarg(0), sarg(1)), B)
    if name == 'isdigit':
        return VBool(z3.InRe(t, z3.Plus(z3.Range('0', '9'))))
    if name == 'partition':
        sep = sarg(0)
        idx = z3.IndexOf(t, sep, 0)
        if I.branch(idx >= 0, 'partition_found'):
            return VTuple([VStr(z3.SubString(t, 0, idx), B), VStr(sep, B),
                           VStr(z3.SubString(t, idx + z3.Length(sep), z3.Length(t)), B)])
        return VTuple([v, VStr(zstr(''), B), VStr(zstr(''), B)])
    if name == 'count':
        I.st.trusted_used.add('str.count(): uninterpreted, non-negative, zero iff not contained')
        r = fn('py_count', S(), S(), z3.IntSort())(t, sarg(0))
        I.assume(r >= 0)
        I.assume((r == 0) == z3.Not(z3.Contains(t, sarg(0))))
        return VInt(r)
    raise Unsupported('str.%s' % name)


def str_format(I, fmt_t, args, kwargs):
    if not z3.is_string_value(fmt_t):
        raise Unsupported('format on symbolic template')
    parts = []
    auto = 0
    for lit, field, spec, conv in parse_format(fmt_t.as_string()):
        if lit:
            parts.append(zstr(lit))
        if field is None:
            continue
        if field == '':
            val = args[auto]
            auto += 1
        elif field.isdigit():
            val = args[int(field)]
        else:
            val = kwargs[field]
        if spec not in ('', 's', 'd'):
            raise Unsupported('format spec %r' % spec)
        parts.append(to_str(I, val).t)
    if not parts:
        return zstr('')
    return z3.Concat(*parts) if len(parts) > 1 else parts[0]


def percent_format(I, fmt, arg):
    if not z3.is_string_value(fmt.t):
        raise Unsupported('%% on symbolic template')
    s = unescape(fmt.t.as_string())
    vals = arg.items if isinstance(arg, VTuple) else [arg]
    parts, i, k = [], 0, 0
    buf = ''
    while i < len(s):
        if s[i] == '%':
            c = s[i + 1]
            if c == '%':
                buf += '%'
            elif c in 'sdr':
                if buf:
                    parts.append(zstr(buf))
                    buf = ''
                vk = unopt(I, vals[k])
                if fmt.is_bytes and isinstance(vk, VStr) and vk.is_bytes:
                    parts.append(vk.t)
                else:
                    parts.append(to_str(I, vk).t)
                k += 1
            else:
                raise Unsupported('%% format %r' % c)
            i += 2
        else:
            buf += s[i]
            i += 1
    if buf:
        parts.append(zstr(buf))
    if not parts:
        return VStr('', fmt.is_bytes)
    return VStr(z3.Concat(*parts) if len(parts) > 1 else parts[0], fmt.is_bytes)


def unescape(s):
    from .solve import unescape_z3_string
    return unescape_z3_string(s)


WS_CHARS_STR = [' ', '\t', '\n', '\r', '\x0b', '\x0c', '\x1c', '\x1d', '\x1e', '\x1f', '\x85', '\xa0']
WS_CHARS_BYTES = [' ', '\t', '\n', '\r', '\x0b', '\x0c']


def ws_words(t, is_bytes=False):
    """the list x.split() as a function of x: (array of words, number of words) - uninterpreted, shared by code and specifications"""
    arr = fn('ws_words', S(), z3.ArraySort(z3.IntSort(), S()))(t)
    n = fn('ws_count', S(), z3.IntSort())(t)
    return arr, n


def str_split_ws(I, v):
    """x.split() (no separator: runs of whitespace separate, leading/trailing whitespace ignored).  The word list is the uninterpreted
    function ws_words(x); facts used (CPython semantics, trusted and listed): the count is >= 0 and is 0 iff x consists of whitespace
    only; no word is empty or contains a whitespace character; every word is an infix of x."""
    I.st.trusted_used.add('str.split() without separator: list ws_words(x); length 0 iff x is all whitespace; words are non-empty, contain no '
                          'whitespace character and are infixes of x (the common ASCII / Latin-1 whitespace characters are modelled)')
    t = v.t
    chars = WS_CHARS_BYTES if v.is_bytes else WS_CHARS_STR
    wre = z3.Union(*[z3.Re(zstr(c)) for c in chars])
    nonw = z3.Diff(z3.AllChar(z3.ReSort(S())), wre)
    arr, n = ws_words(t, v.is_bytes)
    I.assume(n >= 0)
    I.assume((n == 0) == z3.InRe(t, z3.Star(wre)))
    i = fresh('wi', z3.IntSort())
    el = z3.Select(arr, i)
    I.assume(z3.ForAll([i], z3.Implies(z3.And(0 <= i, i < n), z3.And(z3.Contains(t, el), z3.InRe(el, z3.Plus(nonw))))))
    return VList(Bytes if v.is_bytes else Str, [arr], z3.IntVal(0), n)


def str_split(I, v, args, kwargs):
    t, B = v.t, v.is_bytes
    if not args:
        return str_split_ws(I, v)
    sep = args[0].t
    maxsplit = None
    if len(args) > 1:
        maxsplit = args[1]
    elif 'maxsplit' in kwargs:
        maxsplit = kwargs['maxsplit']
    if maxsplit is not None:
        if not z3.is_int_value(maxsplit.t):
            raise Unsupported('symbolic maxsplit')
        if maxsplit.t.as_long() != 1:
            raise Unsupported('maxsplit != 1')
        idx = z3.IndexOf(t, sep, 0)
        if I.branch(idx >= 0, 'split1_found'):
            a = VStr(z3.SubString(t, 0, idx), B)
            b = VStr(z3.SubString(t, idx + z3.Length(sep), z3.Length(t) - idx - z3.Length(sep)), B)
            I.assume(z3.Not(z3.Contains(z3.SubString(t, 0, idx + z3.Length(sep) - 1), sep)))
            return VCList([a, b])
        return VCList([v])
    # unbounded split: symbolic list; facts: >= 1 element, no element contains sep,
    # JOIN(sep, parts) == t is kept as an uninterpreted link (py_split_of)
    I.st.trusted_used.add('str.split(sep): result is a non-empty list none of whose elements contains sep; every element is '
                          'an infix of the input; single element iff sep does not occur')
    arr = core.fresh('split', z3.ArraySort(z3.IntSort(), S()))
    n = core.fresh('nsplit', z3.IntSort())
    I.assume(n >= 1)
    i = core.fresh('i', z3.IntSort())
    I.assume(z3.ForAll([i], z3.Implies(z3.And(0 <= i, i < n),
                                       z3.And(z3.Not(z3.Contains(z3.Select(arr, i), sep)), z3.Contains(t, z3.Select(arr, i))))))
    I.assume((n == 1) == z3.Not(z3.Contains(t, sep)))
    I.assume(z3.Implies(n == 1, z3.Select(arr, 0) == t))
    return VList(Bytes if B else Str, [arr], z3.IntVal(0), n)


def join_fn(ek):
    return fn('py_join', S(), z3.ArraySort(z3.IntSort(), S()), z3.IntSort(), z3.IntSort(), S())


def str_join(I, sepv, coll):
    sep = sepv.t
    if isinstance(coll, (VTuple, VCList, VGen)):
        parts = []
        for k, it in enumerate(coll.items):
            if k:
                parts.append(sep)
            if not isinstance(it, VStr):
                raise Unsupported('join of non-str %r' % (it,))
            parts.append(it.t)
        if not parts:
            return VStr('', sepv.is_bytes)
        return VStr(z3.Concat(*parts) if len(parts) > 1 else parts[0], sepv.is_bytes)
    if type(coll).__name__ == '_LazyComp':
        # generator expression over a symbolic list: supported when it is (equivalent to) the identity map without an
        # effective filter, e.g. (s if isinstance(s, bytes) else s.encode(enc) for s in parts if s is not None) on a list of bytes
        i, guard, elt, filtered = I.comp_symbolic(coll.node, coll.it)
        it = coll.it
        same = isinstance(elt, VStr) and z3.eq(z3.simplify(elt.t), z3.simplify(z3.Select(it.arrs[0], i)))
        window = z3.And(it.lo <= i, i < it.hi)
        if not same or I.st.feasible(z3.And(window, z3.Not(guard))):
            raise Unsupported('join over a generator expression that transforms or filters a symbolic list')
        coll = it
    if isinstance(coll, VList) and z3.is_string_value(sep) and sep.as_string() == '':
        # ''.join(parts) is the concatenation of the parts (the flatten view)
        I.assume(z3.Implies(coll.hi <= coll.lo, flat(coll) == zstr('')))
        return VStr(flat(coll), sepv.is_bytes)
    if isinstance(coll, VList):
        I.st.trusted_used.add('str.join(list): uninterpreted py_join with lemma: a character occurring in the result occurs '
                              'in the separator or in some element; empty list gives the empty string; singleton gives the element')
        j = join_fn(coll.ek)(sep, coll.arrs[0], coll.lo, coll.hi)
        I.assume(z3.Implies(coll.hi <= coll.lo, j == zstr('')))
        I.assume(z3.Implies(coll.hi == coll.lo + 1, j == z3.Select(coll.arrs[0], coll.lo)))
        I.join_terms.append((j, sep, coll))
        return VStr(j, sepv.is_bytes)
    raise Unsupported('join on %r' % (coll,))


def join_char_lemma(I, c):
    """instantiate the join containment lemma for the (single-character) string c on every join term"""
    for j, sep, coll in I.join_terms:
        i = core.fresh('ji', z3.IntSort())
        I.assume(z3.Implies(z3.Contains(j, c), z3.Or(z3.Contains(sep, c), z3.Exists([i], z3.And(
            coll.lo <= i, i < coll.hi, z3.Contains(z3.Select(coll.arrs[0], i), c))))))


# --------------------------------------------------------------------------- flatten view of lists of strings
def flat_fn():
    return fn('flat', z3.ArraySort(z3.IntSort(), S()), z3.IntSort(), z3.IntSort(), S())


def flat(lst):
    """spec function: concatenation of all elements of a list of str/bytes"""
    return flat_fn()(lst.arrs[0], lst.lo, lst.hi)


def flat_axioms(I, old, new, touched):
    """sound facts about flat() relating a list before and after an update at index `touched`
    (the recursive definition unfolded at both ends, and the frame rule for the untouched window)."""
    F = flat_fn()
    facts = []
    for l in (old, new):
        a, lo, hi = l.arrs[0], l.lo, l.hi
        facts.append(z3.Implies(hi <= lo, F(a, lo, hi) == zstr('')))
        facts.append(z3.Implies(hi > lo, F(a, lo, hi) == z3.Concat(z3.Select(a, lo), F(a, lo + 1, hi))))
        facts.append(z3.Implies(hi > lo, F(a, lo, hi) == z3.Concat(F(a, lo, hi - 1), z3.Select(a, hi - 1))))
    # frame: arrays agree on the common window not containing touched
    ao, an = old.arrs[0], new.arrs[0]
    for (lo, hi) in ((old.lo, old.hi), (old.lo + 1, old.hi), (old.lo, old.hi - 1)):
        facts.append(z3.Implies(z3.Or(touched < lo, touched >= hi), F(an, lo, hi) == F(ao, lo, hi)))
    for f in facts:
        I.assume(f)


# --------------------------------------------------------------------------- list / deque methods
def list_method(I, lv, name, args, kwargs):
    """returns (result, new_list or None)"""
    ek = lv.ek

    def with_flat(new, touched):
        if ek in (Str, Bytes):
            flat_axioms(I, lv, new, touched)
        return new

    if name == 'append':
        comps = ek.unwrap(args[0])
        new = VList(ek, [z3.Store(a, lv.hi, c) for a, c in zip(lv.arrs, comps)], lv.lo, lv.hi + 1, lv.loc)
        return NONE, with_flat(new, lv.hi)
    if name == 'appendleft':
        comps = ek.unwrap(args[0])
        new = VList(ek, [z3.Store(a, lv.lo - 1, c) for a, c in zip(lv.arrs, comps)], lv.lo - 1, lv.hi, lv.loc)
        return NONE, with_flat(new, lv.lo - 1)
    if name == 'popleft' or (name == 'pop' and args and z3.is_int_value(args[0].t) and args[0].t.as_long() == 0):
        if I.branch(lv.hi <= lv.lo, 'pop_empty'):
            raise_(I, 'IndexError', VStr('pop from an empty deque'))
        new = VList(ek, lv.arrs, lv.lo + 1, lv.hi, lv.loc)
        return lv.at(lv.lo), with_flat(new, lv.lo - 1)
    if name == 'pop' and not args:
        if I.branch(lv.hi <= lv.lo, 'pop_empty'):
            raise_(I, 'IndexError', VStr('pop from empty list'))
        new = VList(ek, lv.arrs, lv.lo, lv.hi - 1, lv.loc)
        return lv.at(lv.hi - 1), with_flat(new, lv.lo - 1)
    if name == 'clear':
        new = VList(ek, lv.arrs, lv.lo, lv.lo, lv.loc)
        return NONE, with_flat(new, lv.lo - 1)
    if name == 'copy':
        return VList(ek, lv.arrs, lv.lo, lv.hi), None
    if name == 'extend':
        o = args[0]
        if isinstance(o, (VCList, VTuple)):
            cur = lv
            for it in o.items:
                _, cur = list_method(I, cur, 'append', [it], {})
            return NONE, cur
        if isinstance(o, VList):
            # new array equals old on [lo,hi) and o shifted on [hi, hi+len(o))
            arrs = [core.fresh('ext', a.sort()) for a in lv.arrs]
            i = core.fresh('i', z3.IntSort())
            for an, ao, ab in zip(arrs, lv.arrs, o.arrs):
                I.assume(z3.ForAll([i], z3.Implies(z3.And(lv.lo <= i, i < lv.hi), z3.Select(an, i) == z3.Select(ao, i))))
                I.assume(z3.ForAll([i], z3.Implies(z3.And(o.lo <= i, i < o.hi),
                                                   z3.Select(an, lv.hi + (i - o.lo)) == z3.Select(ab, i))))
            new = VList(ek, arrs, lv.lo, lv.hi + (o.hi - o.lo), lv.loc)
            if ek in (Str, Bytes):
                F = flat_fn()
                I.assume(F(arrs[0], new.lo, new.hi) == z3.Concat(flat(lv), flat(o)))
            return NONE, new
    raise Unsupported('list.%s' % name)


def list_index(I, lv, i):
    n = lv.hi - lv.lo
    ok = z3.And(i >= -n, i < n)
    if not I.branch(ok, 'idx_ok'):
        raise_(I, 'IndexError', VStr('list index out of range'))
    j = z3.If(i < 0, lv.hi + i, lv.lo + i)
    return lv.at(j), j


def list_slice(I, lv, lo, hi):
    n = lv.hi - lv.lo
    a = z3.IntVal(0) if lo is None else norm_index(lo, n)
    b = n if hi is None else norm_index(hi, n)
    b = z3.If(b < a, a, b)
    return VList(lv.ek, lv.arrs, z3.simplify(lv.lo + a), z3.simplify(lv.lo + b))


def set_method(I, sv, name, args, kwargs):
    if sv.arr is None:
        # `set()` whose element kind is not known yet: adopt it from the first argument
        a0 = args[0] if args else None
        if isinstance(a0, (VSet, VBag)):
            sv = VSet(a0.ek, z3.K(a0.ek.sorts()[0], z3.BoolVal(False)), sv.loc)
        elif isinstance(a0, (VCList, VTuple, VGen)) and not a0.items:
            return NONE, None
        elif isinstance(a0, (VCList, VTuple, VGen)):
            k0 = kind_of(a0.items[0])
            sv = VSet(k0, z3.K(k0.sorts()[0], z3.BoolVal(False)), sv.loc)
        elif a0 is not None and name in ('add', 'discard', 'remove'):
            k0 = kind_of(a0)
            sv = VSet(k0, z3.K(k0.sorts()[0], z3.BoolVal(False)), sv.loc)
        else:
            raise Unsupported('set.%s on an empty set of unknown element kind' % name)
    ek = sv.ek
    if name == 'add':
        return NONE, VSet(ek, z3.Store(sv.arr, ek.unwrap(args[0])[0], True), sv.loc)
    if name == 'discard':
        return NONE, VSet(ek, z3.Store(sv.arr, ek.unwrap(args[0])[0], False), sv.loc)
    if name == 'remove':
        k = ek.unwrap(args[0])[0]
        if not I.branch(z3.Select(sv.arr, k), 'set_has'):
            raise_(I, 'KeyError', args[0])
        return NONE, VSet(ek, z3.Store(sv.arr, k, False), sv.loc)
    if name == 'copy':
        return VSet(ek, sv.arr), None
    if name == 'clear':
        return NONE, VSet(ek, z3.K(ek.sorts()[0], z3.BoolVal(False)), sv.loc)
    if name == 'update':
        o = args[0]
        if isinstance(o, VBag):
            x = core.fresh('u', ek.sorts()[0])
            new = core.fresh('union', sv.arr.sort())
            I.assume(z3.ForAll([x], z3.Select(new, x) == z3.Or(z3.Select(sv.arr, x), z3.Select(o.arr, x) > 0)))
            return NONE, VSet(ek, new, sv.loc)
        if isinstance(o, VSet) and o.arr is None:
            return NONE, VSet(ek, sv.arr, sv.loc)
        if isinstance(o, VSet):
            x = core.fresh('u', ek.sorts()[0])
            new = core.fresh('union', sv.arr.sort())
            I.assume(z3.ForAll([x], z3.Select(new, x) == z3.Or(z3.Select(sv.arr, x), z3.Select(o.arr, x))))
            return NONE, VSet(ek, new, sv.loc)
        if isinstance(o, (VCList, VTuple)):
            arr = sv.arr
            for it in o.items:
                arr = z3.Store(arr, ek.unwrap(it)[0], True)
            return NONE, VSet(ek, arr, sv.loc)
    raise Unsupported('set.%s' % name)


def bag_method(I, bv, name, args, kwargs):
    ek = bv.ek
    if name == 'append':
        k = ek.unwrap(args[0])[0]
        return NONE, VBag(ek, z3.Store(bv.arr, k, z3.Select(bv.arr, k) + 1), bv.loc)
    if name == 'remove':
        k = ek.unwrap(args[0])[0]
        if not I.branch(z3.Select(bv.arr, k) > 0, 'bag_has'):
            raise_(I, 'ValueError', VStr('list.remove(x): x not in list'))
        return NONE, VBag(ek, z3.Store(bv.arr, k, z3.Select(bv.arr, k) - 1), bv.loc)
    if name == 'clear':
        return NONE, VBag(ek, z3.K(ek.sorts()[0], z3.IntVal(0)), bv.loc)
    if name == 'copy':
        return VBag(ek, bv.arr), None
    raise Unsupported('bag(list).%s' % name)


def dict_get_slot(I, dv, key):
    k = dv.kk.unwrap(key)[0]
    val = dv.vk.wrap([z3.Select(a, k) for a in dv.vals])
    if isinstance(val, (VList, VSet, VBag, VDict)) and dv.loc is not None:
        val.loc = ('slot', dv.loc, key)
    return k, val


def dict_empty_value(I, vk):
    """the value a defaultdict / setdefault creates"""
    if isinstance(vk, List):
        arrs = [core.fresh('e', z3.ArraySort(z3.IntSort(), s)) for s in vk.ek.sorts()]
        nl = VList(vk.ek, arrs, z3.IntVal(0), z3.IntVal(0))
        if vk.ek in (Str, Bytes):
            I.assume(flat(nl) == zstr(''))
        return nl
    if isinstance(vk, Set):
        return VSet(vk.ek, z3.K(vk.ek.sorts()[0], z3.BoolVal(False)))
    raise Unsupported('default value of %r' % vk)


def dict_store(dv, key, value):
    k = dv.kk.unwrap(key)[0]
    comps = dv.vk.unwrap(value)
    return VDict(dv.kk, dv.vk, z3.Store(dv.dom, k, True), [z3.Store(a, k, c) for a, c in zip(dv.vals, comps)], dv.loc, dv.default)


def dict_method(I, dv, name, args, kwargs):
    if name == 'get':
        k, val = dict_get_slot(I, dv, args[0])
        if I.branch(z3.Select(dv.dom, k), 'dict_has'):
            return val, None
        return (args[1] if len(args) > 1 else NONE), None
    if name == 'pop':
        k, val = dict_get_slot(I, dv, args[0])
        if I.branch(z3.Select(dv.dom, k), 'dict_has'):
            return val, VDict(dv.kk, dv.vk, z3.Store(dv.dom, k, False), dv.vals, dv.loc, dv.default)
        if len(args) > 1:
            return args[1], None
        raise_(I, 'KeyError', args[0])
    if name == 'setdefault':
        k, val = dict_get_slot(I, dv, args[0])
        if I.branch(z3.Select(dv.dom, k), 'dict_has'):
            return val, None
        nd = dict_store(dv, args[0], args[1])
        _, val = dict_get_slot(I, nd, args[0])
        return val, nd
    if name == 'clear':
        return NONE, VDict(dv.kk, dv.vk, z3.K(dv.kk.sorts()[0], z3.BoolVal(False)), dv.vals, dv.loc, dv.default)
    raise Unsupported('dict.%s' % name)


def B2A(t):
    """spec bridge: the array of byte values of a bytes object"""
    return fn('BYTES_TO_ARRAY', S(), z3.ArraySort(z3.IntSort(), z3.IntSort()))(t)


def A2B(arr, lo, hi):
    """spec bridge: the bytes object whose content is arr[lo:hi]"""
    return fn('ARRAY_TO_BYTES', z3.ArraySort(z3.IntSort(), z3.IntSort()), z3.IntSort(), z3.IntSort(), S())(arr, lo, hi)


def bytes_of_list(I, lst):
    """bytes(list_of_ints) / bytearray(list): uninterpreted bridge with the facts: length, and element-wise inverse of B2A"""
    r = A2B(lst.arrs[0], lst.lo, lst.hi)
    i = core.fresh('bi', z3.IntSort())
    n = lst.hi - lst.lo
    I.assume(z3.Length(r) == z3.If(n >= 0, n, 0))
    I.assume(z3.ForAll([i], z3.Implies(z3.And(0 <= i, i < n), z3.Select(B2A(r), i) == z3.Select(lst.arrs[0], lst.lo + i))))
    return VStr(r, True)


def list_of_bytes(I, v):
    """list(bytes_obj): the array view B2A(bytes) on the window [0, len); A2B of it gives the bytes back"""
    arr = B2A(v.t)
    n = z3.Length(v.t)
    I.assume(A2B(arr, z3.IntVal(0), n) == v.t)
    i = core.fresh('bi', z3.IntSort())
    I.assume(z3.ForAll([i], z3.Implies(z3.And(0 <= i, i < n), z3.And(z3.Select(arr, i) >= 0, z3.Select(arr, i) <= 255))))
    return VList(Int, [arr], z3.IntVal(0), n)

"""BOUNDED validation of the trusted axiom used for C18 (not a proof):
   SPLIT(x++y) == init(SPLIT(x)) ++ SPLIT(last(SPLIT(x)) ++ y), SPLIT(x) non-empty, SPLIT(b'') == [b'']
for SPLIT = the real LINESEP.split of circuits.protocols.line, over all byte strings x++y of length <= N over the
alphabet {CR, LF, 'a', 0xC3, 0xA9} and every cut.  exit 0 = holds on the bound, 1 = counterexample."""
import itertools, sys
from circuits.protocols.line import LINESEP
tier = sys.argv[1] if len(sys.argv) > 1 else 'quick'
N = 7 if tier == 'quick' else 9
ALPHA = [b'\r', b'\n', b'a', b'\xc3', b'\xa9']
S = LINESEP.split
n = 0
assert S(b'') == [b'']
for L in range(0, N + 1):
    for t in itertools.product(ALPHA, repeat=L):
        w = b''.join(t)
        for cut in range(0, len(w) + 1):
            x, y = w[:cut], w[cut:]
            sx = S(x)
            n += 1
            if not sx or S(w) != sx[:-1] + S(sx[-1] + y):
                print('COUNTEREXAMPLE x=%r y=%r: SPLIT(x++y)=%r but init++SPLIT(last++y)=%r' % (x, y, S(w), sx[:-1] + S(sx[-1] + y)))
                sys.exit(1)
print('split axiom holds for all %d (string, cut) pairs up to length %d over %d symbols' % (n, N, len(ALPHA)))

"""BOUNDED validation of the trusted str/bytes.splitlines() facts used by pyvc/lib.py (str_splitlines) against CPython:
len == 0 iff empty; len <= 1 iff the only line boundary is one terminator at the very end; elements are boundary-free infixes.
All strings over a 6-symbol alphabet up to length 6 (str) / 4 symbols up to length 7 (bytes)."""
import itertools, re, sys
B = ['\n', '\r', '\x0b', '\x0c', '\x1c', '\x1d', '\x1e', '\x85', ' ', ' ']
cls = ''.join(B)
single = re.compile('(?:[^%s]*[%s]?|[^%s]*\r\n)\\Z' % (cls, cls, cls), re.S)
n = 0
for L in range(0, 7):
    for t in itertools.product(['a', '\n', '\r', '\x0b', '\x85', ' '], repeat=L):
        x = ''.join(t); ls = x.splitlines(); n += 1
        ok = ((len(ls) == 0) == (x == '')) and ((len(ls) <= 1) == bool(single.match(x))) and all(e in x and not any(b in e for b in B) for e in ls)
        if not ok:
            print('counterexample', repr(x), ls); sys.exit(1)
s = re.compile(b'(?:[^\n\r]*[\n\r]?|[^\n\r]*\r\n)\\Z', re.S)
for L in range(0, 8):
    for t in itertools.product([b'a', b'\n', b'\r', b'\x0b'], repeat=L):
        x = b''.join(t); ls = x.splitlines(); n += 1
        if (len(ls) <= 1) != bool(s.match(x)):
            print('counterexample', x, ls); sys.exit(1)
print('splitlines facts hold for all %d strings' % n)

"""BOUNDED stand-in for the C18 clause 'parsing a serialised message gives back its prefix, command and arguments'
(str.split() on arbitrary whitespace is outside the string fragment the solvers decide).
All messages with prefix in {None,'n','n!u@h'}, command in {'PRIVMSG','001'}, up to 3 args over a small alphabet.
A message counts only if Message accepts it (str(m) does not raise) and it satisfies the IRC grammar precondition for
round-tripping: non-final args are non-empty and do not start with ':'; (final arg may be anything accepted).
exit 0 = all round-trip, 1 = counterexample printed on the last line."""
import itertools, sys
from circuits.protocols.irc.message import Message, Error
from circuits.protocols.irc.utils import parsemsg
tier = sys.argv[1] if len(sys.argv) > 1 else 'quick'
ALPHA = ['a', ' ', ':', '\t', '\x00', 'é'] if tier == 'quick' else ['a', 'b', ' ', ':', '\t', '\x00', 'é', '!']
MAXLEN = 2 if tier == 'quick' else 3
words = [''.join(t) for L in range(0, MAXLEN + 1) for t in itertools.product(ALPHA, repeat=L)]
import json
cls = {'plain': [0, 0, None], 'colon_final': [0, 0, None], 'ws_final': [0, 0, None]}
for prefix in (None, 'n', 'n!u@h'):
    for cmd in ('PRIVMSG', '001'):
        for k in range(0, 3):
            for args in itertools.product(words, repeat=k):
                if any(a == '' or a.startswith(':') for a in args[:-1]):
                    continue  # not representable as IRC middle parameters (precondition of the grammar)
                if any(ch in a for a in args[:-1] for ch in '\t\x0b\x0c'):
                    continue
                try:
                    m = Message(cmd, *args, prefix=prefix) if prefix is not None else Message(cmd, *args)
                    wire = bytes(m)
                except Error:
                    continue
                last = args[-1] if args else 'x'
                if last.startswith(':') or last == '':
                    c_ = 'colon_final'
                elif ' ' not in last and any(ch in last for ch in '\t\x0b\x0c'):
                    c_ = 'ws_final'
                else:
                    c_ = 'plain'
                p, c, a = parsemsg(wire[:-2])
                got_prefix = None
                if prefix is not None:
                    got_prefix = p[0] if p[1] is None and p[2] is None else '%s!%s@%s' % p
                good = c == cmd and list(a) == list(args) and (prefix is None or got_prefix == prefix)
                cls[c_][0] += 1
                if good:
                    cls[c_][1] += 1
                elif cls[c_][2] is None:
                    cls[c_][2] = 'prefix=%r cmd=%r args=%r wire=%r parsed=%r' % (prefix, cmd, args, wire, (p, c, a))
bad = False
for k, (n, ok, w) in cls.items():
    print(json.dumps({'ob': 'roundtrip.' + k, 'ok': ok == n and n > 0, 'detail': '%d/%d messages round-trip (words over %r up to length %d, <=2 args)%s'
                      % (ok, n, ALPHA, MAXLEN, '' if w is None else '; first failure: ' + w)}))
    bad = bad or ok != n
sys.exit(1 if bad else 0)

"""BOUNDED stand-in (C13): grammar functions (_parse_firstline, header line parsing, urlsplit, unicode_escape) are opaque to the
contracts; here well-formed requests and responses from a small grammar are parsed by the real HttpParser under every single cut
and byte-at-a-time delivery and compared with one-piece delivery.  Output: JSON lines {ob, ok, detail}."""
import itertools, json, sys
from circuits.web.parsers.http import HttpParser
tier = sys.argv[1] if len(sys.argv) > 1 else 'quick'

def view(p):
    return (p.get_method(), p.get_path(), p.get_query_string(), p.get_version(), sorted(p.get_headers().items()) if p.get_headers() else [],
            p.is_headers_complete(), p.is_message_complete(), p.errno, p.recv_body())

def feed(kind, chunks):
    p = HttpParser(kind, True)
    for c in chunks:
        p.execute(c, len(c))
    return view(p)

reqs = []
for method, target in itertools.product(['GET', 'POST'], ['/', '/a/b?x=1&y=2']):
    for hdrs in ([b'Host: h'], [b'Host: h', b'X-Long: a', b' continued'], [b'Host: h', b'Connection: keep-alive']):
        for body in (None, b'', b'hello', b'x' * 30):
            h = list(hdrs)
            if body is not None:
                h.append(b'Content-Length: %d' % len(body))
            reqs.append((0, ('%s %s HTTP/1.1' % (method, target)).encode() + b'\r\n' + b'\r\n'.join(h) + b'\r\n\r\n' + (body or b'')))
        for chunks in ([b'hello'], [b'he', b'llo world'], []):
            enc = b''.join(b'%x;ext=1\r\n%s\r\n' % (len(c), c) for c in chunks) + b'0\r\n\r\n'
            reqs.append((0, ('%s %s HTTP/1.1' % (method, target)).encode() + b'\r\n' + b'\r\n'.join(hdrs + [b'Transfer-Encoding: chunked']) + b'\r\n\r\n' + enc))
resps = [(1, b'HTTP/1.1 200 OK\r\nContent-Length: 5\r\n\r\nhello'), (1, b'HTTP/1.1 204 No Content\r\n\r\n'), (1, b'HTTP/1.1 304 Not Modified\r\nETag: x\r\n\r\n'),
         (1, b'HTTP/1.1 200 OK\r\nTransfer-Encoding: chunked\r\n\r\n3\r\nabc\r\n0\r\n\r\n')]
cls = {'requests.one_cut': [0, 0, None], 'requests.byte_at_a_time': [0, 0, None], 'responses.one_cut': [0, 0, None], 'responses.byte_at_a_time': [0, 0, None]}
for kind, msg in reqs + resps:
    whole = feed(kind, [msg])
    who = 'requests' if kind == 0 else 'responses'
    for cut in range(1, len(msg)):
        k = who + '.one_cut'
        cls[k][0] += 1
        got = feed(kind, [msg[:cut], msg[cut:]])
        if got == whole:
            cls[k][1] += 1
        elif cls[k][2] is None:
            cls[k][2] = 'cut %r | %r: %r vs whole %r' % (msg[max(0, cut - 4):cut], msg[cut:cut + 4], got[5:8], whole[5:8])
    k = who + '.byte_at_a_time'
    cls[k][0] += 1
    got = feed(kind, [bytes([b]) for b in msg])
    if got == whole:
        cls[k][1] += 1
    elif cls[k][2] is None:
        cls[k][2] = '%r...: %r vs whole %r' % (msg[:20], got[5:8], whole[5:8])
bad = False
for k, (n, ok, w) in cls.items():
    print(json.dumps({'ob': 'segmentation.' + k, 'ok': ok == n, 'detail': '%d/%d deliveries agree with one-piece delivery%s' % (ok, n, '' if w is None else '; first difference: ' + w)}))
    bad = bad or ok != n
sys.exit(1 if bad else 0)

"""BOUNDED stand-in (labelled, never counted as proved) for C19 "however the connection segments the packets": streams of call
packets (one small, one with unicode, one larger than the 4 KiB read buffer, one value packet in between) produced by the real
dump_event and delivered to a real Protocol through add_buffer() in one piece, with every 2-way cut (every 97th for the big
stream) and byte-at-a-time (small streams); the dispatched events must be the same, once each, in order."""
import json, sys
from circuits import Component, Event
from circuits.node.protocol import Protocol, DELIMITER
from circuits.node.utils import dump_event


class hello(Event):
    pass


def run(stream, cuts):
    seen = []

    class App(Component):
        def hello(self, *a, **k):
            seen.append((a, tuple(sorted(k.items()))))
    app = App()
    p = Protocol().register(app)
    pos = 0
    for c in list(cuts) + [len(stream)]:
        p.add_buffer(stream[pos:c])
        pos = c
    for _ in range(8):
        app.tick()
    return seen


small = [hello('a', 1), hello('é€', k='v'), hello([1, {'x': None}])]
big = [hello('x' * 5000), hello('tail')]
out = []
for name, evs in (('small', small), ('big', big)):
    stream = b''.join(dump_event(e, i).encode('utf-8') + DELIMITER for i, e in enumerate(evs))
    whole = run(stream, ())
    ok_whole = len(whole) == len(evs)
    step = 1 if len(stream) < 1500 else 97
    n = bad = 0
    first = None
    cutsets = [(k,) for k in range(1, len(stream), step)]
    if step == 1:
        cutsets.append(tuple(range(1, len(stream))))
        cutsets += [(k, k + 1) for k in range(1, len(stream) - 1, 7)]
    for cuts in cutsets:
        n += 1
        try:
            got = run(stream, cuts)
        except Exception as e:
            got = repr(e)
        if got != whole:
            bad += 1
            first = first or 'cuts %r: %d events dispatched, one-piece delivery gives %d' % (cuts[:3], len(got) if isinstance(got, list) else -1, len(whole))
    out.append({'ob': 'segmentation.%s_stream' % name, 'ok': ok_whole and bad == 0,
                'detail': '%d/%d deliveries agree with one-piece delivery (%d events)%s' % (n - bad, n, len(whole), ('; first difference: ' + first) if first else '')})
for o in out:
    print(json.dumps(o))
sys.exit(0 if all(o['ok'] for o in out) else 1)
